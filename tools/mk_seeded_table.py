#!/venv/bin/python
"""Rewrites the table between the SEEDED-TABLE markers of DESIGN.md from seeded/*/meta.json and seeded/results.json."""
import json
import os
import re

VERIF = os.path.dirname(os.path.dirname(os.path.abspath(__file__)))
res = {}
import glob
for rp in sorted(glob.glob(os.path.join(VERIF, 'seeded', 'results*.json')), key=os.path.getmtime):
    for k, v in json.load(open(rp)).items():
        if k not in res:
            res[k] = v
        elif v.get('checks'):      # later runs add/replace per-check verdicts, other checks' verdicts are kept
            merged = dict(res[k].get('checks', {}))
            merged.update(v['checks'])
            res[k] = dict(v, checks=merged)
rows = ['| seed | breaks | change (needs) | caught by | missed by |', '|---|---|---|---|---|']
for sid in sorted(os.listdir(os.path.join(VERIF, 'seeded'))):
    mp = os.path.join(VERIF, 'seeded', sid, 'meta.json')
    if not os.path.exists(mp):
        continue
    m = json.load(open(mp))
    r = res.get(sid, {})
    caught = [c for c, v in r.get('checks', {}).items() if v.get('caught')]
    missed = [c for c, v in r.get('checks', {}).items() if not v.get('caught')]
    txt = (m.get('summary', '') + ' (' + str(m.get('needs', '')) + ')').replace('|', '/').replace('\n', ' ')
    if len(txt) > 330:
        txt = txt[:327] + '...'
    note = ''
    if m.get('obsolete'):
        note = ' [OBSOLETE on the final /repo: ' + str(m['obsolete'])[:160].replace('|', '/') + ' — verdicts are those recorded when it last applied]'
    elif m.get('ported'):
        note = ' [re-ported to a later /repo HEAD]'
    rows.append('| %s | %s | %s | %s | %s |' % (sid, m.get('property'), txt + note, ', '.join(caught) or ('–' if r else 'not run yet'), ', '.join(missed) or '–'))
p = os.path.join(VERIF, 'DESIGN.md')
s = open(p).read()
s = re.sub(r'(<!-- SEEDED-TABLE-BEGIN -->\n).*?(<!-- SEEDED-TABLE-END -->)', lambda mm: mm.group(1) + '\n'.join(rows) + '\n' + mm.group(2), s, flags=re.S)
open(p, 'w').write(s)
