#!/bin/bash
# Offline setup of the verification framework: regenerates the translated Coq files from /repo,
# builds the whole Coq development (full .vo), checks that nothing is admitted, builds extracted models.
set -u
cd "$(dirname "$0")/.."
mkdir -p build evidence
export PIP_NO_INDEX=1
fail=0
# forbidden constructs anywhere in the development
if grep -rnE '\b(Admitted|admit|Axiom|Parameter|Conjecture|Admit Obligations)\b|Unset Guard|bypass_check|type-in-type|impredicative-set' coq/theories coq/extraction coq/_CoqProject --include='*.v' --include=_CoqProject | grep -v '^\s*(\*' ; then
  echo "setup: forbidden construct found in the Coq development" >&2; fail=1
fi
if [ ! -d build/pydeps/numpy ]; then
  /venv/bin/pip install -q --no-index --find-links /opt/veriftools/wheels --target build/pydeps numpy >/dev/null 2>&1 || echo "setup: numpy wheel install failed (python target checks will report it)" >&2
fi
/venv/bin/python -m tools.translators.gen || echo "setup: a translator failed closed (the affected check will report it)" >&2
/venv/bin/python -c "from tools.lib import core; core._ensure_makefile()"
( cd coq && timeout 3000 make -j"$(nproc)" -k 2>&1 | tail -5 )
exit $fail
