#!/bin/bash
# Independent re-check of every property file and everything it depends on with coqchk; prints the axiom summary.
# usage: tools/coqchk_all.sh > design_notes/coqchk.txt    (takes 10-30 min)
cd "$(dirname "$0")/../coq"
date -u
echo "coqchk -silent -o -R theories Verif theories/Properties/C*.vo"
timeout 7200 coqchk -silent -o -R theories Verif theories/Properties/C*.vo 2>&1 | tail -30
date -u
