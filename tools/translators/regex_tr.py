"""Fail-closed translator from the subset of Python `re` pattern syntax that Nunavut
uses to the Coq AST of coq/theories/Common/Regex.v.

Supported: literals, escapes of punctuation, \\n \\r \\t \\f \\v, \\s \\d \\w, character classes
(ranges, negation, class escapes inside), `.` is NOT supported, groups `(...)` and `(?:...)`
(capture indices are not modelled: only whole-match spans are used by the callers we
translate), alternation, `? * + {n} {n,} {n,m}` (greedy only), `^` and `$`.
Anything else raises Unsupported.  A repetition whose body can match the empty
string is rejected (the Coq matcher requires progress per iteration).
"""
from __future__ import annotations


class Unsupported(Exception):
    pass


class _P:
    def __init__(self, s: str):
        self.s = s
        self.i = 0

    def peek(self):
        return self.s[self.i] if self.i < len(self.s) else None

    def eat(self):
        c = self.s[self.i]
        self.i += 1
        return c


# AST: ('eps',) ('cls', neg, [(lo,hi)...], space, digit, word) ('seq',a,b) ('alt',a,b) ('star',a) ('bol',) ('eol',)

def _cls(neg=False, ranges=(), space=False, digit=False, word=False):
    return ('cls', neg, list(ranges), space, digit, word)


_SIMPLE_ESC = {'n': 10, 'r': 13, 't': 9, 'f': 12, 'v': 11, '0': 0, 'a': 7}
_PUNCT = set(r".^$*+?{}[]\|()-/ #&~=!<>:;,'\"@%`_")


def _parse_escape(p: _P, in_class: bool):
    c = p.eat()
    if c in _SIMPLE_ESC:
        return ('chr', _SIMPLE_ESC[c])
    if c == 's':
        return ('named', 'space')
    if c == 'd':
        return ('named', 'digit')
    if c == 'w':
        return ('named', 'word')
    if c in _PUNCT:
        return ('chr', ord(c))
    raise Unsupported("escape \\%s" % c)


def _parse_class(p: _P):
    neg = False
    if p.peek() == '^':
        p.eat()
        neg = True
    ranges = []
    space = digit = word = False
    first = True
    while True:
        c = p.peek()
        if c is None:
            raise Unsupported("unterminated class")
        if c == ']' and not first:
            p.eat()
            break
        first = False
        if c == '[':
            raise Unsupported("nested [ in class")
        if c == '\\':
            p.eat()
            k = _parse_escape(p, True)
            if k[0] == 'named':
                space |= k[1] == 'space'
                digit |= k[1] == 'digit'
                word |= k[1] == 'word'
                continue
            lo = k[1]
        else:
            lo = ord(p.eat())
        if p.peek() == '-' and p.i + 1 < len(p.s) and p.s[p.i + 1] != ']':
            p.eat()
            c2 = p.peek()
            if c2 == '\\':
                p.eat()
                k2 = _parse_escape(p, True)
                if k2[0] != 'chr':
                    raise Unsupported("class range to named class")
                hi = k2[1]
            else:
                hi = ord(p.eat())
            if hi < lo:
                raise Unsupported("bad range")
            ranges.append((lo, hi))
        else:
            ranges.append((lo, lo))
    return _cls(neg, ranges, space, digit, word)


def _nullable(r) -> bool:
    t = r[0]
    if t in ('eps', 'bol', 'eol', 'star'):
        return True
    if t == 'cls':
        return False
    if t == 'seq':
        return _nullable(r[1]) and _nullable(r[2])
    if t == 'alt':
        return _nullable(r[1]) or _nullable(r[2])
    raise AssertionError(t)


def _seq(items):
    if not items:
        return ('eps',)
    r = items[-1]
    for x in reversed(items[:-1]):
        r = ('seq', x, r)
    return r


def _repeat(atom, lo, hi):
    # hi None = unbounded
    items = [atom] * lo
    if hi is None:
        if _nullable(atom):
            raise Unsupported("repetition of a nullable body")
        items.append(('star', atom))
    else:
        opt = ('eps',)
        for _ in range(hi - lo):
            opt = ('alt', ('seq', atom, opt), ('eps',))
        if hi > lo:
            items.append(opt)
    return _seq(items)


def _parse_atom(p: _P):
    c = p.eat()
    if c == '(':
        if p.peek() == '?':
            p.eat()
            if p.peek() != ':':
                raise Unsupported("group extension (?%s" % p.peek())
            p.eat()
        r = _parse_alt(p)
        if p.peek() != ')':
            raise Unsupported("unbalanced (")
        p.eat()
        return r
    if c == '[':
        return _parse_class(p)
    if c == '\\':
        k = _parse_escape(p, False)
        if k[0] == 'named':
            return _cls(space=k[1] == 'space', digit=k[1] == 'digit', word=k[1] == 'word')
        return _cls(ranges=[(k[1], k[1])])
    if c == '^':
        return ('bol',)
    if c == '$':
        return ('eol',)
    if c in '.*+?{':
        raise Unsupported("unsupported metacharacter %r" % c)
    return _cls(ranges=[(ord(c), ord(c))])


def _parse_seq(p: _P):
    items = []
    while p.peek() is not None and p.peek() not in '|)':
        atom = _parse_atom(p)
        q = p.peek()
        if q == '*':
            p.eat()
            atom = _repeat(atom, 0, None)
        elif q == '+':
            p.eat()
            atom = _repeat(atom, 1, None)
        elif q == '?':
            p.eat()
            atom = _repeat(atom, 0, 1)
        elif q == '{':
            j = p.s.find('}', p.i)
            if j < 0:
                raise Unsupported("unterminated {")
            body = p.s[p.i + 1:j]
            p.i = j + 1
            if ',' in body:
                a, b = body.split(',', 1)
                lo = int(a) if a.strip() else 0
                hi = int(b) if b.strip() else None
            else:
                lo = hi = int(body)
            if lo > 8 or (hi is not None and hi > 8):
                raise Unsupported("large repetition count")
            atom = _repeat(atom, lo, hi)
        if p.peek() in ('?', '+', '*') and q in ('*', '+', '?', '{'):
            raise Unsupported("lazy/possessive quantifier")
        items.append(atom)
    return _seq(items)


def _parse_alt(p: _P):
    r = _parse_seq(p)
    alts = [r]
    while p.peek() == '|':
        p.eat()
        alts.append(_parse_seq(p))
    r = alts[-1]
    for x in reversed(alts[:-1]):
        r = ('alt', x, r)
    return r


def parse(pattern: str, flags: int = 0):
    """flags: only 0 and re.MULTILINE-without-anchors are accepted by callers."""
    p = _P(pattern)
    r = _parse_alt(p)
    if p.i != len(pattern):
        raise Unsupported("trailing input at %d in %r" % (p.i, pattern))
    return r


def has_anchor(r) -> bool:
    t = r[0]
    if t in ('bol', 'eol'):
        return True
    if t in ('seq', 'alt'):
        return has_anchor(r[1]) or has_anchor(r[2])
    if t == 'star':
        return has_anchor(r[1])
    return False


def _b(x: bool) -> str:
    return 'true' if x else 'false'


def to_coq(r) -> str:
    t = r[0]
    if t == 'eps':
        return 'Eps'
    if t == 'bol':
        return 'Bol'
    if t == 'eol':
        return 'Eol'
    if t == 'cls':
        _, neg, ranges, space, digit, word = r
        rs = '; '.join('(%d, %d)' % (lo, hi) for lo, hi in ranges)
        return ('(Cls {| c_neg := %s; c_ranges := [%s]%%N; c_space := %s; c_digit := %s; c_word := %s |})'
                % (_b(neg), rs, _b(space), _b(digit), _b(word)))
    if t == 'seq':
        return '(Seq %s %s)' % (to_coq(r[1]), to_coq(r[2]))
    if t == 'alt':
        return '(Alt %s %s)' % (to_coq(r[1]), to_coq(r[2]))
    if t == 'star':
        return '(Star %s)' % to_coq(r[1])
    raise AssertionError(t)


def pattern_to_coq(pattern: str) -> str:
    return to_coq(parse(pattern))


if __name__ == '__main__':
    import sys
    for pat in sys.argv[1:]:
        print(pattern_to_coq(pat))
