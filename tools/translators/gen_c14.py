"""C14: shape pin on the Python support-library methods that Prims/PyPrims.v / PrimsExt.v model by hand.
The hand model is valid for ONE shape of each method; a change of shape (anything but comments, annotations, docstrings and
renamed locals) fails closed: Generated/Gen_Pin_c14py.v then lacks `pin_c14py_ok` and Properties/C14.v no longer builds, which
makes tools/checks/c14.py run its falsifier corpus against the implementation and report.  Pin text: pins/c14py.txt
(update at development time only:  python -m tools.translators.gen_c14 --update)."""
import sys
import typing

SUPPORT = 'src/nunavut/lang/py/support/nunavut_support.j2'
METHODS = [
    'Serializer.__init__', 'Serializer.new', 'Serializer.current_bit_length', 'Serializer.buffer', 'Serializer.skip_bits',
    'Serializer.pad_to_alignment', 'Serializer.fork_bytes', 'Serializer.add_aligned_array_of_bits', 'Serializer.add_aligned_bytes',
    'Serializer.add_aligned_u8', 'Serializer.add_aligned_u16', 'Serializer.add_aligned_u32', 'Serializer.add_aligned_u64',
    'Serializer.add_aligned_i8', 'Serializer.add_aligned_i16', 'Serializer.add_aligned_i32', 'Serializer.add_aligned_i64',
    'Serializer.add_aligned_f16', 'Serializer.add_aligned_f32', 'Serializer.add_aligned_f64',
    'Serializer.add_aligned_unsigned', 'Serializer.add_aligned_signed', 'Serializer.add_unaligned_array_of_bits',
    'Serializer.add_unaligned_bytes', 'Serializer.add_unaligned_unsigned', 'Serializer.add_unaligned_signed',
    'Serializer.add_unaligned_f16', 'Serializer.add_unaligned_f32', 'Serializer.add_unaligned_f64', 'Serializer.add_unaligned_bit',
    'Serializer._unsigned_to_bytes', 'Serializer._float_to_bytes', 'Serializer._ensure_not_negative', 'Serializer._byte_offset',
    '_LittleEndianSerializer.add_aligned_array_of_standard_bit_length_primitives',
    '_LittleEndianSerializer.add_unaligned_array_of_standard_bit_length_primitives',
    '_BigEndianSerializer.add_aligned_array_of_standard_bit_length_primitives',
    '_BigEndianSerializer.add_unaligned_array_of_standard_bit_length_primitives',
    'Deserializer.__init__', 'Deserializer.new', 'Deserializer.consumed_bit_length', 'Deserializer.remaining_bit_length',
    'Deserializer.skip_bits', 'Deserializer.pad_to_alignment', 'Deserializer.fork_bytes',
    'Deserializer.fetch_aligned_array_of_bits', 'Deserializer.fetch_aligned_bytes',
    'Deserializer.fetch_aligned_u8', 'Deserializer.fetch_aligned_u16', 'Deserializer.fetch_aligned_u32', 'Deserializer.fetch_aligned_u64',
    'Deserializer.fetch_aligned_i8', 'Deserializer.fetch_aligned_i16', 'Deserializer.fetch_aligned_i32', 'Deserializer.fetch_aligned_i64',
    'Deserializer.fetch_aligned_f16', 'Deserializer.fetch_aligned_f32', 'Deserializer.fetch_aligned_f64',
    'Deserializer.fetch_aligned_unsigned', 'Deserializer.fetch_aligned_signed', 'Deserializer.fetch_unaligned_array_of_bits',
    'Deserializer.fetch_unaligned_bytes', 'Deserializer.fetch_unaligned_unsigned', 'Deserializer.fetch_unaligned_signed',
    'Deserializer.fetch_unaligned_f16', 'Deserializer.fetch_unaligned_f32', 'Deserializer.fetch_unaligned_f64',
    'Deserializer.fetch_unaligned_bit', 'Deserializer._unsigned_from_bytes', 'Deserializer._byte_offset',
    '_LittleEndianDeserializer.fetch_aligned_array_of_standard_bit_length_primitives',
    '_LittleEndianDeserializer.fetch_unaligned_array_of_standard_bit_length_primitives',
    '_BigEndianDeserializer.fetch_aligned_array_of_standard_bit_length_primitives',
    '_BigEndianDeserializer.fetch_unaligned_array_of_standard_bit_length_primitives',
    'ZeroExtendingBuffer.__init__', 'ZeroExtendingBuffer.bit_length', 'ZeroExtendingBuffer.get_byte',
    'ZeroExtendingBuffer.get_unsigned_slice', 'ZeroExtendingBuffer.fork_bytes', '_ensure_cardinal',
]


def pin_c14py() -> typing.Tuple[bool, str]:
    from . import shape_pin
    return shape_pin.check_pin('c14py', [(SUPPORT, m) for m in METHODS])


GENERATORS = {'pin_c14py': pin_c14py}

if __name__ == '__main__':
    from . import shape_pin
    if sys.argv[1:] == ['--update']:
        sys.exit(shape_pin.main(['--update', 'c14py'] + ['%s:%s' % (SUPPORT, m) for m in METHODS]))
    print(pin_c14py())
