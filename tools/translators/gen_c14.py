"""C14: shape pin on the Python support-library methods that Prims/PyPrims.v / PrimsExt.v model by hand.
The hand model is valid for ONE shape of each method; a change of shape (anything but comments, annotations, docstrings and
renamed locals) fails closed: Generated/Gen_Pin_c14py.v then lacks `pin_c14py_ok` and Properties/C14.v no longer builds, which
makes tools/checks/c14.py run its falsifier corpus against the implementation and report.  Pin text: pins/c14py.txt
(update at development time only:  python -m tools.translators.gen_c14 --update)."""
import sys
import typing

SUPPORT = 'src/nunavut/lang/py/support/nunavut_support.j2'
METHODS = [
    'Serializer.__init__', 'Serializer.new', 'Serializer.current_bit_length', 'Serializer.buffer', 'Serializer.skip_bits',
    'Serializer.pad_to_alignment', 'Serializer.fork_bytes', 'Serializer.add_aligned_array_of_bits', 'Serializer.add_aligned_bytes',
    'Serializer.add_aligned_u8', 'Serializer.add_aligned_u16', 'Serializer.add_aligned_u32', 'Serializer.add_aligned_u64',
    'Serializer.add_aligned_i8', 'Serializer.add_aligned_i16', 'Serializer.add_aligned_i32', 'Serializer.add_aligned_i64',
    'Serializer.add_aligned_f16', 'Serializer.add_aligned_f32', 'Serializer.add_aligned_f64',
    'Serializer.add_aligned_unsigned', 'Serializer.add_aligned_signed', 'Serializer.add_unaligned_array_of_bits',
    'Serializer.add_unaligned_bytes', 'Serializer.add_unaligned_unsigned', 'Serializer.add_unaligned_signed',
    'Serializer.add_unaligned_f16', 'Serializer.add_unaligned_f32', 'Serializer.add_unaligned_f64', 'Serializer.add_unaligned_bit',
    'Serializer._unsigned_to_bytes', 'Serializer._float_to_bytes', 'Serializer._ensure_not_negative', 'Serializer._ensure_writable',
    'Serializer._byte_offset',
    '_LittleEndianSerializer.add_aligned_array_of_standard_bit_length_primitives',
    '_LittleEndianSerializer.add_unaligned_array_of_standard_bit_length_primitives',
    '_BigEndianSerializer.add_aligned_array_of_standard_bit_length_primitives',
    '_BigEndianSerializer.add_unaligned_array_of_standard_bit_length_primitives',
    'Deserializer.__init__', 'Deserializer.new', 'Deserializer.consumed_bit_length', 'Deserializer.remaining_bit_length',
    'Deserializer.skip_bits', 'Deserializer.pad_to_alignment', 'Deserializer.fork_bytes',
    'Deserializer.fetch_aligned_array_of_bits', 'Deserializer.fetch_aligned_bytes',
    'Deserializer.fetch_aligned_u8', 'Deserializer.fetch_aligned_u16', 'Deserializer.fetch_aligned_u32', 'Deserializer.fetch_aligned_u64',
    'Deserializer.fetch_aligned_i8', 'Deserializer.fetch_aligned_i16', 'Deserializer.fetch_aligned_i32', 'Deserializer.fetch_aligned_i64',
    'Deserializer.fetch_aligned_f16', 'Deserializer.fetch_aligned_f32', 'Deserializer.fetch_aligned_f64',
    'Deserializer.fetch_aligned_unsigned', 'Deserializer.fetch_aligned_signed', 'Deserializer.fetch_unaligned_array_of_bits',
    'Deserializer.fetch_unaligned_bytes', 'Deserializer.fetch_unaligned_unsigned', 'Deserializer.fetch_unaligned_signed',
    'Deserializer.fetch_unaligned_f16', 'Deserializer.fetch_unaligned_f32', 'Deserializer.fetch_unaligned_f64',
    'Deserializer.fetch_unaligned_bit', 'Deserializer._unsigned_from_bytes', 'Deserializer._byte_offset',
    '_LittleEndianDeserializer.fetch_aligned_array_of_standard_bit_length_primitives',
    '_LittleEndianDeserializer.fetch_unaligned_array_of_standard_bit_length_primitives',
    '_BigEndianDeserializer.fetch_aligned_array_of_standard_bit_length_primitives',
    '_BigEndianDeserializer.fetch_unaligned_array_of_standard_bit_length_primitives',
    'ZeroExtendingBuffer.__init__', 'ZeroExtendingBuffer.bit_length', 'ZeroExtendingBuffer.get_byte',
    'ZeroExtendingBuffer.get_unsigned_slice', 'ZeroExtendingBuffer.fork_bytes', '_ensure_cardinal',
]


CLASSES = ['Serializer', '_LittleEndianSerializer', '_BigEndianSerializer', 'Deserializer', '_LittleEndianDeserializer',
           '_BigEndianDeserializer', 'ZeroExtendingBuffer']
# the writers that call Serializer._ensure_writable since /repo f2fd316 (finding F-PY-SER-SILENT-DROP, fixed)
CAPACITY_TESTED = ['add_aligned_array_of_bits', 'add_aligned_bytes', 'add_aligned_u16', 'add_aligned_u32', 'add_aligned_u64',
                   'add_aligned_unsigned', 'add_unaligned_bytes']


def _class_skeleton(tree, cls: str) -> str:
    """bases and the ordered list of names bound in the class body: an override added to a subclass (the classes `new()` returns are
    the _LittleEndian* ones), a second definition or a class-level assignment changes this line"""
    import ast
    from . import shape_pin
    node = shape_pin._find(tree, cls)
    names = []
    for ch in node.body:
        if isinstance(ch, (ast.FunctionDef, ast.AsyncFunctionDef, ast.ClassDef)):
            names.append(ch.name)
        elif isinstance(ch, ast.Assign):
            names += ['%s=' % n.id for t in ch.targets for n in ast.walk(t) if isinstance(n, ast.Name)]
        elif isinstance(ch, (ast.AnnAssign, ast.AugAssign)) and isinstance(ch.target, ast.Name):
            names.append('%s=' % ch.target.id)
    return '## class %s(%s): %s' % (cls, ', '.join(ast.unparse(b) for b in node.bases), ' '.join(names))


def _dump() -> str:
    from . import gen, shape_pin
    tree = gen.parse_repo(SUPPORT)
    parts = [_class_skeleton(tree, c) for c in CLASSES]
    parts += ['## %s:%s\n%s' % (SUPPORT, m, shape_pin.normalized_dump(SUPPORT, m)) for m in METHODS]
    return '\n'.join(parts) + '\n'


def _capacity_test_present() -> bool:
    """regenerated fix fact (f2fd316): Serializer._ensure_writable exists, raises, and every writer of CAPACITY_TESTED calls it"""
    import ast
    from . import gen, shape_pin
    tree = gen.parse_repo(SUPPORT)
    try:
        ens = shape_pin._find(tree, 'Serializer._ensure_writable')
    except KeyError:
        return False
    if not any(isinstance(n, ast.Raise) for n in ast.walk(ens)):
        return False
    for m in CAPACITY_TESTED:
        fn = shape_pin._find(tree, 'Serializer.' + m)
        calls = [n for n in ast.walk(fn) if isinstance(n, ast.Call) and isinstance(n.func, ast.Attribute) and n.func.attr == '_ensure_writable']
        if not calls:
            return False
    return True


def _sha(text: str) -> str:
    import hashlib
    return hashlib.sha256(text.encode('utf-8')).hexdigest()[:32]


def pin_c14py() -> typing.Tuple[bool, str]:
    """ONE accepted shape: pins/c14py.txt = the text of /repo f2fd316 (with Serializer._ensure_writable).  Gen_Pin_c14py.v defines
    pin_c14py_ok only then, plus the regenerated fact pin_c14py_capacity_test_present and the hash pin_c14py_sha of the normalised
    dump, which Properties/C14.v compares with PyPrims.modelled_py_support_sha (the model file names the text it models)."""
    import os
    from . import gen, shape_pin
    out = os.path.join(gen.GEN_DIR, 'Gen_Pin_c14py.v')
    head = gen.HEADER % ('%s (%d methods of Serializer / Deserializer / ZeroExtendingBuffer + %d class skeletons)' % (SUPPORT, len(METHODS), len(CLASSES)))
    head += 'Require Import Coq.Strings.String.\n'
    try:
        cur = _dump()
        fact = _capacity_test_present()
        pinned = open(os.path.join(shape_pin.PINS, 'c14py.txt'), encoding='utf-8').read()
    except (OSError, KeyError, SyntaxError, AssertionError) as ex:
        gen.write_if_changed(out, head + '(* shape pin failed closed: %r *)\n' % (ex,))
        return False, 'shape pin c14py failed closed: %r' % (ex,)
    facts = ('Definition pin_c14py_capacity_test_present : bool := %s.\nDefinition pin_c14py_sha : string := "%s"%%string.\n'
             % ('true' if fact else 'false', _sha(cur)))
    if cur == pinned:
        gen.write_if_changed(out, head + 'Definition pin_c14py_ok : bool := true.\n' + facts)
        return True, 'ok (sha %s, capacity test %s)' % (_sha(cur), 'present' if fact else 'ABSENT')
    gen.write_if_changed(out, head + '(* shape of the pinned methods changed: the hand model is no longer known to describe the code *)\n' + facts)
    return False, 'shape pin c14py: the code does not have the shape the hand model was written for (sha %s, capacity test %s)' % (
        _sha(cur), 'present' if fact else 'ABSENT')


# ---------------------------------------------------------------------------------------------------------------------
# C and C++ support headers: token-stream pin of every function of the RENDERED serialization.h / serialization.hpp, per Jinja branch.
# The hand models Prims/CPrims.v, CPrimsW.v, F16.v (C) and CppPrims.v, PrimsExt.v (C++) describe ONE token stream of each function; any
# other stream (comments and white space apart) fails closed: Generated/Gen_Pin_c14c.v then lacks `pin_c14c_ok` and Properties/C14.v
# no longer builds.  Pin text: pins/c14c.txt (development time only:  python -m tools.translators.gen_c14 --update-c).
# ---------------------------------------------------------------------------------------------------------------------
C_HEADER = 'nunavut/support/serialization.h'
CPP_HEADER = 'nunavut/support/serialization.hpp'


def c_variants() -> typing.List[typing.Tuple[str, str, typing.List[str]]]:
    """(variant name, header, nnvg arguments): the Jinja branches of the two templates are options.target_endianness
    (little | any/big), options.enable_serialization_asserts, options.omit_float_serialization_support; the C++ standard / flavour
    (plain, pmr, cetl) is rendered too although no branch of cpp/support/serialization.j2 tests it (the pin shows the streams equal)."""
    out = []
    for e in ('any', 'little', 'big'):
        for a in (False, True):
            for f in (False, True):
                out.append(('c/%s/%s/%s' % (e, 'asserts' if a else 'noasserts', 'omitfloat' if f else 'float'), C_HEADER,
                            ['--target-language', 'c', '--target-endianness', e] + (['--enable-serialization-asserts'] if a else []) +
                            (['--omit-float-serialization-support'] if f else [])))
    cpp = ['--target-language', 'cpp', '--experimental-languages']
    for e in ('any', 'little'):
        for a in (False, True):
            for f in (False, True):
                out.append(('cpp/c++14/%s/%s/%s' % (e, 'asserts' if a else 'noasserts', 'omitfloat' if f else 'float'), CPP_HEADER,
                            cpp + ['--language-standard', 'c++14', '--target-endianness', e] + (['--enable-serialization-asserts'] if a else []) +
                            (['--omit-float-serialization-support'] if f else [])))
    out.append(('cpp/c++14/big/noasserts/float', CPP_HEADER, cpp + ['--language-standard', 'c++14', '--target-endianness', 'big']))
    for std in ('c++17', 'c++17-pmr', 'cetl++14-17', 'c++20'):
        out.append(('cpp/%s/any/noasserts/float' % std, CPP_HEADER, cpp + ['--language-standard', std]))
    return out


import re as _re
_COMMENT = _re.compile(r'("(?:\\.|[^"\\\n])*"|\'(?:\\.|[^\'\\\n])*\')|/\*.*?\*/|//[^\n]*', _re.S)
_TOKEN = _re.compile(r'"(?:\\.|[^"\\])*"|\'(?:\\.|[^\'\\])*\'|[A-Za-z_]\w*|\.?\d(?:[eEpP][+-]|[\w.])*|'
                     r'->\*?|\+\+|--|<<=|>>=|<=|>=|==|!=|&&|\|\||[-+*/%&|^]=|<<|>>|::|\.\.\.|##|\S')
_IDENT = _re.compile(r'[A-Za-z_]\w*$')


def c_tokens(text: str) -> typing.Tuple[typing.List[str], typing.List[bool]]:
    """comments and white space removed, line continuations joined; tokens of a preprocessor line are flagged and the line is closed
    by a '\n' token (a directive ends at the end of its line, so the line structure of directives is part of the stream)"""
    text = _COMMENT.sub(lambda m: m.group(1) or ' ', text.replace('\\\n', ' '))
    toks: typing.List[str] = []
    pp: typing.List[bool] = []
    for line in text.split('\n'):
        t = _TOKEN.findall(line)
        if not t:
            continue
        d = t[0] == '#'
        toks += t + (['\n'] if d else [])
        pp += [d] * (len(t) + (1 if d else 0))
    return toks, pp


def c_functions(text: str) -> typing.List[typing.Tuple[str, typing.List[str]]]:
    """[(qualified name, tokens from the first token of the declaration to the closing brace)] for every function DEFINITION, followed
    by ('<file scope>', every remaining token): the whole file is covered, so no edit of a token escapes the pin."""
    toks, pp = c_tokens(text)
    n = len(toks)

    def prev(i: int) -> int:
        i -= 1
        while i >= 0 and pp[i]:
            i -= 1
        return i

    def back(i: int) -> int:   # index of the bracket that opens the one closed at i
        close, opn = toks[i], {')': '(', '}': '{', ']': '['}[toks[i]]
        d = 0
        while i >= 0:
            if not pp[i]:
                d += toks[i] == close
                d -= toks[i] == opn
                if d == 0:
                    return i
            i -= 1
        raise AssertionError('unbalanced brackets in a support header')

    def fwd(i: int) -> int:
        d = 0
        while i < n:
            if not pp[i]:
                d += toks[i] == '{'
                d -= toks[i] == '}'
                if d == 0:
                    return i
            i += 1
        raise AssertionError('unbalanced braces in a support header')

    def function_name(i: int) -> typing.Optional[int]:
        """i: index of '{'.  Index of the name token if this brace opens a function body."""
        k = prev(i)
        while k >= 0 and toks[k] in ('const', 'noexcept', 'override', 'final'):
            k = prev(k)
        if k < 0 or toks[k] != ')':
            return None
        m = prev(back(k))
        while m >= 0 and toks[prev(m)] in (',', ':') and _IDENT.match(toks[m]) and toks[prev(prev(m))] in (')', '}'):
            # constructor initialiser list  name(args) : a_(x), b_{y} {   -- walk back to the constructor itself
            sep = toks[prev(m)]
            k = prev(prev(m))
            m = prev(back(k))
            if sep == ':':
                break
        if m < 0 or toks[m] in ('if', 'for', 'while', 'switch', 'catch', 'static_assert', 'sizeof', 'alignof', 'decltype'):
            return None
        return m

    segs: typing.List[typing.Tuple[str, typing.List[str]]] = []
    rest: typing.List[int] = []
    scopes: typing.List[str] = []
    i = 0
    while i < n:
        t = toks[i]
        if pp[i] or t not in '{}':
            rest.append(i)
            i += 1
            continue
        if t == '}':
            assert scopes, 'unbalanced braces in a support header'
            scopes.pop()
            rest.append(i)
            i += 1
            continue
        m = function_name(i)
        if m is None:
            k, name = prev(i), ''
            while k >= 0 and toks[k] not in (';', '{', '}'):
                if toks[k] in ('namespace', 'class', 'struct', 'union', 'enum') and _IDENT.match(toks[k + 1]) and toks[k + 1] != 'class':
                    name = toks[k + 1]
                k = prev(k)
            scopes.append(name)
            rest.append(i)
            i += 1
            continue
        name = toks[m] if _IDENT.match(toks[m]) and toks[m - 1] != 'operator' else 'operator' + ''.join(toks[m - (toks[m - 1] != 'operator'):m + 1]).replace('operator', '')
        s = m
        while True:
            k = prev(s)
            if k < 0 or toks[k] in (';', '{', '}') or (toks[k] == ':' and toks[prev(k)] in ('public', 'private', 'protected')):
                break
            s = k
        j = fwd(i)
        while rest and rest[-1] >= s:
            rest.pop()
        segs.append(('::'.join([x for x in scopes if x] + [name]), toks[s:j + 1]))
        i = j + 1
    assert not scopes, 'unbalanced braces in a support header'
    segs.append(('<file scope>', [toks[k] for k in rest]))
    return segs


def _render_header(job: typing.Tuple[str, str, typing.List[str]]) -> typing.Tuple[str, typing.Optional[str], str]:
    import os
    import shutil
    import subprocess
    import tempfile
    from . import gen
    name, header, args = job
    out = tempfile.mkdtemp(prefix='c14pin-')
    try:
        env = dict(os.environ, PYTHONPATH=os.path.join(gen.REPO, 'src'))
        p = subprocess.run([sys.executable, '-m', 'nunavut', '--generate-support', 'only', '--outdir', out] + args, env=env, stdout=subprocess.PIPE,
                           stderr=subprocess.STDOUT, text=True, timeout=120)
        f = os.path.join(out, header)
        if p.returncode != 0 or not os.path.exists(f):
            return name, None, 'nnvg failed for %s: %s' % (name, p.stdout[-400:])
        return name, open(f, encoding='utf-8').read(), ''
    finally:
        shutil.rmtree(out, ignore_errors=True)


def _render_all() -> typing.List[typing.Tuple[str, typing.List[typing.Tuple[str, typing.List[str]]]]]:
    """[(variant, [(qualified function name (overloads numbered), tokens)])]"""
    import concurrent.futures
    out = []
    with concurrent.futures.ThreadPoolExecutor(max_workers=8) as ex:
        for name, text, err in ex.map(_render_header, c_variants()):
            if text is None:
                raise AssertionError(err)
            seen: typing.Dict[str, int] = {}
            fns = []
            for fn, toks in c_functions(text):
                seen[fn] = seen.get(fn, 0) + 1
                fns.append((fn if seen[fn] == 1 else '%s#%d' % (fn, seen[fn]), toks))
            out.append((name, fns))
    return out


def _dump_c(rendered=None) -> str:
    import hashlib
    lines = []
    for name, fns in (rendered if rendered is not None else _render_all()):
        for q, toks in fns:
            lines.append('%s | %s | %d | %s' % (name, q, len(toks), hashlib.sha256('\x1f'.join(toks).encode()).hexdigest()[:24]))
    return '\n'.join(lines) + '\n'


def _has(toks: typing.List[str], needle: str) -> bool:
    n = needle.split(' ')
    return any(toks[i:i + len(n)] == n for i in range(len(toks) - len(n) + 1))


def _facts_c(rendered) -> typing.Dict[str, bool]:
    """regenerated fix facts, each required of EVERY rendering:
       setuxx_saturating_check (/repo ba46e0a, F-SETUXX-OFFSET-WRAP): SetUxx / setUxx test `len_bits > (capacity_bits - off)` and never add
         the offset to the length;
       bitspan_pad_wide (/repo fcc36ca, F-BITSPAN-PAD-TRUNC): no static_cast<uint8_t> in padAndMoveToAlignment;
       bitspan_subspan_saturating (fcc36ca, F-BITSPAN-SUBSPAN-WRAP): subspan(bits_at, size_bits) detects the wrapped sum and tests
         `new_offset_bits > (size_available_bits - size_bits)`."""
    sat = pad = sub = True
    for name, fns in rendered:
        d = dict(fns)
        if name.startswith('c/'):
            t = d['nunavutSetUxx']
            sat &= _has(t, 'len_bits > ( capacity_bits - off_bits )') and not _has(t, 'off_bits + len_bits')
        else:
            t = d['nunavut::support::setUxx']
            sat &= _has(t, 'len_bits > ( capacity_bits - offset_bits_ )') and not _has(t, 'offset_bits_ + len_bits')
            pad &= not _has(d['nunavut::support::padAndMoveToAlignment'], 'static_cast < uint8_t >')
            t = d['nunavut::support::subspan']
            sub &= _has(t, 'offset_bits < bits_at') and _has(t, 'new_offset_bits > ( size_available_bits - size_bits )')
    return {'setuxx_saturating_check': sat, 'bitspan_pad_wide': pad, 'bitspan_subspan_saturating': sub}


C_PINS = ['c14c']     # ONE accepted shape; a pending fix may add a second file here until it has landed


def pin_c14c() -> typing.Tuple[bool, str]:
    """Gen_Pin_c14c.v: pin_c14c_ok (the streams equal one of C_PINS), the regenerated fix facts, and the hashes of the C and of the C++
    part of the dump, which Properties/C14.v compares with CPrims.modelled_c_header_sha and CppPrims.modelled_cpp_header_sha
    ."""
    import os
    from . import gen, shape_pin
    out = os.path.join(gen.GEN_DIR, 'Gen_Pin_c14c.v')
    head = gen.HEADER % ('the rendered %s and %s (%d option combinations; one token-stream hash per function)' % (C_HEADER, CPP_HEADER, len(c_variants())))
    head += 'Require Import Coq.Strings.String.\n'
    try:
        rendered = _render_all()
        cur = _dump_c(rendered)
        facts = _facts_c(rendered)
        pins = {}
        for tag in C_PINS:
            f = os.path.join(shape_pin.PINS, tag + '.txt')
            if os.path.exists(f):
                pins[tag] = open(f, encoding='utf-8').read()
    except (OSError, AssertionError, KeyError, IndexError) as ex:
        gen.write_if_changed(out, head + '(* token pin failed closed: %r *)\n' % (ex,))
        return False, 'token pin c14c failed closed: %r' % (ex,)
    sha_c = _sha(''.join(l + '\n' for l in cur.splitlines() if l.startswith('c/')))
    sha_cpp = _sha(''.join(l + '\n' for l in cur.splitlines() if l.startswith('cpp/')))
    defs = ''.join('Definition pin_c14c_%s_present : bool := %s.\n' % (k, 'true' if v else 'false') for k, v in sorted(facts.items()))
    defs += 'Definition pin_c14c_sha_c : string := "%s"%%string.\nDefinition pin_c14c_sha_cpp : string := "%s"%%string.\n' % (sha_c, sha_cpp)
    for tag, text in pins.items():
        if cur == text:
            n = len(cur.splitlines())
            gen.write_if_changed(out, head + 'Definition pin_c14c_ok : bool := true.\nDefinition pin_c14c_entries : nat := %d.\n' % n + defs)
            return True, 'ok (%s: %d function streams in %d renderings; sha c %s, cpp %s; facts %r)' % (tag, n, len(c_variants()), sha_c, sha_cpp, facts)
    ref = pins.get('c14c', '')
    a, b = set(ref.splitlines()), set(cur.splitlines())
    changed = sorted({' | '.join(l.split(' | ')[:2]) for l in a ^ b})
    gen.write_if_changed(out, head + '(* a function of a support header no longer has the token stream the hand model was written for *)\n' + defs)
    return False, 'token pin c14c: %d function stream(s) differ from pins/c14c.txt, e.g. %s' % (len(changed), '; '.join(changed[:4]))


GENERATORS = {'pin_c14py': pin_c14py, 'pin_c14c': pin_c14c}


if __name__ == '__main__':
    import os
    from . import shape_pin
    if sys.argv[1:2] == ['--update-c']:
        tag = sys.argv[2] if len(sys.argv) > 2 else 'c14c'
        with open(os.path.join(shape_pin.PINS, tag + '.txt'), 'w', encoding='utf-8') as f:
            f.write(_dump_c())
        print('pinned', tag)
        sys.exit(0)
    if sys.argv[1:2] == ['--update']:
        tag = sys.argv[2] if len(sys.argv) > 2 else 'c14py'
        with open(os.path.join(shape_pin.PINS, tag + '.txt'), 'w', encoding='utf-8') as f:
            f.write(_dump())
        print('pinned', tag)
        sys.exit(0)
    print(pin_c14py())
    print(pin_c14c())
