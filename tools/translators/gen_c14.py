"""C14: shape pin on the Python support-library methods that Prims/PyPrims.v / PrimsExt.v model by hand.
The hand model is valid for ONE shape of each method; a change of shape (anything but comments, annotations, docstrings and
renamed locals) fails closed: Generated/Gen_Pin_c14py.v then lacks `pin_c14py_ok` and Properties/C14.v no longer builds, which
makes tools/checks/c14.py run its falsifier corpus against the implementation and report.  Pin text: pins/c14py.txt
(update at development time only:  python -m tools.translators.gen_c14 --update)."""
import sys
import typing

SUPPORT = 'src/nunavut/lang/py/support/nunavut_support.j2'
METHODS = [
    'Serializer.__init__', 'Serializer.new', 'Serializer.current_bit_length', 'Serializer.buffer', 'Serializer.skip_bits',
    'Serializer.pad_to_alignment', 'Serializer.fork_bytes', 'Serializer.add_aligned_array_of_bits', 'Serializer.add_aligned_bytes',
    'Serializer.add_aligned_u8', 'Serializer.add_aligned_u16', 'Serializer.add_aligned_u32', 'Serializer.add_aligned_u64',
    'Serializer.add_aligned_i8', 'Serializer.add_aligned_i16', 'Serializer.add_aligned_i32', 'Serializer.add_aligned_i64',
    'Serializer.add_aligned_f16', 'Serializer.add_aligned_f32', 'Serializer.add_aligned_f64',
    'Serializer.add_aligned_unsigned', 'Serializer.add_aligned_signed', 'Serializer.add_unaligned_array_of_bits',
    'Serializer.add_unaligned_bytes', 'Serializer.add_unaligned_unsigned', 'Serializer.add_unaligned_signed',
    'Serializer.add_unaligned_f16', 'Serializer.add_unaligned_f32', 'Serializer.add_unaligned_f64', 'Serializer.add_unaligned_bit',
    'Serializer._unsigned_to_bytes', 'Serializer._float_to_bytes', 'Serializer._ensure_not_negative', 'Serializer._byte_offset',
    '_LittleEndianSerializer.add_aligned_array_of_standard_bit_length_primitives',
    '_LittleEndianSerializer.add_unaligned_array_of_standard_bit_length_primitives',
    '_BigEndianSerializer.add_aligned_array_of_standard_bit_length_primitives',
    '_BigEndianSerializer.add_unaligned_array_of_standard_bit_length_primitives',
    'Deserializer.__init__', 'Deserializer.new', 'Deserializer.consumed_bit_length', 'Deserializer.remaining_bit_length',
    'Deserializer.skip_bits', 'Deserializer.pad_to_alignment', 'Deserializer.fork_bytes',
    'Deserializer.fetch_aligned_array_of_bits', 'Deserializer.fetch_aligned_bytes',
    'Deserializer.fetch_aligned_u8', 'Deserializer.fetch_aligned_u16', 'Deserializer.fetch_aligned_u32', 'Deserializer.fetch_aligned_u64',
    'Deserializer.fetch_aligned_i8', 'Deserializer.fetch_aligned_i16', 'Deserializer.fetch_aligned_i32', 'Deserializer.fetch_aligned_i64',
    'Deserializer.fetch_aligned_f16', 'Deserializer.fetch_aligned_f32', 'Deserializer.fetch_aligned_f64',
    'Deserializer.fetch_aligned_unsigned', 'Deserializer.fetch_aligned_signed', 'Deserializer.fetch_unaligned_array_of_bits',
    'Deserializer.fetch_unaligned_bytes', 'Deserializer.fetch_unaligned_unsigned', 'Deserializer.fetch_unaligned_signed',
    'Deserializer.fetch_unaligned_f16', 'Deserializer.fetch_unaligned_f32', 'Deserializer.fetch_unaligned_f64',
    'Deserializer.fetch_unaligned_bit', 'Deserializer._unsigned_from_bytes', 'Deserializer._byte_offset',
    '_LittleEndianDeserializer.fetch_aligned_array_of_standard_bit_length_primitives',
    '_LittleEndianDeserializer.fetch_unaligned_array_of_standard_bit_length_primitives',
    '_BigEndianDeserializer.fetch_aligned_array_of_standard_bit_length_primitives',
    '_BigEndianDeserializer.fetch_unaligned_array_of_standard_bit_length_primitives',
    'ZeroExtendingBuffer.__init__', 'ZeroExtendingBuffer.bit_length', 'ZeroExtendingBuffer.get_byte',
    'ZeroExtendingBuffer.get_unsigned_slice', 'ZeroExtendingBuffer.fork_bytes', '_ensure_cardinal',
]


EXTRA_PATCHED = ['Serializer._ensure_writable']   # exists only with design_notes/C14_py_too_small_fix.patch applied


def _dump() -> str:
    from . import shape_pin
    parts = ['## %s:%s\n%s' % (SUPPORT, m, shape_pin.normalized_dump(SUPPORT, m)) for m in METHODS]
    for m in EXTRA_PATCHED:
        try:
            parts.append('## %s:%s\n%s' % (SUPPORT, m, shape_pin.normalized_dump(SUPPORT, m)))
        except KeyError:
            pass
    return '\n'.join(parts) + '\n'


def pin_c14py() -> typing.Tuple[bool, str]:
    """two accepted shapes: pins/c14py.txt (text without the capacity test: finding F-PY-SER-SILENT-DROP) and pins/c14py_patched.txt
    (with design_notes/C14_py_too_small_fix.patch).  Gen_Pin_c14py.v defines pin_c14py_ok and says which one was seen."""
    import os
    from . import gen, shape_pin
    out = os.path.join(gen.GEN_DIR, 'Gen_Pin_c14py.v')
    head = gen.HEADER % ('%s (%d methods of Serializer / Deserializer / ZeroExtendingBuffer)' % (SUPPORT, len(METHODS)))
    try:
        cur = _dump()
        shapes = {}
        for tag in ('c14py', 'c14py_patched'):
            f = os.path.join(shape_pin.PINS, tag + '.txt')
            if os.path.exists(f):
                shapes[tag] = open(f, encoding='utf-8').read()
    except (OSError, KeyError, SyntaxError, AssertionError) as ex:
        gen.write_if_changed(out, head + '(* shape pin failed closed: %r *)\n' % (ex,))
        return False, 'shape pin c14py failed closed: %r' % (ex,)
    for tag, text in shapes.items():
        if cur == text:
            gen.write_if_changed(out, head + 'Definition pin_c14py_ok : bool := true.\n'
                                 'Definition pin_c14py_capacity_test_present : bool := %s.\n' % ('true' if tag == 'c14py_patched' else 'false'))
            return True, 'ok (%s)' % tag
    gen.write_if_changed(out, head + '(* shape of the pinned methods changed: the hand model is no longer known to describe the code *)\n')
    return False, 'shape pin c14py: the code has neither of the shapes the hand models were written for'


GENERATORS = {'pin_c14py': pin_c14py}

if __name__ == '__main__':
    import os
    from . import shape_pin
    if sys.argv[1:2] == ['--update']:
        tag = sys.argv[2] if len(sys.argv) > 2 else 'c14py'
        with open(os.path.join(shape_pin.PINS, tag + '.txt'), 'w', encoding='utf-8') as f:
            f.write(_dump())
        print('pinned', tag)
        sys.exit(0)
    print(pin_c14py())
