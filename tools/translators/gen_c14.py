"""C14: shape pin on the Python support-library methods that Prims/PyPrims.v / PrimsExt.v model by hand.
The hand model is valid for ONE shape of each method; a change of shape (anything but comments, annotations, docstrings and
renamed locals) fails closed: Generated/Gen_Pin_c14py.v then lacks `pin_c14py_ok` and Properties/C14.v no longer builds, which
makes tools/checks/c14.py run its falsifier corpus against the implementation and report.  Pin text: pins/c14py.txt
(update at development time only:  python -m tools.translators.gen_c14 --update)."""
import sys
import typing

SUPPORT = 'src/nunavut/lang/py/support/nunavut_support.j2'
METHODS = [
    'Serializer.__init__', 'Serializer.new', 'Serializer.current_bit_length', 'Serializer.buffer', 'Serializer.skip_bits',
    'Serializer.pad_to_alignment', 'Serializer.fork_bytes', 'Serializer.add_aligned_array_of_bits', 'Serializer.add_aligned_bytes',
    'Serializer.add_aligned_u8', 'Serializer.add_aligned_u16', 'Serializer.add_aligned_u32', 'Serializer.add_aligned_u64',
    'Serializer.add_aligned_i8', 'Serializer.add_aligned_i16', 'Serializer.add_aligned_i32', 'Serializer.add_aligned_i64',
    'Serializer.add_aligned_f16', 'Serializer.add_aligned_f32', 'Serializer.add_aligned_f64',
    'Serializer.add_aligned_unsigned', 'Serializer.add_aligned_signed', 'Serializer.add_unaligned_array_of_bits',
    'Serializer.add_unaligned_bytes', 'Serializer.add_unaligned_unsigned', 'Serializer.add_unaligned_signed',
    'Serializer.add_unaligned_f16', 'Serializer.add_unaligned_f32', 'Serializer.add_unaligned_f64', 'Serializer.add_unaligned_bit',
    'Serializer._unsigned_to_bytes', 'Serializer._float_to_bytes', 'Serializer._ensure_not_negative', 'Serializer._byte_offset',
    '_LittleEndianSerializer.add_aligned_array_of_standard_bit_length_primitives',
    '_LittleEndianSerializer.add_unaligned_array_of_standard_bit_length_primitives',
    '_BigEndianSerializer.add_aligned_array_of_standard_bit_length_primitives',
    '_BigEndianSerializer.add_unaligned_array_of_standard_bit_length_primitives',
    'Deserializer.__init__', 'Deserializer.new', 'Deserializer.consumed_bit_length', 'Deserializer.remaining_bit_length',
    'Deserializer.skip_bits', 'Deserializer.pad_to_alignment', 'Deserializer.fork_bytes',
    'Deserializer.fetch_aligned_array_of_bits', 'Deserializer.fetch_aligned_bytes',
    'Deserializer.fetch_aligned_u8', 'Deserializer.fetch_aligned_u16', 'Deserializer.fetch_aligned_u32', 'Deserializer.fetch_aligned_u64',
    'Deserializer.fetch_aligned_i8', 'Deserializer.fetch_aligned_i16', 'Deserializer.fetch_aligned_i32', 'Deserializer.fetch_aligned_i64',
    'Deserializer.fetch_aligned_f16', 'Deserializer.fetch_aligned_f32', 'Deserializer.fetch_aligned_f64',
    'Deserializer.fetch_aligned_unsigned', 'Deserializer.fetch_aligned_signed', 'Deserializer.fetch_unaligned_array_of_bits',
    'Deserializer.fetch_unaligned_bytes', 'Deserializer.fetch_unaligned_unsigned', 'Deserializer.fetch_unaligned_signed',
    'Deserializer.fetch_unaligned_f16', 'Deserializer.fetch_unaligned_f32', 'Deserializer.fetch_unaligned_f64',
    'Deserializer.fetch_unaligned_bit', 'Deserializer._unsigned_from_bytes', 'Deserializer._byte_offset',
    '_LittleEndianDeserializer.fetch_aligned_array_of_standard_bit_length_primitives',
    '_LittleEndianDeserializer.fetch_unaligned_array_of_standard_bit_length_primitives',
    '_BigEndianDeserializer.fetch_aligned_array_of_standard_bit_length_primitives',
    '_BigEndianDeserializer.fetch_unaligned_array_of_standard_bit_length_primitives',
    'ZeroExtendingBuffer.__init__', 'ZeroExtendingBuffer.bit_length', 'ZeroExtendingBuffer.get_byte',
    'ZeroExtendingBuffer.get_unsigned_slice', 'ZeroExtendingBuffer.fork_bytes', '_ensure_cardinal',
]


EXTRA_PATCHED = ['Serializer._ensure_writable']   # exists only with design_notes/C14_py_too_small_fix.patch applied


def _dump() -> str:
    from . import shape_pin
    parts = ['## %s:%s\n%s' % (SUPPORT, m, shape_pin.normalized_dump(SUPPORT, m)) for m in METHODS]
    for m in EXTRA_PATCHED:
        try:
            parts.append('## %s:%s\n%s' % (SUPPORT, m, shape_pin.normalized_dump(SUPPORT, m)))
        except KeyError:
            pass
    return '\n'.join(parts) + '\n'


def pin_c14py() -> typing.Tuple[bool, str]:
    """two accepted shapes: pins/c14py.txt (text without the capacity test: finding F-PY-SER-SILENT-DROP) and pins/c14py_patched.txt
    (with design_notes/C14_py_too_small_fix.patch).  Gen_Pin_c14py.v defines pin_c14py_ok and says which one was seen."""
    import os
    from . import gen, shape_pin
    out = os.path.join(gen.GEN_DIR, 'Gen_Pin_c14py.v')
    head = gen.HEADER % ('%s (%d methods of Serializer / Deserializer / ZeroExtendingBuffer)' % (SUPPORT, len(METHODS)))
    try:
        cur = _dump()
        shapes = {}
        for tag in ('c14py', 'c14py_patched'):
            f = os.path.join(shape_pin.PINS, tag + '.txt')
            if os.path.exists(f):
                shapes[tag] = open(f, encoding='utf-8').read()
    except (OSError, KeyError, SyntaxError, AssertionError) as ex:
        gen.write_if_changed(out, head + '(* shape pin failed closed: %r *)\n' % (ex,))
        return False, 'shape pin c14py failed closed: %r' % (ex,)
    for tag, text in shapes.items():
        if cur == text:
            gen.write_if_changed(out, head + 'Definition pin_c14py_ok : bool := true.\n'
                                 'Definition pin_c14py_capacity_test_present : bool := %s.\n' % ('true' if tag == 'c14py_patched' else 'false'))
            return True, 'ok (%s)' % tag
    gen.write_if_changed(out, head + '(* shape of the pinned methods changed: the hand model is no longer known to describe the code *)\n')
    return False, 'shape pin c14py: the code has neither of the shapes the hand models were written for'


# ---------------------------------------------------------------------------------------------------------------------
# C and C++ support headers: token-stream pin of every function of the RENDERED serialization.h / serialization.hpp, per Jinja branch.
# The hand models Prims/CPrims.v, CPrimsW.v, F16.v (C) and CppPrims.v, PrimsExt.v (C++) describe ONE token stream of each function; any
# other stream (comments and white space apart) fails closed: Generated/Gen_Pin_c14c.v then lacks `pin_c14c_ok` and Properties/C14.v
# no longer builds.  Pin text: pins/c14c.txt (development time only:  python -m tools.translators.gen_c14 --update-c).
# ---------------------------------------------------------------------------------------------------------------------
C_HEADER = 'nunavut/support/serialization.h'
CPP_HEADER = 'nunavut/support/serialization.hpp'


def c_variants() -> typing.List[typing.Tuple[str, str, typing.List[str]]]:
    """(variant name, header, nnvg arguments): the Jinja branches of the two templates are options.target_endianness
    (little | any/big), options.enable_serialization_asserts, options.omit_float_serialization_support; the C++ standard / flavour
    (plain, pmr, cetl) is rendered too although no branch of cpp/support/serialization.j2 tests it (the pin shows the streams equal)."""
    out = []
    for e in ('any', 'little', 'big'):
        for a in (False, True):
            for f in (False, True):
                out.append(('c/%s/%s/%s' % (e, 'asserts' if a else 'noasserts', 'omitfloat' if f else 'float'), C_HEADER,
                            ['--target-language', 'c', '--target-endianness', e] + (['--enable-serialization-asserts'] if a else []) +
                            (['--omit-float-serialization-support'] if f else [])))
    cpp = ['--target-language', 'cpp', '--experimental-languages']
    for e in ('any', 'little'):
        for a in (False, True):
            for f in (False, True):
                out.append(('cpp/c++14/%s/%s/%s' % (e, 'asserts' if a else 'noasserts', 'omitfloat' if f else 'float'), CPP_HEADER,
                            cpp + ['--language-standard', 'c++14', '--target-endianness', e] + (['--enable-serialization-asserts'] if a else []) +
                            (['--omit-float-serialization-support'] if f else [])))
    out.append(('cpp/c++14/big/noasserts/float', CPP_HEADER, cpp + ['--language-standard', 'c++14', '--target-endianness', 'big']))
    for std in ('c++17', 'c++17-pmr', 'cetl++14-17', 'c++20'):
        out.append(('cpp/%s/any/noasserts/float' % std, CPP_HEADER, cpp + ['--language-standard', std]))
    return out


import re as _re
_COMMENT = _re.compile(r'("(?:\\.|[^"\\\n])*"|\'(?:\\.|[^\'\\\n])*\')|/\*.*?\*/|//[^\n]*', _re.S)
_TOKEN = _re.compile(r'"(?:\\.|[^"\\])*"|\'(?:\\.|[^\'\\])*\'|[A-Za-z_]\w*|\.?\d(?:[eEpP][+-]|[\w.])*|'
                     r'->\*?|\+\+|--|<<=|>>=|<=|>=|==|!=|&&|\|\||[-+*/%&|^]=|<<|>>|::|\.\.\.|##|\S')
_IDENT = _re.compile(r'[A-Za-z_]\w*$')


def c_tokens(text: str) -> typing.Tuple[typing.List[str], typing.List[bool]]:
    """comments and white space removed, line continuations joined; tokens of a preprocessor line are flagged and the line is closed
    by a '\n' token (a directive ends at the end of its line, so the line structure of directives is part of the stream)"""
    text = _COMMENT.sub(lambda m: m.group(1) or ' ', text.replace('\\\n', ' '))
    toks: typing.List[str] = []
    pp: typing.List[bool] = []
    for line in text.split('\n'):
        t = _TOKEN.findall(line)
        if not t:
            continue
        d = t[0] == '#'
        toks += t + (['\n'] if d else [])
        pp += [d] * (len(t) + (1 if d else 0))
    return toks, pp


def c_functions(text: str) -> typing.List[typing.Tuple[str, typing.List[str]]]:
    """[(qualified name, tokens from the first token of the declaration to the closing brace)] for every function DEFINITION, followed
    by ('<file scope>', every remaining token): the whole file is covered, so no edit of a token escapes the pin."""
    toks, pp = c_tokens(text)
    n = len(toks)

    def prev(i: int) -> int:
        i -= 1
        while i >= 0 and pp[i]:
            i -= 1
        return i

    def back(i: int) -> int:   # index of the bracket that opens the one closed at i
        close, opn = toks[i], {')': '(', '}': '{', ']': '['}[toks[i]]
        d = 0
        while i >= 0:
            if not pp[i]:
                d += toks[i] == close
                d -= toks[i] == opn
                if d == 0:
                    return i
            i -= 1
        raise AssertionError('unbalanced brackets in a support header')

    def fwd(i: int) -> int:
        d = 0
        while i < n:
            if not pp[i]:
                d += toks[i] == '{'
                d -= toks[i] == '}'
                if d == 0:
                    return i
            i += 1
        raise AssertionError('unbalanced braces in a support header')

    def function_name(i: int) -> typing.Optional[int]:
        """i: index of '{'.  Index of the name token if this brace opens a function body."""
        k = prev(i)
        while k >= 0 and toks[k] in ('const', 'noexcept', 'override', 'final'):
            k = prev(k)
        if k < 0 or toks[k] != ')':
            return None
        m = prev(back(k))
        while m >= 0 and toks[prev(m)] in (',', ':') and _IDENT.match(toks[m]) and toks[prev(prev(m))] in (')', '}'):
            # constructor initialiser list  name(args) : a_(x), b_{y} {   -- walk back to the constructor itself
            sep = toks[prev(m)]
            k = prev(prev(m))
            m = prev(back(k))
            if sep == ':':
                break
        if m < 0 or toks[m] in ('if', 'for', 'while', 'switch', 'catch', 'static_assert', 'sizeof', 'alignof', 'decltype'):
            return None
        return m

    segs: typing.List[typing.Tuple[str, typing.List[str]]] = []
    rest: typing.List[int] = []
    scopes: typing.List[str] = []
    i = 0
    while i < n:
        t = toks[i]
        if pp[i] or t not in '{}':
            rest.append(i)
            i += 1
            continue
        if t == '}':
            assert scopes, 'unbalanced braces in a support header'
            scopes.pop()
            rest.append(i)
            i += 1
            continue
        m = function_name(i)
        if m is None:
            k, name = prev(i), ''
            while k >= 0 and toks[k] not in (';', '{', '}'):
                if toks[k] in ('namespace', 'class', 'struct', 'union', 'enum') and _IDENT.match(toks[k + 1]) and toks[k + 1] != 'class':
                    name = toks[k + 1]
                k = prev(k)
            scopes.append(name)
            rest.append(i)
            i += 1
            continue
        name = toks[m] if _IDENT.match(toks[m]) and toks[m - 1] != 'operator' else 'operator' + ''.join(toks[m - (toks[m - 1] != 'operator'):m + 1]).replace('operator', '')
        s = m
        while True:
            k = prev(s)
            if k < 0 or toks[k] in (';', '{', '}') or (toks[k] == ':' and toks[prev(k)] in ('public', 'private', 'protected')):
                break
            s = k
        j = fwd(i)
        while rest and rest[-1] >= s:
            rest.pop()
        segs.append(('::'.join([x for x in scopes if x] + [name]), toks[s:j + 1]))
        i = j + 1
    assert not scopes, 'unbalanced braces in a support header'
    segs.append(('<file scope>', [toks[k] for k in rest]))
    return segs


def _render_header(job: typing.Tuple[str, str, typing.List[str]]) -> typing.Tuple[str, typing.Optional[str], str]:
    import os
    import shutil
    import subprocess
    import tempfile
    from . import gen
    name, header, args = job
    out = tempfile.mkdtemp(prefix='c14pin-')
    try:
        env = dict(os.environ, PYTHONPATH=os.path.join(gen.REPO, 'src'))
        p = subprocess.run([sys.executable, '-m', 'nunavut', '--generate-support', 'only', '--outdir', out] + args, env=env, stdout=subprocess.PIPE,
                           stderr=subprocess.STDOUT, text=True, timeout=120)
        f = os.path.join(out, header)
        if p.returncode != 0 or not os.path.exists(f):
            return name, None, 'nnvg failed for %s: %s' % (name, p.stdout[-400:])
        return name, open(f, encoding='utf-8').read(), ''
    finally:
        shutil.rmtree(out, ignore_errors=True)


def _dump_c() -> str:
    import concurrent.futures
    import hashlib
    lines = []
    with concurrent.futures.ThreadPoolExecutor(max_workers=8) as ex:
        for name, text, err in ex.map(_render_header, c_variants()):
            if text is None:
                raise AssertionError(err)
            seen: typing.Dict[str, int] = {}
            for fn, toks in c_functions(text):
                seen[fn] = seen.get(fn, 0) + 1
                q = fn if seen[fn] == 1 else '%s#%d' % (fn, seen[fn])
                lines.append('%s | %s | %d | %s' % (name, q, len(toks), hashlib.sha256('\x1f'.join(toks).encode()).hexdigest()[:24]))
    return '\n'.join(lines) + '\n'


def pin_c14c() -> typing.Tuple[bool, str]:
    import os
    from . import gen, shape_pin
    out = os.path.join(gen.GEN_DIR, 'Gen_Pin_c14c.v')
    head = gen.HEADER % ('the rendered %s and %s (%d option combinations; one token-stream hash per function)' % (C_HEADER, CPP_HEADER, len(c_variants())))
    try:
        cur = _dump_c()
        pinned = open(os.path.join(shape_pin.PINS, 'c14c.txt'), encoding='utf-8').read()
    except (OSError, AssertionError, KeyError, IndexError) as ex:
        gen.write_if_changed(out, head + '(* token pin failed closed: %r *)\n' % (ex,))
        return False, 'token pin c14c failed closed: %r' % (ex,)
    if cur == pinned:
        n = len(cur.splitlines())
        gen.write_if_changed(out, head + 'Definition pin_c14c_ok : bool := true.\nDefinition pin_c14c_entries : nat := %d.\n' % n)
        return True, 'ok (%d function streams in %d renderings)' % (n, len(c_variants()))
    a, b = set(pinned.splitlines()), set(cur.splitlines())
    changed = sorted({' | '.join(l.split(' | ')[:2]) for l in a ^ b})
    gen.write_if_changed(out, head + '(* a function of a support header no longer has the token stream the hand model was written for *)\n')
    return False, 'token pin c14c: %d function stream(s) differ from pins/c14c.txt, e.g. %s' % (len(changed), '; '.join(changed[:4]))


GENERATORS = {'pin_c14py': pin_c14py, 'pin_c14c': pin_c14c}


if __name__ == '__main__':
    import os
    from . import shape_pin
    if sys.argv[1:2] == ['--update-c']:
        with open(os.path.join(shape_pin.PINS, 'c14c.txt'), 'w', encoding='utf-8') as f:
            f.write(_dump_c())
        print('pinned c14c')
        sys.exit(0)
    if sys.argv[1:2] == ['--update']:
        tag = sys.argv[2] if len(sys.argv) > 2 else 'c14py'
        with open(os.path.join(shape_pin.PINS, tag + '.txt'), 'w', encoding='utf-8') as f:
            f.write(_dump())
        print('pinned', tag)
        sys.exit(0)
    print(pin_c14py())
    print(pin_c14c())
