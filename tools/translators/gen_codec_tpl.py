"""Source tie for the codec TEMPLATE BODIES (C01/C02): a fail-closed scanner of the macro structure of

    src/nunavut/lang/{c,cpp,py}/templates/{serialization,deserialization}.j2

-> coq/theories/Generated/Gen_CodecTpl.v  (generator name `codec_tpl`).

Per target and direction it emits, as Coq DATA (types in coq/theories/Codec/TplTieBase.v):
  * `<tgt>_<dir>_dispatch` : the ordered dispatch table of `_serialize_any` / `_deserialize_any`
        [(type test, [branch macros called] )]
  * `<tgt>_<dir>_macros`   : every macro as a decision tree
        NIf [(condition, body)...] else-body    Jinja-level (static) decisions; conditions are parsed into and/or/not over atoms
        NFor header body                        Jinja-level loops (fields, union variants)
        NSet name expr                          template variables that carry meaning (element offsets, `ref_value = reference`)
        NJAssert condition                      template-time assertions
        NAct kind payload                       one emitted target-language statement, classified
              guard / else / loop / return(raise) / cursor update / store / call of a support primitive / declaration /
              block open / block close / preprocessor / static_assert / runtime assert / nested macro call
Normalisation (so that harmless edits leave the output byte-identical): Jinja comments `{# #}`, target comments (`//`, `#`),
blank lines, indentation and runs of blanks, whitespace-control dashes, the `|trim|indent|remove_blank_lines` filters on macro
calls, and the NAMES of unique-name temporaries (`{% set ref_x = 'err'|to_template_unique_name %}` -> `<err>` wherever
`ref_x` is used).  Everything else is kept verbatim inside the payload strings.

Fail closed: an unknown `{% %}` statement, text outside a macro, an emitted line no classifier recognises, an unterminated
statement at a block boundary, a non-ASCII character in kept text, or a dispatch branch without a macro call / inline action
makes the generator return (False, reason) and write a stub => Codec/TplTie.v no longer builds => C01/C02 report a broken
obligation and run their falsifier.

`python -m tools.translators.gen_codec_tpl --emit-expected` rewrites coq/theories/Codec/TplTieData.v (the hand-owned
`walker_table` side, reviewed against Codec/Walker.v) from the current tree; it is NOT run by any check."""
from __future__ import annotations

import os
import re
import sys
import typing

from . import gen

OUT = os.path.join(gen.GEN_DIR, 'Gen_CodecTpl.v')
EXPECTED = os.path.join(gen.VERIF, 'coq', 'theories', 'Codec', 'TplTieData.v')
TARGETS = [('c', 'c'), ('cpp', 'cpp'), ('py', 'py')]
DIRS = [('ser', 'serialization.j2', '_serialize_any'), ('des', 'deserialization.j2', '_deserialize_any')]
FILTERS_DROPPED = ('trim', 'indent', 'remove_blank_lines')


class Unsupported(Exception):
    pass


# option-conditional branches appear as ONE static condition atom per option
OPT_OVERRIDE = 'opt_override_capacity'
ATOM_ALIASES = {'options.enable_override_variable_array_capacity': OPT_OVERRIDE}


# ------------------------------------------------------------------------------------------------
# tokenizer
# ------------------------------------------------------------------------------------------------

def strip_jinja_comments(src: str) -> str:
    out, i = [], 0
    while True:
        j = src.find('{#', i)
        if j < 0:
            out.append(src[i:])
            break
        k = src.find('#}', j)
        if k < 0:
            raise Unsupported('unterminated {# comment')
        chunk = src[i:j]
        if src[j + 2:j + 3] == '-':
            chunk = chunk.rstrip()
        out.append(chunk)
        i = k + 2
        if src[k - 1:k] == '-':
            while i < len(src) and src[i] in ' \t\r\n':
                i += 1
    return ''.join(out)


TOKEN_RE = re.compile(r'\{%-?\s*(.*?)\s*-?%\}', re.S)


def tokenize(src: str) -> typing.List[typing.Tuple[str, str]]:
    """[('text', s) | ('stmt', s)]"""
    src = strip_jinja_comments(src)
    # whitespace inside {{ }} is irrelevant (expressions may span lines)
    src = re.sub(r'\{\{-?(.*?)-?\}\}', lambda m: '{{ ' + ' '.join(m.group(1).split()) + ' }}', src, flags=re.S)
    toks, pos = [], 0
    for m in TOKEN_RE.finditer(src):
        if m.start() > pos:
            toks.append(('text', src[pos:m.start()]))
        toks.append(('stmt', ' '.join(m.group(1).split())))
        pos = m.end()
    if pos < len(src):
        toks.append(('text', src[pos:]))
    return toks


# ------------------------------------------------------------------------------------------------
# conditions
# ------------------------------------------------------------------------------------------------

def _split_top(s: str, word: str) -> typing.List[str]:
    parts, depth, cur, i = [], 0, '', 0
    pat = ' ' + word + ' '
    inq = ''
    while i < len(s):
        ch = s[i]
        if inq:
            cur += ch
            if ch == inq:
                inq = ''
            i += 1
            continue
        if ch in '\'"':
            inq = ch
        if ch in '([{':
            depth += 1
        elif ch in ')]}':
            depth -= 1
        if depth == 0 and s.startswith(pat, i):
            parts.append(cur)
            cur = ''
            i += len(pat)
            continue
        cur += ch
        i += 1
    parts.append(cur)
    return [p.strip() for p in parts]


def _outer_parens(s: str) -> bool:
    if not (s.startswith('(') and s.endswith(')')):
        return False
    depth = 0
    for i, ch in enumerate(s):
        if ch == '(':
            depth += 1
        elif ch == ')':
            depth -= 1
            if depth == 0 and i != len(s) - 1:
                return False
    return True


def parse_cond(s: str):
    s = ' '.join(s.split())
    while _outer_parens(s):
        s = s[1:-1].strip()
    ors = _split_top(s, 'or')
    if len(ors) > 1:
        r = parse_cond(ors[0])
        for p in ors[1:]:
            r = ('or', r, parse_cond(p))
        return r
    ands = _split_top(s, 'and')
    if len(ands) > 1:
        r = parse_cond(ands[0])
        for p in ands[1:]:
            r = ('and', r, parse_cond(p))
        return r
    if s.startswith('not ') and not s.startswith('not in'):
        return ('not', parse_cond(s[4:]))
    if not s:
        raise Unsupported('empty condition')
    return ('atom', ATOM_ALIASES.get(s, s))


# ------------------------------------------------------------------------------------------------
# emitted-line classification
# ------------------------------------------------------------------------------------------------

def _balanced(s: str) -> bool:
    depth, inq, esc = 0, '', False
    for ch in s:
        if inq:
            if esc:
                esc = False
            elif ch == '\\':
                esc = True
            elif ch == inq:
                inq = ''
            continue
        if ch in '\'"':
            inq = ch
        elif ch in '([':
            depth += 1
        elif ch in ')]':
            depth -= 1
    return depth == 0 and not inq


def _closes_only(s: str) -> bool:
    return bool(s) and all(ch in ')]} ' for ch in s)


def _strip_line_comment(line: str, marker: str) -> str:
    inq, esc, i = '', False, 0
    while i < len(line):
        ch = line[i]
        if not inq and line.startswith('{{', i):       # Jinja expressions (`{{ t.extent // 8 }}`) are not target text
            j = line.find('}}', i)
            if j < 0:
                return line
            i = j + 2
            continue
        if inq:
            if esc:
                esc = False
            elif ch == '\\':
                esc = True
            elif ch == inq:
                inq = ''
        elif ch in '\'"':
            inq = ch
        elif line.startswith(marker, i) and (marker != '#' or i == 0 or line[i - 1] in ' \t'):
            # `#` inside {{ }} never occurs after comment stripping; C preprocessor lines are handled by the caller
            return line[:i]
        i += 1
    return line


MACRO_CALL_RE = re.compile(r'^\{\{ (_?[A-Za-z_][A-Za-z0-9_]*) ?\((.*)\)((?: ?\| ?[a-z_]+(?:\([^)]*\))?)*) \}\}$')
ASSERT_MACRO_RE = re.compile(r'^\{\{ assert\((.*)\) \}\}$')


def classify_c(line: str) -> typing.Tuple[str, str]:
    s = line
    m = ASSERT_MACRO_RE.match(s)
    if m:
        return 'KRAssert', m.group(1)
    m = MACRO_CALL_RE.match(s)
    if m:
        filters = [f.strip() for f in m.group(3).split('|') if f.strip()]
        keep = [f for f in filters if f.split('(')[0] not in FILTERS_DROPPED]
        return 'KMacro', m.group(1) + '(' + m.group(2).strip() + ')' + ''.join('|' + f for f in keep)
    # expression fragments: the body of a macro / block set that yields a value rather than statements
    if re.match(r'^\{\{ [^}]* \}\}$', s) or (s.startswith('(') and s.endswith(')') and _balanced(s) and _outer_parens(s)):
        return 'KExpr', s
    if s == '{':
        return 'KOpen', ''
    if s == '}':
        return 'KClose', ''
    # brace styles `}else{`, `if(x){`, `} else if (y) {`: classified by the header between the braces, payload kept verbatim
    core = s
    if core.startswith('}') and len(core) > 1:
        core = core[1:].strip()
    if core.endswith('{') and len(core) > 1:
        core = core[:-1].strip()
    if core != s:
        if core == 'else' or re.match(r'^else if ?\(', core):
            return 'KElse', s
        if re.match(r'^if ?\(', core):
            return 'KGuard', s
        if re.match(r'^(for|while) ?\(', core):
            return 'KLoop', s
    if s.startswith('#'):
        return 'KPre', s
    if s.startswith('static_assert'):
        return 'KSAssert', s
    if re.match(r'^(\{\{ [^}]* \}\} )?(else if|if) ?\(', s) and not s.endswith(';'):
        return ('KElse' if 'else if' in s.split('(')[0] else 'KGuard'), s
    if s == 'else':
        return 'KElse', s
    if re.match(r"^\{\{ 'if' if [^}]* \}\} ?\(", s) and not s.endswith(';'):
        return 'KGuard', s
    if re.match(r'^(for|while) ?\(', s) and not s.endswith(';'):
        return 'KLoop', s
    if re.match(r'^return\b', s) and s.endswith(';'):
        return 'KReturn', s
    if re.match(r'^offset_bits ?(\+=|-=|=)[^=]', s) and s.endswith(';'):
        return 'KCursor', s
    if s.endswith(';'):
        body = s[:-1]
        # top-level assignment?
        depth, inq = 0, ''
        for i, ch in enumerate(body):
            if inq:
                if ch == inq:
                    inq = ''
                continue
            if ch in '\'"':
                inq = ch
            elif ch in '([{':
                depth += 1
            elif ch in ')]}':
                depth -= 1
            elif ch == '=' and depth == 0 and body[i + 1:i + 2] != '=' and body[i - 1:i] not in '=!<>':
                # a call on the right-hand side is the interesting part (support primitive, nested routine); Jinja
                # expressions (filters with arguments) are not calls of the emitted code
                rhs = re.sub(r'\{\{.*?\}\}', 'J', body[i + 1:])
                return ('KCall' if re.search(r'[A-Za-z_]\w* ?\(', rhs) else 'KStore'), s
        if '(' in re.sub(r'\{\{.*?\}\}', 'J', body):
            return 'KCall', s
        return 'KDecl', s
    raise Unsupported('unclassified C/C++ line: %r' % line)


def classify_py(line: str, depth: int) -> typing.Tuple[str, str]:
    s = line
    pre = '%d:' % depth
    m = MACRO_CALL_RE.match(s)
    if m:
        filters = [f.strip() for f in m.group(3).split('|') if f.strip()]
        keep = [f for f in filters if f.split('(')[0] not in FILTERS_DROPPED]
        return 'KMacro', pre + m.group(1) + '(' + m.group(2).strip() + ')' + ''.join('|' + f for f in keep)
    if re.match(r'^assert\b', s):
        return 'KRAssert', pre + s
    if re.match(r'^(\{\{ [^}]* \}\} |if |elif )', s) and s.endswith(':'):
        return ('KElse' if s.startswith('elif') else 'KGuard'), pre + s
    if s == 'else:':
        return 'KElse', pre + s
    if re.match(r'^(for|while) ', s) and s.endswith(':'):
        return 'KLoop', pre + s
    if re.match(r'^(raise|return)\b', s):
        return 'KReturn', pre + s
    if re.match(r'^del ', s):
        return 'KDecl', pre + s
    if _closes_only(s):
        return 'KClose', pre + s
    if s.startswith('{{ ') and s.endswith(' }}') and s.count('{{') == 1:
        return 'KMacro', pre + s[3:-3]
    # assignment / call
    depthp, inq = 0, ''
    for i, ch in enumerate(s):
        if inq:
            if ch == inq:
                inq = ''
            continue
        if ch in '\'"':
            inq = ch
        elif ch in '([{':
            depthp += 1
        elif ch in ')]}':
            depthp -= 1
        elif ch == '=' and depthp == 0 and s[i + 1:i + 2] != '=' and s[i - 1:i] not in '=!<>':
            return ('KCall' if '(' in s[i + 1:] else 'KStore'), pre + s
    if '(' in s:
        return 'KCall', pre + s
    raise Unsupported('unclassified Python line: %r' % line)


# ------------------------------------------------------------------------------------------------
# parser
# ------------------------------------------------------------------------------------------------

class Parser:
    def __init__(self, toks, lang: str, where: str, raw: bool = False):
        self.toks, self.pos, self.lang, self.where, self.raw = toks, 0, lang, where, raw
        self.tmp: typing.Dict[str, str] = {}

    def fail(self, msg: str):
        raise Unsupported('%s: %s' % (self.where, msg))

    def subst_tmp(self, s: str) -> str:
        for name, canon in self.tmp.items():
            s = re.sub(r'(?<![A-Za-z0-9_.])%s(?![A-Za-z0-9_])' % re.escape(name), canon, s)
        return s

    def text_nodes(self, text: str, pending: typing.List[str]) -> typing.List[tuple]:
        """split raw text into classified statements; `pending` carries an unterminated statement across calls"""
        out = []
        if self.raw:
            # declaration templates: every emitted line verbatim (comments / whitespace normalised), no statement classification
            for raw in text.split('\n'):
                line = raw
                if self.lang == 'py':
                    line = '' if raw.lstrip().startswith('#') else _strip_line_comment(raw, '#')
                else:       # also on preprocessor lines (`#include <x> // why`)
                    line = _strip_line_comment(raw, '//')
                line = self.subst_tmp(' '.join(line.split()))
                if not line:
                    continue
                if not line.isascii():
                    self.fail('non-ASCII text in emitted line %r' % line)
                out.append(('act', 'KRaw', line))
            return out
        for raw in text.split('\n'):
            indent = len(raw) - len(raw.lstrip(' '))
            if self.lang == 'py':
                line = '' if raw.lstrip().startswith('#') else _strip_line_comment(raw, '#')
            else:
                line = raw if raw.lstrip().startswith('#') else _strip_line_comment(raw, '//')
            line = ' '.join(line.split())
            if not line:
                continue
            if pending:
                pending[0] = pending[0] + ' ' + line
            else:
                pending.append(line)
                pending.append(indent)
            cur = pending[0]
            done = _balanced(cur) or (self.lang == 'py' and _closes_only(cur))
            if done and self.lang != 'py':
                done = (cur.endswith((';', '{', '}', '}}', ')')) or cur.startswith('#') or cur == 'else')
                # a `{{ type }} {{ name }} = value` declaration split over chunks still ends with ';'
            if done and self.lang == 'py' and cur.endswith('\\'):
                done = False
            if done:
                ind = pending[1]
                del pending[:]
                cur = self.subst_tmp(cur)
                if not cur.isascii():
                    self.fail('non-ASCII text in emitted line %r' % cur)
                k, payload = classify_c(cur) if self.lang != 'py' else classify_py(cur, ind // 4)
                out.append(('act', k, payload))
        return out

    def parse_block(self, terminators: typing.Tuple[str, ...]) -> typing.Tuple[typing.List[tuple], str]:
        nodes: typing.List[tuple] = []
        pending: typing.List[typing.Any] = []
        while self.pos < len(self.toks):
            kind, s = self.toks[self.pos]
            if kind == 'text':
                self.pos += 1
                nodes += self.text_nodes(s, pending)
                continue
            head = s.split(' ', 1)[0]
            if head in terminators or (head == 'else' and 'else' in terminators):
                if pending:
                    # an emitted statement continues across a template statement: only allowed for pure inline decisions
                    self.fail('emitted statement %r is cut by {%% %s %%}' % (pending[0], s))
                return nodes, s
            self.pos += 1
            if pending and head not in ('set',):
                self.fail('emitted statement %r is cut by {%% %s %%}' % (pending[0], s))
            if head == 'if':
                branches = []
                cond = parse_cond(self.subst_tmp(s[3:]))
                while True:
                    body, term = self.parse_block(('elif', 'else', 'endif'))
                    self.pos += 1
                    branches.append((cond, body))
                    if term.startswith('elif'):
                        cond = parse_cond(self.subst_tmp(term[5:]))
                        continue
                    els = []
                    if term == 'else':
                        els, term2 = self.parse_block(('endif',))
                        self.pos += 1
                    nodes.append(('if', branches, els))
                    break
            elif head == 'for':
                body, term = self.parse_block(('else', 'endfor'))
                self.pos += 1
                nodes.append(('for', self.subst_tmp(s[4:]), body))
                if term == 'else':      # Jinja for-else: emitted when the sequence is empty
                    els, _ = self.parse_block(('endfor',))
                    self.pos += 1
                    nodes.append(('if', [(('atom', '<empty> ' + self.subst_tmp(s[4:])), els)], []))
            elif head == 'set':
                rest = s[4:]
                if '=' in rest:
                    name, expr = [x.strip() for x in rest.split('=', 1)]
                    m = re.match(r"^'([A-Za-z_]+)' ?\| ?to_template_unique_name$", expr)
                    if m:
                        self.tmp[name] = '<%s>' % m.group(1)
                    else:
                        nodes.append(('set', name, self.subst_tmp(' '.join(expr.split()))))
                else:
                    # block set: the body is an expression fragment kept verbatim (whitespace-normalised); no control flow allowed
                    frag = []
                    while self.pos < len(self.toks) and self.toks[self.pos] != ('stmt', 'endset'):
                        k2, s2 = self.toks[self.pos]
                        if k2 != 'text':
                            self.fail('block {%% set %s %%} with control flow inside' % rest)
                        frag.append(s2)
                        self.pos += 1
                    if self.pos >= len(self.toks):
                        self.fail('missing {% endset %}')
                    self.pos += 1
                    text = self.subst_tmp(' '.join(' '.join(frag).split()))
                    if not text.isascii():
                        self.fail('non-ASCII text in block set')
                    nodes.append(('set', rest.strip(), text))
            elif head == 'assert':
                nodes.append(('jassert', parse_cond(self.subst_tmp(s[7:]))))
            elif head == 'do':
                nodes.append(('set', 'do', self.subst_tmp(s[3:])))
            elif self.raw and head in ('macro', 'ifuses', 'ifnuses', 'filter', 'call', 'block'):
                # generic paired blocks of the declaration templates: kept as a one-branch decision on the opening statement
                end = 'end' + head
                body, term = self.parse_block(('else', end) if head in ('ifuses', 'ifnuses') else (end,))
                self.pos += 1
                els = []
                if term == 'else':
                    els, _ = self.parse_block((end,))
                    self.pos += 1
                nodes.append(('if', [(('atom', '<%s> %s' % (head, self.subst_tmp(s[len(head):].strip()))), body)], els))
            elif self.raw and head in ('from', 'import', 'include', 'extends'):
                nodes.append(('set', head, self.subst_tmp(s[len(head):].strip())))
            else:
                self.fail('unsupported template statement {%% %s %%}' % s)
        if terminators:
            self.fail('missing {%% %s %%}' % '/'.join(terminators))
        return nodes, ''


def parse_template(src: str, lang: str, where: str) -> typing.List[typing.Tuple[str, str, list]]:
    toks = tokenize(src)
    macros = []
    i = 0
    while i < len(toks):
        kind, s = toks[i]
        if kind == 'text':
            if s.strip():
                raise Unsupported('%s: text outside a macro: %r' % (where, s.strip()[:60]))
            i += 1
            continue
        head = s.split(' ', 1)[0]
        if head == 'from' or head == 'import':
            i += 1
            continue
        if head != 'macro':
            raise Unsupported('%s: top-level {%% %s %%}' % (where, s))
        m = re.match(r'^macro ([A-Za-z_][A-Za-z0-9_]*) ?\((.*)\)$', s)
        if not m:
            raise Unsupported('%s: macro header %r' % (where, s))
        p = Parser(toks, lang, '%s:%s' % (where, m.group(1)))
        p.pos = i + 1
        body, _ = p.parse_block(('endmacro',))
        macros.append((m.group(1), ' '.join(m.group(2).split()), body))
        i = p.pos + 1
    return macros


def parse_raw_file(src: str, lang: str, where: str) -> list:
    """declaration templates (type definitions): the whole file as one decision tree over verbatim lines"""
    p = Parser(tokenize(src), lang, where, raw=True)
    body, _ = p.parse_block(())
    return body


def dispatch_table(macros, any_name: str, where: str):
    body = next((b for n, _, b in macros if n == any_name), None)
    if body is None:
        raise Unsupported('%s: macro %s not found' % (where, any_name))
    ifs = [n for n in body if n[0] == 'if' and len(n[1]) >= 5 and all(c[0] == 'atom' and ' is ' in c[1] and c[1].endswith('Type') for c, _ in n[1])]
    if len(ifs) != 1:
        raise Unsupported('%s: %s does not contain exactly one type dispatch (found %d)' % (where, any_name, len(ifs)))
    table = []
    for cond, br in ifs[0][1]:
        if cond[0] != 'atom':
            raise Unsupported('%s: compound dispatch test' % where)

        def calls(nodes):
            out = []
            for n in nodes:
                if n[0] == 'act' and n[1] == 'KMacro':
                    out.append(re.sub(r'^\d+:', '', n[2]).split('(')[0].strip())
                elif n[0] == 'act' and n[1] in ('KCall', 'KCursor', 'KStore'):
                    out.append('inline')
                elif n[0] == 'if':
                    for _, b in n[1]:
                        out += calls(b)
                    out += calls(n[2])
                elif n[0] == 'for':
                    out += calls(n[2])
            return out
        cs = []
        for c in calls(br):
            if c not in cs:
                cs.append(c)
        if not cs:
            raise Unsupported('%s: dispatch branch %r emits nothing' % (where, cond[1]))
        table.append((cond[1], cs))
    els = ifs[0][2]
    if len(els) == 1 and els[0] == ('jassert', ('atom', 'False')):
        table.append(('<else>', ['assert False']))
    elif not els:
        table.append(('<else>', ['nothing']))
    else:
        raise Unsupported('%s: the dispatch has an else branch that emits something' % where)
    return table


# ------------------------------------------------------------------------------------------------
# projection on the default option set (opt_override_capacity = false): what Walker.v models
# ------------------------------------------------------------------------------------------------

def _mentions(c, atom: str) -> bool:
    return c[1] == atom if c[0] == 'atom' else any(_mentions(x, atom) for x in c[1:])


def _peval(c, atom: str):
    """Kleene evaluation with `atom` = False, every other atom unknown"""
    if c[0] == 'atom':
        return False if c[1] == atom else None
    if c[0] == 'not':
        v = _peval(c[1], atom)
        return None if v is None else (not v)
    a, b = _peval(c[1], atom), _peval(c[2], atom)
    if c[0] == 'and':
        return False if (a is False or b is False) else (True if (a and b) else None)
    return True if (a is True or b is True) else (False if (a is False and b is False) else None)


def project_nodes(nodes, atom: str, drop_calls: typing.Set[str], inline: typing.Dict[str, typing.Tuple[str, str]], where: str):
    out = []
    for n in nodes:
        if n[0] == 'if':
            kept, els = [], n[2]
            taken = None
            for c, b in n[1]:
                v = _peval(c, atom) if _mentions(c, atom) else None
                if _mentions(c, atom) and v is None:
                    raise Unsupported('%s: condition mixes %s in a way the default projection cannot decide' % (where, atom))
                if v is False:
                    continue
                if v is True:
                    taken = b
                    break
                kept.append((c, project_nodes(b, atom, drop_calls, inline, where)))
            if taken is not None:
                els = taken
            els_p = project_nodes(els, atom, drop_calls, inline, where)
            if kept:
                out.append(('if', kept, els_p))
            else:
                out += els_p
        elif n[0] == 'for':
            out.append(('for', n[1], project_nodes(n[2], atom, drop_calls, inline, where)))
        elif n[0] == 'act':
            if n[1] == 'KMacro' and n[2].split('(')[0] in drop_calls:
                continue
            payload = n[2]
            for name, (params, expr) in inline.items():
                payload = payload.replace('{{ %s(%s) }}' % (name, params), expr)
                if '{{ %s(' % name in payload:
                    raise Unsupported('%s: call of %s with arguments other than its parameter names' % (where, name))
            out.append((n[0], n[1], payload))
        else:
            out.append(n)
    return out


def project_default(macros, where: str):
    """macro table under opt_override_capacity = false: macros that then emit nothing are dropped together with their calls,
    macros that reduce to one expression are inlined at their call sites (only when called with their own parameter names)"""
    first = [(n, a, project_nodes(b, OPT_OVERRIDE, set(), {}, where)) for n, a, b in macros]
    drop = {n for n, a, b in first if not b}
    inline = {n: (a, b[0][2]) for n, a, b in first if len(b) == 1 and b[0][0] == 'act' and b[0][1] == 'KExpr'}
    return [(n, a, project_nodes(b, OPT_OVERRIDE, drop, inline, where)) for n, a, b in macros if n not in drop and n not in inline]


# ------------------------------------------------------------------------------------------------
# Coq output
# ------------------------------------------------------------------------------------------------

def q(s: str) -> str:
    if not s.isascii():
        raise Unsupported('non-ASCII string %r' % s)
    return '"' + s.replace('"', '""') + '"'


def coq_cond(c) -> str:
    if c[0] == 'atom':
        return '(CAtom %s)' % q(c[1])
    if c[0] == 'not':
        return '(CNot %s)' % coq_cond(c[1])
    return '(%s %s %s)' % ('CAnd' if c[0] == 'and' else 'COr', coq_cond(c[1]), coq_cond(c[2]))


def coq_nodes(nodes, ind: int) -> str:
    pad = ' ' * ind
    if not nodes:
        return '[]'
    items = []
    for n in nodes:
        if n[0] == 'act':
            items.append('NAct %s %s' % (n[1], q(n[2])))
        elif n[0] == 'set':
            items.append('NSet %s %s' % (q(n[1]), q(n[2])))
        elif n[0] == 'jassert':
            items.append('NJAssert %s' % coq_cond(n[1]))
        elif n[0] == 'for':
            items.append('NFor %s\n%s  %s' % (q(n[1]), pad, coq_nodes(n[2], ind + 2)))
        elif n[0] == 'if':
            brs = ';\n'.join('%s   (%s,\n%s    %s)' % (pad, coq_cond(c), pad, coq_nodes(b, ind + 4)) for c, b in n[1])
            items.append('NIf [\n%s]\n%s  %s' % (brs, pad, coq_nodes(n[2], ind + 2)))
        else:
            raise Unsupported('internal: node %r' % (n[0],))
    return '[' + (';\n' + pad + ' ').join(items) + ']'


def render(prefix: str, base_import: bool = True) -> typing.Tuple[str, typing.List[str]]:
    parts = []
    msgs = []
    for tgt, d in TARGETS:
        for dname, fname, anyname in DIRS:
            rel = 'src/nunavut/lang/%s/templates/%s' % (d, fname)
            macros = parse_template(gen.read_repo(rel), tgt, rel)
            table = dispatch_table(macros, anyname, rel)
            parts.append('Definition %s%s_%s_dispatch : list (string * list string) :=\n  [%s].\n' % (
                prefix, tgt, dname, ';\n   '.join('(%s, [%s])' % (q(c), '; '.join(q(x) for x in ms)) for c, ms in table)))
            parts.append('Definition %s%s_%s_macros : list (string * string * list tnode) :=\n  [%s].\n' % (
                prefix, tgt, dname, ';\n\n   '.join('(%s, %s,\n    %s)' % (q(n), q(a), coq_nodes(b, 4)) for n, a, b in macros)))
            if tgt == 'c':
                dflt = project_default(macros, rel)
                parts.append('Definition %s%s_%s_macros_default : list (string * string * list tnode) :=\n  [%s].\n' % (
                    prefix, tgt, dname, ';\n\n   '.join('(%s, %s,\n    %s)' % (q(n), q(a), coq_nodes(b, 4)) for n, a, b in dflt)))
            msgs.append('%s/%s: %d macros, %d dispatch entries' % (tgt, dname, len(macros), len(table)))
    for tgt, files in DECL_FILES:
        for fname in files:
            rel = 'src/nunavut/lang/%s/templates/%s' % (tgt, fname)
            body = parse_raw_file(gen.read_repo(rel), tgt, rel)
            ident = '%s%s_decl_%s' % (prefix, tgt, re.sub(r'[^A-Za-z0-9]', '_', fname[:-3]).strip('_'))
            parts.append('Definition %s : list tnode :=\n  %s.\n' % (ident, coq_nodes(body, 2)))
            msgs.append('%s/%s: %d nodes' % (tgt, fname, len(body)))
    return '\n'.join(parts), msgs


# the templates that DECLARE the generated data types (storage type per primitive, array member shapes, the dummy member of
# field-less structures, the union tag member): C01's storage proviso and C04's object model rest on them
DECL_FILES = [('c', ['definitions.j2', 'base.j2']),
              ('cpp', ['base.j2', '_composite_type.j2', '_fields.j2', '_fields_as_union.j2', '_fields_as_variant.j2']),
              ('py', ['base.j2'])]

IMPORTS = 'From Coq Require Import List String.\nFrom Verif Require Import TplTieBase.\nImport ListNotations.\nLocal Open Scope string_scope.\n\n'


def gen_codec_tpl() -> typing.Tuple[bool, str]:
    head = gen.HEADER % 'src/nunavut/lang/{c,cpp,py}/templates/{serialization,deserialization}.j2'
    try:
        body, msgs = render('gen_')
    except (Unsupported, OSError, RecursionError) as ex:
        gen.write_if_changed(OUT, head + '(* FAILED CLOSED: %s *)\n' % str(ex).replace('*)', '* )'))
        return False, 'codec template scanner failed closed: %s' % ex
    gen.write_if_changed(OUT, head + IMPORTS + body)
    return True, 'ok (' + '; '.join(msgs) + ')'


def emit_expected() -> int:
    body, msgs = render('walker_')
    text = ('(* The decision structure of the code-shaped walker (Codec/Walker.v) and of the support-call sequences it abstracts,\n'
            '   written in the vocabulary of TplTieBase.v, per target and direction.  HAND-OWNED: this file is the reviewed\n'
            '   counterpart of what tools/translators/gen_codec_tpl.py regenerates from the templates on every run\n'
            '   (Generated/Gen_CodecTpl.v); Codec/TplTie.v proves the two equal, so any edit of a template branch breaks an\n'
            '   obligation of C01/C02.  Refresh deliberately with\n'
            '   `python -m tools.translators.gen_codec_tpl --emit-expected` after reviewing a template change against Walker.v.\n'
            '   REVIEW CRITERION for option-only template fixes (e.g. 2e84c7a, enable_override_variable_array_capacity): the\n'
            '   `walker_c_*_macros_default` tables (= the projection on opt_override_capacity = false, which is what Walker.v\n'
            '   models; guard / storage-capacity helper macros dropped or inlined) must stay byte-identical to the previously\n'
            '   reviewed tables, i.e. the full tables may differ from them ONLY under the static atom `opt_override_capacity`;\n'
            '   the C++ / Python tables must not change at all.  `--review` checks exactly this against `git show HEAD:`. *)\n'
            + IMPORTS + body)
    gen.write_if_changed(EXPECTED, text)
    print('\n'.join(msgs))
    return 0


GENERATORS = {'codec_tpl': gen_codec_tpl}

def review() -> int:
    """regenerated tables vs. the committed reviewed tables: everything outside `opt_override_capacity` must be identical"""
    import subprocess
    old = subprocess.run(['git', '-C', gen.VERIF, 'show', 'HEAD:coq/theories/Codec/TplTieData.v'], stdout=subprocess.PIPE, text=True).stdout
    new, _ = render('walker_')

    def defs(text):
        out = {}
        for part in re.split(r'\nDefinition walker_', '\n' + text)[1:]:
            out[part.split(' ', 1)[0]] = part.split(':=', 1)[1]
        return out
    o, n = defs(old), defs(new)
    rc = 0
    for k in sorted(o):
        ref = k + '_default' if (k + '_default' in n and k + '_default' not in o) else k
        a = o[k].replace('options.enable_override_variable_array_capacity', OPT_OVERRIDE)
        same = a == n.get(ref)
        if not same and ref != k:
            # the old table may itself contain branches under the option atom: compare its own default projection instead
            same = None
        print('%-24s %s' % (k, 'identical' if same else 'DIFFERS (inspect with diff)' if same is False else 'compare default projections by hand'))
        rc |= 0 if same else 1
    return rc


if __name__ == '__main__':
    if '--review' in sys.argv:
        sys.exit(review())
    if '--emit-expected' in sys.argv:
        sys.exit(emit_expected())
    ok_, msg_ = gen_codec_tpl()
    print(msg_)
    sys.exit(0 if ok_ else 1)
