"""C20 translator: the small pure HTML filters, the markupsafe escape chain and the autoescape
selection data of /repo -> coq/theories/Generated/Gen_Html.v  (fail closed).

Translated from source (python `ast`, nothing is imported):
  * nunavut/jinja/markupsafe/_native.py  escape        -> markupsafe_escape  (chain of str.replace)
  * nunavut/lang/html/__init__.py        filter_tag_id, filter_url_from_type, filter_make_unique,
                                          filter_namespace_doc (shape-recognised: first type named "_")
  * nunavut/jinja/environment.py         select_autoescape(...) keyword data
  * nunavut/jinja/jinja2/utils.py        select_autoescape's inner decision (shape-recognised)
  * nunavut/lang/html/templates/**       the template names the loader can be asked for
  * the `{{ ... }}` sinks of the templates that carry DSDL documentation text and whether each
    has an explicit `| e` / `| escape` filter
"""
from __future__ import annotations

import ast
import os
import re
import typing

from . import gen, pyfun_tr
from .pyfun_tr import Unsupported, T_BOOL, T_INT, T_STR

T_TINFO = 'tinfo'
T_UNGRET = '(ung * str)'

# attribute reads on a pydsdl type object that the filters use -> projection of the model record `tinfo`
TINFO_ATTRS = {
    'full_name': ('ti_full_name', T_STR),
    'root_namespace': ('ti_root_ns', T_STR),
}


def _s(s: str) -> str:
    return '([%s]%%N : str)' % '; '.join(str(ord(c)) for c in s)


class HtmlTr(pyfun_tr.Tr):
    """pyfun_tr.Tr plus: str.format with bare {} holes, str.replace of a one-character pattern, constant slices
    [0:1] / [1:], .lower(), html.escape, isinstance(x, pydsdl.ArrayType), reads of the modelled attributes of a pydsdl type,
    and the UniqueNameGenerator singleton call (state passing)."""

    def expr(self, e, env):
        if isinstance(e, ast.Call):
            f = e.func
            # "...{}...".format(a, b, c)
            if (isinstance(f, ast.Attribute) and f.attr == 'format' and isinstance(f.value, ast.Constant)
                    and isinstance(f.value.value, str) and not e.keywords):
                fmt = f.value.value
                pieces = fmt.split('{}')
                if '{' in ''.join(pieces) or '}' in ''.join(pieces):
                    raise Unsupported('format string with non-trivial holes: %r' % fmt)
                if len(pieces) - 1 != len(e.args):
                    raise Unsupported('format arity')
                parts = [_s(pieces[0])]
                for a, lit in zip(e.args, pieces[1:]):
                    v, tv = self.expr(a, env)
                    if tv == T_STR:
                        parts.append(v)
                    elif tv == T_INT:
                        parts.append('(dec_of_Z %s)' % v)
                    else:
                        raise Unsupported('format argument of type %s' % tv)
                    parts.append(_s(lit))
                return '(concat [%s])' % '; '.join(parts), T_STR
            # x.replace("c", "rep")
            if isinstance(f, ast.Attribute) and f.attr == 'replace' and len(e.args) == 2 and not e.keywords:
                a0, a1 = e.args
                if not (isinstance(a0, ast.Constant) and isinstance(a0.value, str) and len(a0.value) == 1
                        and isinstance(a1, ast.Constant) and isinstance(a1.value, str)):
                    raise Unsupported('replace with a non-literal or multi-character pattern')
                v, tv = self.expr(f.value, env)
                if tv != T_STR:
                    raise Unsupported('replace on %s' % tv)
                return '(str_replace1 %d %s %s)' % (ord(a0.value), _s(a1.value), v), T_STR
            if isinstance(f, ast.Attribute) and f.attr == 'lower' and not e.args:
                v, tv = self.expr(f.value, env)
                if tv != T_STR:
                    raise Unsupported('lower on %s' % tv)
                return '(py_lower_ascii %s)' % v, T_STR
            # html.escape(x)  (stdlib; hand model html_escape in Gen/Html.v, tied by correspondence)
            if (isinstance(f, ast.Attribute) and f.attr == 'escape' and isinstance(f.value, ast.Name) and f.value.id == 'html'
                    and len(e.args) == 1 and not e.keywords):
                v, tv = self.expr(e.args[0], env)
                if tv != T_STR:
                    raise Unsupported('html.escape on %s' % tv)
                return '(html_escape %s)' % v, T_STR
            # text_type(s) / str(s) on a str is the identity; str(instance.element_type) is a modelled attribute
            if isinstance(f, ast.Name) and f.id in ('str', 'text_type') and len(e.args) == 1 and not e.keywords:
                a = e.args[0]
                if (isinstance(a, ast.Attribute) and a.attr == 'element_type' and isinstance(a.value, ast.Name)
                        and env.get(a.value.id, (None, None))[1] == T_TINFO):
                    return '(ti_elem_str %s)' % env[a.value.id][0], T_STR
                v, tv = self.expr(a, env)
                if tv == T_STR:
                    return v, T_STR
                if tv == T_INT:
                    return '(dec_of_Z %s)' % v, T_STR
                raise Unsupported('str() of %s' % tv)
            # isinstance(instance, pydsdl.ArrayType)
            if isinstance(f, ast.Name) and f.id == 'isinstance' and len(e.args) == 2:
                a, k = e.args
                if (isinstance(a, ast.Name) and env.get(a.id, (None, None))[1] == T_TINFO and isinstance(k, ast.Attribute)
                        and isinstance(k.value, ast.Name) and k.value.id == 'pydsdl' and k.attr == 'ArrayType'):
                    return '(ti_is_array %s)' % env[a.id][0], T_BOOL
                raise Unsupported('isinstance against %s' % ast.unparse(k))
            # UniqueNameGenerator.get_instance()(key, token, prefix, suffix)
            if (isinstance(f, ast.Call) and isinstance(f.func, ast.Attribute) and f.func.attr == 'get_instance'
                    and isinstance(f.func.value, ast.Name) and f.func.value.id == 'UniqueNameGenerator' and not f.args
                    and len(e.args) == 4 and not e.keywords):
                if 'ung!' not in env:
                    raise Unsupported('UniqueNameGenerator outside a state-passing function')
                args = []
                for a in e.args:
                    v, tv = self.expr(a, env)
                    if tv != T_STR:
                        raise Unsupported('UniqueNameGenerator argument type')
                    args.append(v)
                return '(ung_call %s %s)' % (env['ung!'][0], ' '.join(args)), T_UNGRET
        if isinstance(e, ast.Attribute) and isinstance(e.value, ast.Name) and env.get(e.value.id, (None, None))[1] == T_TINFO:
            if e.attr in TINFO_ATTRS:
                proj, t = TINFO_ATTRS[e.attr]
                return '(%s %s)' % (proj, env[e.value.id][0]), t
            raise Unsupported('attribute %s of a type object' % e.attr)
        if isinstance(e, ast.Subscript):
            # instance.version[0|1]
            v = e.value
            if (isinstance(v, ast.Attribute) and v.attr == 'version' and isinstance(v.value, ast.Name)
                    and env.get(v.value.id, (None, None))[1] == T_TINFO and isinstance(e.slice, ast.Constant)
                    and e.slice.value in (0, 1)):
                return '(%s %s)' % ('ti_major' if e.slice.value == 0 else 'ti_minor', env[v.value.id][0]), T_INT
            # s[0:1], s[1:]
            if isinstance(e.slice, ast.Slice) and e.slice.step is None:
                lo, hi = e.slice.lower, e.slice.upper

                def const(n):
                    return n.value if isinstance(n, ast.Constant) and isinstance(n.value, int) and n.value >= 0 else None
                sv, st = self.expr(v, env)
                if st == T_STR:
                    if lo is not None and const(lo) is not None and hi is None:
                        return '(skipn %d %s)' % (const(lo), sv), T_STR
                    if const(lo) is not None and const(hi) is not None and const(lo) <= const(hi):
                        return '(firstn %d (skipn %d %s))' % (const(hi) - const(lo), const(lo), sv), T_STR
        if isinstance(e, ast.BinOp) and isinstance(e.op, ast.Add):
            a, ta = self.expr(e.left, env)
            b, tb = self.expr(e.right, env)
            if ta == T_STR and tb == T_STR:
                return '(%s ++ %s)' % (a, b), T_STR
        return super().expr(e, env)


def translate_function(tree: ast.Module, name: str, coq_name: str, params: typing.Dict[str, str], ret: str,
                       ung: bool = False, skip_params: typing.Sequence[str] = ()) -> str:
    fn = pyfun_tr.find_function(tree, None, name)
    for d in fn.decorator_list:
        if not (isinstance(d, ast.Name) and d.id in ('template_volatile_filter', 'template_language_filter')):
            raise Unsupported('decorator %s' % ast.unparse(d))
    if fn.args.vararg or fn.args.kwarg or fn.args.kwonlyargs or fn.args.defaults:
        raise Unsupported('argument list')
    spec = pyfun_tr.FunSpec(cls=None, name=name, coq_name=coq_name, params=params, ret=ret)
    tr = HtmlTr(pyfun_tr.Ctx(spec, None))
    env: typing.Dict[str, typing.Tuple[str, str]] = {}
    ps = []
    if ung:
        env['ung!'] = ('st', 'ung')
        ps.append(('st', 'ung'))
    for a in fn.args.args:
        if a.arg in skip_params:
            continue
        if a.arg not in params:
            raise Unsupported('parameter %s has no declared type' % a.arg)
        env[a.arg] = (a.arg, params[a.arg])
        ps.append((a.arg, params[a.arg]))
    body = tr.block(list(fn.body), env)
    return 'Definition %s %s : %s :=\n  %s.' % (coq_name, ' '.join('(%s : %s)' % p for p in ps), ret, body)


def translate_namespace_doc(tree: ast.Module) -> str:
    """Recognises exactly:   result = ""; for t, _ in ns.get_nested_types(): if t.short_name == K: result = t.doc; break
    ; return result     ->  first type (in get_nested_types order) whose short name is K, its doc, else ""."""
    fn = pyfun_tr.find_function(tree, None, 'filter_namespace_doc')
    body = [s for s in fn.body if not (isinstance(s, ast.Expr) and isinstance(s.value, ast.Constant))]
    try:
        init, loop, ret = body
        assert isinstance(init, ast.Assign) and isinstance(init.targets[0], ast.Name) and init.value.value == ''
        res = init.targets[0].id
        assert isinstance(loop, ast.For) and not loop.orelse
        assert isinstance(loop.target, ast.Tuple) and len(loop.target.elts) == 2
        tv = loop.target.elts[0].id
        assert ast.unparse(loop.iter) == '%s.get_nested_types()' % fn.args.args[0].arg
        (iff,) = loop.body
        assert isinstance(iff, ast.If) and not iff.orelse
        t = iff.test
        assert isinstance(t, ast.Compare) and len(t.ops) == 1 and isinstance(t.ops[0], ast.Eq)
        assert ast.unparse(t.left) == '%s.short_name' % tv and isinstance(t.comparators[0], ast.Constant)
        key = t.comparators[0].value
        assert isinstance(key, str)
        asg, brk = iff.body
        assert isinstance(brk, ast.Break) and isinstance(asg, ast.Assign) and asg.targets[0].id == res
        assert ast.unparse(asg.value) == '%s.doc' % tv
        assert isinstance(ret, ast.Return) and ret.value.id == res
    except (AssertionError, ValueError, AttributeError, IndexError, TypeError) as ex:
        raise Unsupported('filter_namespace_doc is not of the recognised first-match shape (%r)' % (ex,))
    return ('Definition namespace_doc_key : str := %s.\n'
            'Definition filter_namespace_doc (types : list (str * str)) : str :=   (* (short_name, doc) in get_nested_types order *)\n'
            '  match find (fun t => str_eqb (fst t) namespace_doc_key) types with Some t => snd t | None => []%%N end.' % _s(key))


def translate_escape(tree: ast.Module) -> str:
    """escape(s): `if hasattr(s, "__html__"): ...; return Markup(text_type(s).replace(..)...)` -> the replace chain on a str."""
    fn = pyfun_tr.find_function(tree, None, 'escape')
    body = [s for s in fn.body if not (isinstance(s, ast.Expr) and isinstance(s.value, ast.Constant))]
    if len(body) != 2 or not isinstance(body[0], ast.If) or not isinstance(body[1], ast.Return):
        raise Unsupported('markupsafe escape: unexpected statement list')
    if 'hasattr' not in ast.unparse(body[0].test) or '__html__' not in ast.unparse(body[0].test):
        raise Unsupported('markupsafe escape: first statement is not the __html__ protocol test')
    v = body[1].value
    if not (isinstance(v, ast.Call) and isinstance(v.func, ast.Name) and v.func.id == 'Markup' and len(v.args) == 1):
        raise Unsupported('markupsafe escape: return is not Markup(...)')
    spec = pyfun_tr.FunSpec(cls=None, name='escape', coq_name='markupsafe_escape', params={'s': T_STR}, ret=T_STR)
    tr = HtmlTr(pyfun_tr.Ctx(spec, None))
    e, t = tr.expr(v.args[0], {'s': ('s', T_STR)})
    if t != T_STR:
        raise Unsupported('markupsafe escape type')
    return 'Definition markupsafe_escape (s : str) : str :=\n  %s.' % e


def autoescape_data(envtree: ast.Module, utiltree: ast.Module) -> str:
    call = None
    for n in ast.walk(envtree):
        if isinstance(n, ast.Call) and isinstance(n.func, ast.Name) and n.func.id == 'select_autoescape':
            if call is not None:
                raise Unsupported('several select_autoescape calls')
            call = n
    if call is None:
        raise Unsupported('no select_autoescape(...) call in environment.py (autoescape configured differently)')
    if call.args:
        raise Unsupported('positional arguments to select_autoescape')
    kw = {k.arg: k.value for k in call.keywords}
    data = {'enabled_extensions': None, 'disabled_extensions': (), 'default_for_string': True, 'default': False}
    for k, v in kw.items():
        if k not in data:
            raise Unsupported('select_autoescape keyword %s' % k)
        val = ast.literal_eval(v)
        data[k] = val
    if data['enabled_extensions'] is None:
        data['enabled_extensions'] = ('html', 'htm', 'xml')
    for k in ('enabled_extensions', 'disabled_extensions'):
        if not all(isinstance(x, str) for x in data[k]):
            raise Unsupported(k)
    # the decision function itself (shape check of the bundled jinja2.utils.select_autoescape)
    fn = pyfun_tr.find_function(utiltree, None, 'select_autoescape')
    src = ast.unparse(fn)
    want = ["enabled_patterns = tuple(('.' + x.lstrip('.').lower() for x in enabled_extensions))",
            "disabled_patterns = tuple(('.' + x.lstrip('.').lower() for x in disabled_extensions))",
            "if template_name is None:\n            return default_for_string",
            "template_name = template_name.lower()",
            "if template_name.endswith(enabled_patterns):\n            return True",
            "if template_name.endswith(disabled_patterns):\n            return False",
            "return default"]
    pos = 0
    for w in want:
        j = src.find(w, pos)
        if j < 0:
            raise Unsupported('jinja2.utils.select_autoescape no longer has the recognised shape (missing %r)' % w)
        pos = j
    return ('Definition autoescape_enabled_exts : list str := [%s].\n'
            'Definition autoescape_disabled_exts : list str := [%s].\n'
            'Definition autoescape_default_for_string : bool := %s.\n'
            'Definition autoescape_default : bool := %s.'
            % ('; '.join(_s(x) for x in data['enabled_extensions']), '; '.join(_s(x) for x in data['disabled_extensions']),
               'true' if data['default_for_string'] else 'false', 'true' if data['default'] else 'false'))


SINK_RE = re.compile(r'\{\{(.*?)\}\}', re.S)
DOC_EXPR_RE = re.compile(r'\b(\w+\.doc|namespace_doc)\b')


def template_data(root: str) -> typing.Tuple[str, typing.List[dict]]:
    """template names (posix, relative to the templates directory) and the documentation-text sinks"""
    names = []
    sinks = []
    for d, _, fs in os.walk(root):
        for f in sorted(fs):
            if f.endswith(('.py', '.pyc')) or '__pycache__' in d:
                continue
            rel = os.path.relpath(os.path.join(d, f), root).replace(os.sep, '/')
            names.append(rel)
            if f.endswith('.j2'):
                text = open(os.path.join(d, f), encoding='utf-8').read()
                if re.search(r'\{%-?\s*autoescape\b', text):
                    raise Unsupported('template %s uses an {%% autoescape %%} block (not modelled)' % rel)
                for m in SINK_RE.finditer(text):
                    ex = m.group(1).strip()
                    if DOC_EXPR_RE.search(ex):
                        escaped = re.search(r'\|\s*(e|escape|forceescape)\b', ex) is not None
                        sinks.append({'template': rel, 'expr': ex, 'escaped': escaped})
    names.sort()
    return names, sinks


def gen_html() -> typing.Tuple[bool, str]:
    out_path = os.path.join(gen.GEN_DIR, 'Gen_Html.v')
    head = (gen.HEADER % 'src/nunavut/lang/html/__init__.py, jinja/markupsafe/_native.py, jinja/environment.py, jinja/jinja2/utils.py, '
            'lang/html/templates/' + 'From Verif Require Import HtmlBase.\nOpen Scope N_scope.\n\n')
    try:
        html_mod = gen.parse_repo('src/nunavut/lang/html/__init__.py')
        ms = gen.parse_repo('src/nunavut/jinja/markupsafe/_native.py')
        envt = gen.parse_repo('src/nunavut/jinja/environment.py')
        utl = gen.parse_repo('src/nunavut/jinja/jinja2/utils.py')
        parts = [translate_escape(ms)]
        parts.append(translate_function(html_mod, 'filter_tag_id', 'filter_tag_id', {'instance': T_TINFO}, T_STR))
        parts.append(translate_function(html_mod, 'filter_url_from_type', 'filter_url_from_type', {'instance': T_TINFO}, T_STR))
        parts.append(translate_function(html_mod, 'filter_make_unique', 'filter_make_unique', {'base_token': T_STR}, T_UNGRET,
                                        ung=True, skip_params=('_',)))
        parts.append(translate_namespace_doc(html_mod))
        parts.append(autoescape_data(envt, utl))
        names, sinks = template_data(os.path.join(gen.REPO, 'src/nunavut/lang/html/templates'))
        parts.append('Definition html_template_names : list str := [\n  %s].' % ';\n  '.join('%s (* %s *)' % (_s(n), n) for n in names))
        # documentation sinks: (template, escaped?) -- the model's page builder takes one flag per template
        by_t: typing.Dict[str, typing.List[bool]] = {}
        for s in sinks:
            by_t.setdefault(s['template'], []).append(s['escaped'])
        for t, flags in by_t.items():
            if len(set(flags)) != 1:
                raise Unsupported('template %s escapes some documentation sinks explicitly and others not (model has one flag per template)' % t)
        known = {'type_info.j2': 'docs_escaped_type_info', 'namespace_info.j2': 'docs_escaped_namespace_info',
                 'sidebar.j2': 'docs_escaped_sidebar', 'type_base.j2': 'docs_escaped_type_base'}
        for t in by_t:
            if t not in known:
                raise Unsupported('documentation text is emitted by a template the model does not know: %s' % t)
        for t, nm in known.items():
            if t not in by_t:
                raise Unsupported('template %s no longer emits documentation text where the model expects it' % t)
            parts.append('Definition %s : bool := %s.  (* %d sink(s) in %s *)' % (nm, 'true' if by_t[t][0] else 'false', len(by_t[t]), t))
    except (Unsupported, SyntaxError, OSError, ValueError) as ex:
        gen.write_if_changed(out_path, head + '(* translator failed closed: %s *)\n' % str(ex).replace('*)', '* )'))
        return False, 'T2 failed closed on the HTML filters: %s' % ex
    gen.write_if_changed(out_path, head + '\n\n'.join(parts) + '\n')
    return True, 'ok'


GENERATORS = {'html': gen_html}
