"""C20 translator: the small pure HTML filters, the markupsafe escape chain and the autoescape
selection data of /repo -> coq/theories/Generated/Gen_Html.v  (fail closed).

Translated from source (python `ast`, nothing is imported):
  * nunavut/jinja/markupsafe/_native.py  escape        -> markupsafe_escape  (chain of str.replace)
  * nunavut/lang/html/__init__.py        filter_tag_id, filter_url_from_type, filter_make_unique,
                                          filter_namespace_doc (shape-recognised: first type named "_")
  * nunavut/jinja/environment.py         select_autoescape(...) keyword data
  * nunavut/jinja/jinja2/utils.py        select_autoescape's inner decision (shape-recognised)
  * nunavut/lang/html/templates/**       the template names the loader can be asked for
  * the `{{ ... }}` sinks of the templates that carry DSDL documentation text and whether each
    has an explicit `| e` / `| escape` filter
"""
from __future__ import annotations

import ast
import os
import re
import typing

from . import gen, pyfun_tr
from .pyfun_tr import Unsupported, T_BOOL, T_INT, T_STR

T_TINFO = 'tinfo'
T_UNGRET = '(ung * str)'

# attribute reads on a pydsdl type object that the filters use -> projection of the model record `tinfo`
TINFO_ATTRS = {
    'full_name': ('ti_full_name', T_STR),
    'root_namespace': ('ti_root_ns', T_STR),
    'full_namespace': ('ti_full_namespace', T_STR),
    'has_parent_service': ('ti_has_parent', T_BOOL),
}


def _s(s: str) -> str:
    return '([%s]%%N : str)' % '; '.join(str(ord(c)) for c in s)


class HtmlTr(pyfun_tr.Tr):
    """pyfun_tr.Tr plus: str.format with bare {} holes, str.replace of a one-character pattern, constant slices
    [0:1] / [1:], .lower(), html.escape, isinstance(x, pydsdl.ArrayType), reads of the modelled attributes of a pydsdl type,
    and the UniqueNameGenerator singleton call (state passing)."""

    def expr(self, e, env):
        if isinstance(e, ast.Call):
            f = e.func
            # "...{}...".format(a, b, c)
            if (isinstance(f, ast.Attribute) and f.attr == 'format' and isinstance(f.value, ast.Constant)
                    and isinstance(f.value.value, str) and not e.keywords):
                fmt = f.value.value
                pieces = fmt.split('{}')
                if '{' in ''.join(pieces) or '}' in ''.join(pieces):
                    raise Unsupported('format string with non-trivial holes: %r' % fmt)
                if len(pieces) - 1 != len(e.args):
                    raise Unsupported('format arity')
                parts = [_s(pieces[0])]
                for a, lit in zip(e.args, pieces[1:]):
                    v, tv = self.expr(a, env)
                    if tv == T_STR:
                        parts.append(v)
                    elif tv == T_INT:
                        parts.append('(dec_of_Z %s)' % v)
                    else:
                        raise Unsupported('format argument of type %s' % tv)
                    parts.append(_s(lit))
                return '(concat [%s])' % '; '.join(parts), T_STR
            # x.replace("c", "rep")
            if isinstance(f, ast.Attribute) and f.attr == 'replace' and len(e.args) == 2 and not e.keywords:
                a0, a1 = e.args
                if not (isinstance(a0, ast.Constant) and isinstance(a0.value, str) and len(a0.value) == 1
                        and isinstance(a1, ast.Constant) and isinstance(a1.value, str)):
                    raise Unsupported('replace with a non-literal or multi-character pattern')
                v, tv = self.expr(f.value, env)
                if tv != T_STR:
                    raise Unsupported('replace on %s' % tv)
                return '(str_replace1 %d %s %s)' % (ord(a0.value), _s(a1.value), v), T_STR
            if isinstance(f, ast.Attribute) and f.attr == 'lower' and not e.args:
                v, tv = self.expr(f.value, env)
                if tv != T_STR:
                    raise Unsupported('lower on %s' % tv)
                return '(py_lower_ascii %s)' % v, T_STR
            # html.escape(x)  (stdlib; hand model html_escape in Gen/Html.v, tied by correspondence)
            if (isinstance(f, ast.Attribute) and f.attr == 'escape' and isinstance(f.value, ast.Name) and f.value.id == 'html'
                    and len(e.args) == 1 and not e.keywords):
                v, tv = self.expr(e.args[0], env)
                if tv != T_STR:
                    raise Unsupported('html.escape on %s' % tv)
                return '(html_escape %s)' % v, T_STR
            # text_type(s) / str(s) on a str is the identity; str(instance.element_type) is a modelled attribute
            if isinstance(f, ast.Name) and f.id in ('str', 'text_type') and len(e.args) == 1 and not e.keywords:
                a = e.args[0]
                if (isinstance(a, ast.Attribute) and a.attr == 'element_type' and isinstance(a.value, ast.Name)
                        and env.get(a.value.id, (None, None))[1] == T_TINFO):
                    return '(ti_elem_str %s)' % env[a.value.id][0], T_STR
                v, tv = self.expr(a, env)
                if tv == T_STR:
                    return v, T_STR
                if tv == T_INT:
                    return '(dec_of_Z %s)' % v, T_STR
                raise Unsupported('str() of %s' % tv)
            # isinstance(instance, pydsdl.ArrayType)
            if isinstance(f, ast.Name) and f.id == 'isinstance' and len(e.args) == 2:
                a, k = e.args
                if (isinstance(a, ast.Name) and env.get(a.id, (None, None))[1] == T_TINFO and isinstance(k, ast.Attribute)
                        and isinstance(k.value, ast.Name) and k.value.id == 'pydsdl' and k.attr == 'ArrayType'):
                    return '(ti_is_array %s)' % env[a.id][0], T_BOOL
                raise Unsupported('isinstance against %s' % ast.unparse(k))
            # UniqueNameGenerator.get_instance()(key, token, prefix, suffix)
            if (isinstance(f, ast.Call) and isinstance(f.func, ast.Attribute) and f.func.attr == 'get_instance'
                    and isinstance(f.func.value, ast.Name) and f.func.value.id == 'UniqueNameGenerator' and not f.args
                    and len(e.args) == 4 and not e.keywords):
                if 'ung!' not in env:
                    raise Unsupported('UniqueNameGenerator outside a state-passing function')
                args = []
                for a in e.args:
                    v, tv = self.expr(a, env)
                    if tv != T_STR:
                        raise Unsupported('UniqueNameGenerator argument type')
                    args.append(v)
                return '(ung_call %s %s)' % (env['ung!'][0], ' '.join(args)), T_UNGRET
        if isinstance(e, ast.Attribute) and isinstance(e.value, ast.Name) and env.get(e.value.id, (None, None))[1] == T_TINFO:
            if e.attr in TINFO_ATTRS:
                proj, t = TINFO_ATTRS[e.attr]
                return '(%s %s)' % (proj, env[e.value.id][0]), t
            raise Unsupported('attribute %s of a type object' % e.attr)
        if isinstance(e, ast.Subscript):
            # instance.version[0|1]
            v = e.value
            if (isinstance(v, ast.Attribute) and v.attr == 'version' and isinstance(v.value, ast.Name)
                    and env.get(v.value.id, (None, None))[1] == T_TINFO and isinstance(e.slice, ast.Constant)
                    and e.slice.value in (0, 1)):
                return '(%s %s)' % ('ti_major' if e.slice.value == 0 else 'ti_minor', env[v.value.id][0]), T_INT
            # s[0:1], s[1:]
            if isinstance(e.slice, ast.Slice) and e.slice.step is None:
                lo, hi = e.slice.lower, e.slice.upper

                def const(n):
                    return n.value if isinstance(n, ast.Constant) and isinstance(n.value, int) and n.value >= 0 else None
                sv, st = self.expr(v, env)
                if st == T_STR:
                    if lo is not None and const(lo) is not None and hi is None:
                        return '(skipn %d %s)' % (const(lo), sv), T_STR
                    if const(lo) is not None and const(hi) is not None and const(lo) <= const(hi):
                        return '(firstn %d (skipn %d %s))' % (const(hi) - const(lo), const(lo), sv), T_STR
        if isinstance(e, ast.IfExp):
            c, tc = self.expr(e.test, env)
            a, ta = self.expr(e.body, env)
            b, tb = self.expr(e.orelse, env)
            if tc != T_BOOL or ta != tb:
                raise Unsupported('conditional expression of types %s ? %s : %s' % (tc, ta, tb))
            return '(if %s then %s else %s)' % (c, a, b), ta
        if isinstance(e, ast.BinOp) and isinstance(e.op, ast.Add):
            a, ta = self.expr(e.left, env)
            b, tb = self.expr(e.right, env)
            if ta == T_STR and tb == T_STR:
                return '(%s ++ %s)' % (a, b), T_STR
        return super().expr(e, env)


def translate_function(tree: ast.Module, name: str, coq_name: str, params: typing.Dict[str, str], ret: str,
                       ung: bool = False, skip_params: typing.Sequence[str] = ()) -> str:
    fn = pyfun_tr.find_function(tree, None, name)
    for d in fn.decorator_list:
        if not (isinstance(d, ast.Name) and d.id in ('template_volatile_filter', 'template_language_filter')):
            raise Unsupported('decorator %s' % ast.unparse(d))
    if fn.args.vararg or fn.args.kwarg or fn.args.kwonlyargs or fn.args.defaults:
        raise Unsupported('argument list')
    spec = pyfun_tr.FunSpec(cls=None, name=name, coq_name=coq_name, params=params, ret=ret)
    tr = HtmlTr(pyfun_tr.Ctx(spec, None))
    env: typing.Dict[str, typing.Tuple[str, str]] = {}
    ps = []
    if ung:
        env['ung!'] = ('st', 'ung')
        ps.append(('st', 'ung'))
    for a in fn.args.args:
        if a.arg in skip_params:
            continue
        if a.arg not in params:
            raise Unsupported('parameter %s has no declared type' % a.arg)
        env[a.arg] = (a.arg, params[a.arg])
        ps.append((a.arg, params[a.arg]))
    body = tr.block(list(fn.body), env)
    return 'Definition %s %s : %s :=\n  %s.' % (coq_name, ' '.join('(%s : %s)' % p for p in ps), ret, body)


def translate_namespace_doc(tree: ast.Module) -> str:
    """Recognises exactly:   result = ""; for t, _ in ns.get_nested_types(): if t.short_name == K: result = t.doc; break
    ; return result     ->  first type (in get_nested_types order) whose short name is K, its doc, else ""."""
    fn = pyfun_tr.find_function(tree, None, 'filter_namespace_doc')
    body = [s for s in fn.body if not (isinstance(s, ast.Expr) and isinstance(s.value, ast.Constant))]
    try:
        init, loop, ret = body
        assert isinstance(init, ast.Assign) and isinstance(init.targets[0], ast.Name) and init.value.value == ''
        res = init.targets[0].id
        assert isinstance(loop, ast.For) and not loop.orelse
        assert isinstance(loop.target, ast.Tuple) and len(loop.target.elts) == 2
        tv = loop.target.elts[0].id
        assert ast.unparse(loop.iter) == '%s.get_nested_types()' % fn.args.args[0].arg
        (iff,) = loop.body
        assert isinstance(iff, ast.If) and not iff.orelse
        t = iff.test
        assert isinstance(t, ast.Compare) and len(t.ops) == 1 and isinstance(t.ops[0], ast.Eq)
        assert ast.unparse(t.left) == '%s.short_name' % tv and isinstance(t.comparators[0], ast.Constant)
        key = t.comparators[0].value
        assert isinstance(key, str)
        asg, brk = iff.body
        assert isinstance(brk, ast.Break) and isinstance(asg, ast.Assign) and asg.targets[0].id == res
        assert ast.unparse(asg.value) == '%s.doc' % tv
        assert isinstance(ret, ast.Return) and ret.value.id == res
    except (AssertionError, ValueError, AttributeError, IndexError, TypeError) as ex:
        raise Unsupported('filter_namespace_doc is not of the recognised first-match shape (%r)' % (ex,))
    return ('Definition namespace_doc_key : str := %s.\n'
            'Definition filter_namespace_doc (types : list (str * str)) : str :=   (* (short_name, doc) in get_nested_types order *)\n'
            '  match find (fun t => str_eqb (fst t) namespace_doc_key) types with Some t => snd t | None => []%%N end.' % _s(key))


def translate_escape(tree: ast.Module) -> str:
    """escape(s): `if hasattr(s, "__html__"): ...; return Markup(text_type(s).replace(..)...)` -> the replace chain on a str."""
    fn = pyfun_tr.find_function(tree, None, 'escape')
    body = [s for s in fn.body if not (isinstance(s, ast.Expr) and isinstance(s.value, ast.Constant))]
    if len(body) != 2 or not isinstance(body[0], ast.If) or not isinstance(body[1], ast.Return):
        raise Unsupported('markupsafe escape: unexpected statement list')
    if 'hasattr' not in ast.unparse(body[0].test) or '__html__' not in ast.unparse(body[0].test):
        raise Unsupported('markupsafe escape: first statement is not the __html__ protocol test')
    v = body[1].value
    if not (isinstance(v, ast.Call) and isinstance(v.func, ast.Name) and v.func.id == 'Markup' and len(v.args) == 1):
        raise Unsupported('markupsafe escape: return is not Markup(...)')
    spec = pyfun_tr.FunSpec(cls=None, name='escape', coq_name='markupsafe_escape', params={'s': T_STR}, ret=T_STR)
    tr = HtmlTr(pyfun_tr.Ctx(spec, None))
    e, t = tr.expr(v.args[0], {'s': ('s', T_STR)})
    if t != T_STR:
        raise Unsupported('markupsafe escape type')
    return 'Definition markupsafe_escape (s : str) : str :=\n  %s.' % e


# ---------------------------------------------------------------------------------------------------------
# filter_display_type: an isinstance chain over pydsdl classes, each branch building a str with markup.
# Model input `dnode` (Gen/HtmlBase.v) has one constructor per class of the chain; the translator checks that the
# chain tests exactly these classes, that a subclass is tested before its base class (PaddingField before Field)
# and that each branch reads only what its constructor carries.
# ---------------------------------------------------------------------------------------------------------
DT_CLASSES = [  # class, constructor, pattern, {python sub-expression source -> (coq, type)}
    ('FixedLengthArrayType', 'NFixed e cap', {'REC(instance.element_type)': ('(filter_display_type e)', T_STR), 'instance.capacity': ('cap', T_INT)}),
    ('VariableLengthArrayType', 'NVar e cap', {'REC(instance.element_type)': ('(filter_display_type e)', T_STR), 'instance.capacity': ('cap', T_INT)}),
    ('PaddingField', 'NPad s', {'instance': ('s', T_STR), 'str(instance)': ('s', T_STR)}),
    ('Field', 'NField d nm', {'REC(instance.data_type)': ('(filter_display_type d)', T_STR), 'instance.name': ('nm', T_STR)}),
    ('Constant', 'NConst d nm val', {'REC(instance.data_type)': ('(filter_display_type d)', T_STR), 'instance.name': ('nm', T_STR),
                                     'instance.value': ('val', T_STR)}),
    ('PrimitiveType', 'NPrim saturated s', {'instance.cast_mode == instance.cast_mode.SATURATED': ('saturated', T_BOOL),
                                            'str(instance).split()[-1]': ('(last_word s)', T_STR), 'str(instance)': ('s', T_STR),
                                            'instance': ('s', T_STR)}),
]
DT_SUBCLASS = [('PaddingField', 'Field')]


class _Subst(ast.NodeTransformer):
    """replaces the recognised reads of `instance` by fresh names bound in the branch environment"""

    def __init__(self, table: dict, fname: str):
        self.table, self.fname, self.used = table, fname, {}

    def generic_visit(self, node):
        if isinstance(node, ast.expr):
            src = ast.unparse(node)
            if isinstance(node, ast.Call) and isinstance(node.func, ast.Name) and node.func.id == self.fname and len(node.args) == 1:
                src = 'REC(%s)' % ast.unparse(node.args[0])
            if src in self.table:
                nm = '_dt%d' % len(self.used) if src not in self.used else self.used[src]
                self.used[src] = nm
                return ast.copy_location(ast.Name(id=nm, ctx=ast.Load()), node)
        return super().generic_visit(node)


def translate_display_type(tree: ast.Module) -> str:
    fn = pyfun_tr.find_function(tree, None, 'filter_display_type')
    body = [s for s in fn.body if not (isinstance(s, ast.Expr) and isinstance(s.value, ast.Constant))]
    if len(body) != 1 or not isinstance(body[0], ast.If) or [a.arg for a in fn.args.args] != ['instance']:
        raise Unsupported('filter_display_type is not a single if/elif chain over `instance`')
    branches, node = [], body[0]
    while True:
        t = node.test
        if not (isinstance(t, ast.Call) and isinstance(t.func, ast.Name) and t.func.id == 'isinstance' and len(t.args) == 2
                and ast.unparse(t.args[0]) == 'instance' and isinstance(t.args[1], ast.Attribute) and ast.unparse(t.args[1].value) == 'pydsdl'):
            raise Unsupported('filter_display_type: test %s is not isinstance(instance, pydsdl.X)' % ast.unparse(t))
        branches.append((t.args[1].attr, node.body))
        if len(node.orelse) == 1 and isinstance(node.orelse[0], ast.If):
            node = node.orelse[0]
        else:
            orelse = node.orelse
            break
    order = [c for c, _ in branches]
    if sorted(order) != sorted(c for c, _, _ in DT_CLASSES) or len(set(order)) != len(order):
        raise Unsupported('filter_display_type distinguishes %s, the model %s' % (order, [c for c, _, _ in DT_CLASSES]))
    for sub, base in DT_SUBCLASS:
        if order.index(sub) > order.index(base):
            raise Unsupported('filter_display_type tests %s after its base class %s' % (sub, base))
    if len(orelse) != 1 or not isinstance(orelse[0], ast.Return) or ast.unparse(orelse[0].value) != 'str(instance)':
        raise Unsupported('filter_display_type: else branch is not `return str(instance)`')
    spec = pyfun_tr.FunSpec(cls=None, name='filter_display_type', coq_name='filter_display_type', params={}, ret=T_STR)
    arms = []
    for cname, stmts in branches:
        _, pat, table = next(x for x in DT_CLASSES if x[0] == cname)
        sub = _Subst(table, 'filter_display_type')
        stmts2 = [sub.visit(ast.parse(ast.unparse(st)).body[0]) for st in stmts]
        for st in stmts2:
            for n in ast.walk(st):
                if isinstance(n, ast.Name) and n.id in ('instance', 'filter_display_type'):
                    raise Unsupported('filter_display_type: branch %s reads %s in a way the model does not carry' % (cname, ast.unparse(st)))
        env = {nm: table[src] for src, nm in sub.used.items()}
        tr = HtmlTr(pyfun_tr.Ctx(spec, None))
        arms.append('  | %s =>\n      %s' % (pat, tr.block(stmts2, env)))
    arms.append('  | NOther s => s')
    return 'Fixpoint filter_display_type (instance : dnode) : str :=\n  match instance with\n%s\n  end.' % '\n'.join(arms)


def autoescape_data(envtree: ast.Module, utiltree: ast.Module) -> str:
    call = None
    for n in ast.walk(envtree):
        if isinstance(n, ast.Call) and isinstance(n.func, ast.Name) and n.func.id == 'select_autoescape':
            if call is not None:
                raise Unsupported('several select_autoescape calls')
            call = n
    if call is None:
        raise Unsupported('no select_autoescape(...) call in environment.py (autoescape configured differently)')
    if call.args:
        raise Unsupported('positional arguments to select_autoescape')
    kw = {k.arg: k.value for k in call.keywords}
    data = {'enabled_extensions': None, 'disabled_extensions': (), 'default_for_string': True, 'default': False}
    for k, v in kw.items():
        if k not in data:
            raise Unsupported('select_autoescape keyword %s' % k)
        val = ast.literal_eval(v)
        data[k] = val
    if data['enabled_extensions'] is None:
        data['enabled_extensions'] = ('html', 'htm', 'xml')
    for k in ('enabled_extensions', 'disabled_extensions'):
        if not all(isinstance(x, str) for x in data[k]):
            raise Unsupported(k)
    # the decision function itself (shape check of the bundled jinja2.utils.select_autoescape)
    fn = pyfun_tr.find_function(utiltree, None, 'select_autoescape')
    src = ast.unparse(fn)
    want = ["enabled_patterns = tuple(('.' + x.lstrip('.').lower() for x in enabled_extensions))",
            "disabled_patterns = tuple(('.' + x.lstrip('.').lower() for x in disabled_extensions))",
            "if template_name is None:\n            return default_for_string",
            "template_name = template_name.lower()",
            "if template_name.endswith(enabled_patterns):\n            return True",
            "if template_name.endswith(disabled_patterns):\n            return False",
            "return default"]
    pos = 0
    for w in want:
        j = src.find(w, pos)
        if j < 0:
            raise Unsupported('jinja2.utils.select_autoescape no longer has the recognised shape (missing %r)' % w)
        pos = j
    return ('Definition autoescape_enabled_exts : list str := [%s].\n'
            'Definition autoescape_disabled_exts : list str := [%s].\n'
            'Definition autoescape_default_for_string : bool := %s.\n'
            'Definition autoescape_default : bool := %s.'
            % ('; '.join(_s(x) for x in data['enabled_extensions']), '; '.join(_s(x) for x in data['disabled_extensions']),
               'true' if data['default_for_string'] else 'false', 'true' if data['default'] else 'false'))


SINK_RE = re.compile(r'\{\{(.*?)\}\}', re.S)
DOC_EXPR_RE = re.compile(r'\b(\w+\.doc|namespace_doc)\b')


def template_data(root: str) -> typing.Tuple[str, typing.List[dict]]:
    """template names (posix, relative to the templates directory) and the documentation-text sinks"""
    names = []
    sinks = []
    for d, _, fs in os.walk(root):
        for f in sorted(fs):
            if f.endswith(('.py', '.pyc')) or '__pycache__' in d:
                continue
            rel = os.path.relpath(os.path.join(d, f), root).replace(os.sep, '/')
            names.append(rel)
            if f.endswith('.j2'):
                text = open(os.path.join(d, f), encoding='utf-8').read()
                if re.search(r'\{%-?\s*autoescape\b', text):
                    raise Unsupported('template %s uses an {%% autoescape %%} block (not modelled)' % rel)
                for m in SINK_RE.finditer(text):
                    ex = m.group(1).strip()
                    if DOC_EXPR_RE.search(ex):
                        escaped = re.search(r'\|\s*(e|escape|forceescape)\b', ex) is not None
                        sinks.append({'template': rel, 'expr': ex, 'escaped': escaped})
    names.sort()
    return names, sinks


def links_up_prefix(root: str) -> bool:
    """does type_info.j2 prefix the type URL with the `up` parameter that Namespace.j2 computes from the page depth?
    Exactly two shapes are recognised (the pinned one and the one of design_notes/C20_links_fix.patch)."""
    def read(n):
        with open(os.path.join(root, n), encoding='utf-8') as f:
            return f.read()
    ti, ni, nsp = read('type_info.j2'), read('namespace_info.j2'), read('Namespace.j2')
    hrefs = re.findall(r'href="([^"]*url_from_type[^"]*)"', ti)
    if len(hrefs) != 1:
        raise Unsupported('type_info.j2: expected exactly one href built with url_from_type')
    h = re.sub(r'\s+', '', hrefs[0])
    calls = [re.sub(r'\s+', '', c) for c in re.findall(r'\{\{\s*(generate_(?:type|namespace)_info\(.*?\))\s*\}\}', ti + ni + nsp)]
    if h == '{{up}}{{t|url_from_type}}':
        want_ti = 'generate_type_info(t,attr_name,nested=False,up="")'
        if want_ti not in re.sub(r'\s+', '', ti) or 'generate_namespace_info(t,up="")' not in re.sub(r'\s+', '', ni):
            raise Unsupported('macro signatures do not carry `up` as the model expects')
        for c in calls:
            if c == "generate_namespace_info(T,'../'*T.full_name.count('.'))":
                continue
            if not c.endswith(',up)'):
                raise Unsupported('call %s does not pass `up` on' % c)
        if "generate_namespace_info(T,'../'*T.full_name.count('.'))" not in calls:
            raise Unsupported('Namespace.j2 does not compute `up` from the depth of T')
        return True
    raise Unsupported('type link of an unrecognised shape: %s' % hrefs[0])


def id_scheme(html_mod: ast.Module, root: str) -> typing.Tuple[bool, str]:
    """(composite tag ids are '-'-separated, separator the template puts between a tag id and the nesting counter).
    Two shapes each are recognised (pinned tree / design_notes/C20_tag_id_fix.patch); anything else fails closed."""
    fn = pyfun_tr.find_function(html_mod, None, 'filter_tag_id')
    src = ast.unparse(fn)
    if "'{}-{}-{}'.format(instance.full_name.replace('.', '-')" in src:
        dashed = True
    else:
        raise Unsupported('filter_tag_id: unrecognised id format for composite types')
    with open(os.path.join(root, 'type_info.j2'), encoding='utf-8') as f:
        ti = f.read()
    sets = re.findall(r'\{%-?\s*set\s+type_tag_id\s*=\s*(.*?)\s*-?%\}', ti)
    if len(sets) != 2 or re.sub(r'\s+', '', sets[0]) != 't|tag_id':
        raise Unsupported('type_info.j2: type_tag_id is not set exactly twice (tag_id, then make_unique)')
    second = re.sub(r'\s+', '', sets[1])
    if True:
        mm = re.fullmatch(r'''\(type_tag_id~(["'])([-A-Za-z_]*)\1\)\|make_unique''', second)
        if not mm:
            raise Unsupported('type_info.j2: unrecognised nested id expression %s' % sets[1])
        sep = mm.group(2)
    return dashed, sep


def us_link_state(root: str) -> bool:
    """does type_info.j2 refrain from linking a type that is not listed (short name `_`, or the halves of a service named `_`)?
    Only the fixed shape (c1311cb) is accepted."""
    with open(os.path.join(root, 'type_info.j2'), encoding='utf-8') as f:
        ti = re.sub(r'\s+', '', f.read())
    want = ('{%ifnested%}{%setlink_name=t.full_namespaceift.has_parent_serviceelset.full_name%}{%iflink_name.split(".")[-1]!="_"%}'
            '<ahref="{{up}}{{t|url_from_type}}">{{t.full_name}}(v{{t.version[0]}}.{{t.version[1]}})</a>{%else%}'
            '{{t.full_name}}(v{{t.version[0]}}.{{t.version[1]}}){%endif%}{{attr_name}}{%else%}')
    if want in ti and ti.count('link_name') == 2:
        return True
    raise Unsupported('type_info.j2: unrecognised guard around the type link')


def ns_id_state(root: str) -> bool:
    """namespace ids: '-'-joined components + '--ns' (5a15038; the '_' scheme is no longer accepted),
    consistently in namespace_info.j2, sidebar.j2 and the selector in Namespace.j2"""
    def read(n):
        with open(os.path.join(root, n), encoding='utf-8') as f:
            return f.read()
    ni, sb, nsp = read('namespace_info.j2'), read('sidebar.j2'), read('Namespace.j2')
    old = '{{ t.full_name.replace(".", "_") }}'
    new = '{{ t.full_name.replace(".", "-") }}--ns'
    counts = (ni.count(old), sb.count(old), ni.count(new), sb.count(new))
    if counts == (0, 0, 4, 5) and 'querySelector("#{{ T.full_name.replace(".", "-") }}--ns")' in nsp:
        return True
    raise Unsupported('namespace ids are built in an unrecognised / inconsistent way %r' % (counts,))


def gen_html() -> typing.Tuple[bool, str]:
    out_path = os.path.join(gen.GEN_DIR, 'Gen_Html.v')
    head = (gen.HEADER % 'src/nunavut/lang/html/__init__.py, jinja/markupsafe/_native.py, jinja/environment.py, jinja/jinja2/utils.py, '
            'lang/html/templates/' + 'From Verif Require Import HtmlBase.\nOpen Scope N_scope.\n\n')
    try:
        html_mod = gen.parse_repo('src/nunavut/lang/html/__init__.py')
        ms = gen.parse_repo('src/nunavut/jinja/markupsafe/_native.py')
        envt = gen.parse_repo('src/nunavut/jinja/environment.py')
        utl = gen.parse_repo('src/nunavut/jinja/jinja2/utils.py')
        parts = [translate_escape(ms)]
        parts.append(translate_function(html_mod, 'filter_tag_id', 'filter_tag_id', {'instance': T_TINFO}, T_STR))
        parts.append(translate_function(html_mod, 'filter_url_from_type', 'filter_url_from_type', {'instance': T_TINFO}, T_STR))
        parts.append(translate_function(html_mod, 'filter_make_unique', 'filter_make_unique', {'base_token': T_STR}, T_UNGRET,
                                        ung=True, skip_params=('_',)))
        parts.append(translate_namespace_doc(html_mod))
        parts.append(translate_display_type(html_mod))
        parts.append(autoescape_data(envt, utl))
        parts.append('Definition links_up_prefix : bool := %s.  (* type_info.j2 prefixes type links with the page depth *)'
                     % ('true' if links_up_prefix(os.path.join(gen.REPO, 'src/nunavut/lang/html/templates')) else 'false'))
        dashed, sep = id_scheme(html_mod, os.path.join(gen.REPO, 'src/nunavut/lang/html/templates'))
        parts.append('Definition tag_id_dashed : bool := %s.  (* composite tag ids are name-components and version joined by - *)'
                     % ('true' if dashed else 'false'))
        parts.append('Definition nested_id_sep : str := %s.  (* type_info.j2: between the tag id and the nesting counter *)' % _s(sep))
        troot = os.path.join(gen.REPO, 'src/nunavut/lang/html/templates')
        parts.append('Definition links_skip_us : bool := %s.  (* type_info.j2 does not link types that are not listed (short name _) *)'
                     % ('true' if us_link_state(troot) else 'false'))
        parts.append('Definition ns_ids_dashed : bool := %s.  (* namespace ids are name components joined by - followed by --ns *)'
                     % ('true' if ns_id_state(troot) else 'false'))
        names, _old_sinks = template_data(os.path.join(gen.REPO, 'src/nunavut/lang/html/templates'))
        precise = doc_sink_flags(os.path.join(gen.REPO, 'src/nunavut/lang/html/templates'))
        parts.append('Definition html_template_names : list str := [\n  %s].' % ';\n  '.join('%s (* %s *)' % (_s(n), n) for n in names))
        # documentation sinks: (template, escaped?) -- the model's page builder takes one flag per template
        by_t: typing.Dict[str, typing.List[bool]] = {t: [v[0]] * v[1] for t, v in precise.items()}
        known = {'type_info.j2': 'docs_escaped_type_info', 'namespace_info.j2': 'docs_escaped_namespace_info',
                 'sidebar.j2': 'docs_escaped_sidebar', 'type_base.j2': 'docs_escaped_type_base'}
        for t in by_t:
            if t not in known:
                raise Unsupported('documentation text is emitted by a template the model does not know: %s' % t)
        for t, nm in known.items():
            if t not in by_t:
                raise Unsupported('template %s no longer emits documentation text where the model expects it' % t)
            parts.append('Definition %s : bool := %s.  (* %d sink(s) in %s *)' % (nm, 'true' if by_t[t][0] else 'false', len(by_t[t]), t))
    except (Unsupported, SyntaxError, OSError, ValueError) as ex:
        gen.write_if_changed(out_path, head + '(* translator failed closed: %s *)\n' % str(ex).replace('*)', '* )'))
        return False, 'T2 failed closed on the HTML filters: %s' % ex
    gen.write_if_changed(out_path, head + '\n\n'.join(parts) + '\n')
    return True, 'ok'


GENERATORS = {'html': gen_html}


# =============================================================================================================
# Template skeletons and output sites  ->  coq/theories/Generated/Gen_HtmlSkel.v   (generator 'htmlskel')
#
# Every *.j2 under lang/html/templates is lexed (Jinja segments), its literal data is run through an HTML state
# machine (text / inside a tag / raw-text element / comment) and the Jinja control structure is kept as a tree:
#   KOpen n | KClose n | KVoid n | KText | KSite i | KIf alternatives | KFor body | KCall key
# (key = "file" for a template included with {% include %}, "file:macro" for a macro).  Each `{{ expr }}` is parsed
# with a precedence-faithful expression parser (filters bind tighter than every operator, as in jinja2/parser.py),
# classified, and recorded with its template, line and HTML context.  Fail closed on anything not classified:
# control statements inside a tag / comment, statements other than macro/if/for/set/from-import/include, an output
# inside a comment or in an unquoted tag position, assets that contain the end tag of the raw-text element they are
# included into, expression syntax outside the supported grammar.
# =============================================================================================================
VOID_ELEMENTS = {'hr', 'input', 'br', 'meta', 'link', 'img', 'area', 'base', 'col', 'embed', 'source', 'track', 'wbr'}
RAW_ELEMENTS = {'script': 2, 'style': 3, 'title': 4, 'textarea': 4}
CTX_TEXT, CTX_ATTR = 0, 1
CLS = {'const': 0, 'numeric': 1, 'ident': 2, 'escaped': 3, 'markup': 4, 'dsdl_text': 8, 'unknown': 9}
ESC_FILTERS = {'e', 'escape', 'forceescape'}
IDENT_FILTERS = {'tag_id', 'url_from_type'}
NUM_FILTERS = {'extent', 'max_bit_length', 'length', 'count', 'int', 'float', 'round', 'abs'}
KEEP_FILTERS = {'lower', 'upper', 'trim', 'string', 'capitalize', 'title'}
IDENT_ATTRS = {'full_name', 'full_namespace', 'short_name', 'name', 'root_namespace', 'element_type'}
NUM_ATTRS = {'fixed_port_id', 'capacity', 'extent', 'major', 'minor'}
TOKEN_RE = re.compile(r'''\s*(?:(?P<str>'(?:[^'\\]|\\.)*'|"(?:[^"\\]|\\.)*")|(?P<num>\d+(?:\.\d+)?)|(?P<name>[A-Za-z_][A-Za-z0-9_]*)|'''
                      r'''(?P<op>==|!=|<=|>=|//|\*\*|[|.()\[\],+\-*/%<>=:~]))''')
KEYWORDS = {'if', 'else', 'or', 'and', 'not', 'is', 'in'}


def jtokens(src: str) -> typing.List[typing.Tuple[str, str]]:
    out, pos = [], 0
    src = src.strip()
    while pos < len(src):
        m = TOKEN_RE.match(src, pos)
        if not m or m.end() == pos:
            raise Unsupported('expression token at %r' % src[pos:pos + 20])
        pos = m.end()
        for k in ('str', 'num', 'name', 'op'):
            if m.group(k) is not None:
                out.append((k, m.group(k)))
                break
    return out


class JParser:
    """jinja2/parser.py precedence: cond < or < and < not < compare < +- < ~ < */ //% < ** < unary < postfix, filter, test"""

    def __init__(self, src: str):
        self.t = jtokens(src)
        self.i = 0

    def peek(self, k=0):
        return self.t[self.i + k] if self.i + k < len(self.t) else ('eof', '')

    def eat(self, kind=None, val=None):
        tk = self.peek()
        if (kind and tk[0] != kind) or (val is not None and tk[1] != val):
            raise Unsupported('expression syntax: expected %s %s, got %r' % (kind, val, tk))
        self.i += 1
        return tk

    def at(self, val):
        return self.peek()[1] == val and self.peek()[0] in ('op', 'name')

    def parse(self):
        e = self.cond()
        if self.peek()[0] != 'eof':
            raise Unsupported('expression syntax: trailing %r' % (self.peek(),))
        return e

    def cond(self):
        a = self.or_()
        if self.at('if'):
            self.eat()
            c = self.or_()
            b = None
            if self.at('else'):
                self.eat()
                b = self.cond()
            return ('cond', c, a, b)
        return a

    def or_(self):
        a = self.and_()
        while self.at('or'):
            self.eat()
            a = ('bool', 'or', a, self.and_())
        return a

    def and_(self):
        a = self.not_()
        while self.at('and'):
            self.eat()
            a = ('bool', 'and', a, self.not_())
        return a

    def not_(self):
        if self.at('not'):
            self.eat()
            return ('not', self.not_())
        return self.compare()

    def compare(self):
        a = self.math1()
        while True:
            if self.peek()[0] == 'op' and self.peek()[1] in ('==', '!=', '<', '<=', '>', '>='):
                self.eat()
                a = ('cmp', a, self.math1())
            elif self.at('in'):
                self.eat()
                a = ('cmp', a, self.math1())
            elif self.at('not') and self.peek(1)[1] == 'in':
                self.eat()
                self.eat()
                a = ('cmp', a, self.math1())
            else:
                return a

    def math1(self):
        a = self.concat()
        while self.peek()[0] == 'op' and self.peek()[1] in ('+', '-'):
            op = self.eat()[1]
            a = ('arith', op, a, self.concat())
        return a

    def concat(self):
        a = self.math2()
        while self.peek() == ('op', '~'):
            self.eat()
            a = ('arith', '~', a, self.math2())
        return a

    def math2(self):
        a = self.pow()
        while self.peek()[0] == 'op' and self.peek()[1] in ('*', '/', '//', '%'):
            op = self.eat()[1]
            a = ('arith', op, a, self.pow())
        return a

    def pow(self):
        a = self.unary()
        while self.peek() == ('op', '**'):
            self.eat()
            a = ('arith', '**', a, self.unary())
        return a

    def unary(self, with_filter=True):
        if self.peek()[0] == 'op' and self.peek()[1] in ('-', '+'):
            self.eat()
            node = ('neg', self.unary(False))
        else:
            node = self.primary()
        node = self.postfix(node)
        if with_filter:
            node = self.filters(node)
        return node

    def primary(self):
        k, v = self.peek()
        if k == 'str':
            self.eat()
            return ('const', ast.literal_eval(v))
        if k == 'num':
            self.eat()
            return ('const', float(v) if '.' in v else int(v))
        if k == 'name':
            if v in KEYWORDS:
                raise Unsupported('expression syntax: keyword %s' % v)
            self.eat()
            if v in ('true', 'True', 'false', 'False', 'none', 'None'):
                return ('const', 0)
            return ('name', v)
        if (k, v) == ('op', '('):
            self.eat()
            e = self.cond()
            self.eat('op', ')')
            return e
        raise Unsupported('expression syntax: primary %r' % ((k, v),))

    def args(self):
        pos, kw = [], {}
        self.eat('op', '(')
        while self.peek() != ('op', ')'):
            if self.peek()[0] == 'name' and self.peek(1) == ('op', '='):
                n = self.eat()[1]
                self.eat()
                kw[n] = self.cond()
            else:
                pos.append(self.cond())
            if self.peek() == ('op', ','):
                self.eat()
        self.eat('op', ')')
        return pos, kw

    def postfix(self, node):
        while True:
            if self.peek() == ('op', '.'):
                self.eat()
                node = ('attr', node, self.eat('name')[1])
            elif self.peek() == ('op', '['):
                self.eat()
                idx = self.cond()
                self.eat('op', ']')
                node = ('item', node, idx)
            elif self.peek() == ('op', '('):
                pos, kw = self.args()
                node = ('call', node, pos, kw)
            else:
                return node

    def filters(self, node):
        while True:
            if self.peek() == ('op', '|'):
                self.eat()
                name = self.eat('name')[1]
                while self.peek() == ('op', '.'):
                    self.eat()
                    name += '.' + self.eat('name')[1]
                pos, kw = ([], {})
                if self.peek() == ('op', '('):
                    pos, kw = self.args()
                node = ('filter', name, node, pos, kw)
            elif self.at('is'):
                self.eat()
                if self.at('not'):
                    self.eat()
                self.eat('name')
                if self.peek() == ('op', '('):
                    self.args()
                elif self.peek()[0] in ('str', 'num') or (self.peek()[0] == 'name' and self.peek()[1] not in KEYWORDS):
                    self.primary()
                node = ('test', node)
            else:
                return node


def jparse(src: str):
    return JParser(src).parse()


def _find_end(text: str, pos: int, end: str) -> int:
    """index of the closing delimiter of a Jinja tag starting (after the opener) at pos; quoted strings are skipped"""
    i = pos
    while i < len(text):
        c = text[i]
        if c in '"\'':
            j = i + 1
            while j < len(text) and text[j] != c:
                j += 2 if text[j] == '\\' else 1
            i = j + 1
            continue
        if text.startswith(end, i) or (text[i] == '-' and text.startswith(end, i + 1)):
            return i
        i += 1
    raise Unsupported('unterminated Jinja tag')


def jsegments(text: str):
    out, pos, line = [], 0, 1
    opener = re.compile(r'\{\{|\{%|\{#')
    while True:
        m = opener.search(text, pos)
        if not m:
            if pos < len(text):
                out.append(('data', text[pos:], line))
            return out
        if m.start() > pos:
            out.append(('data', text[pos:m.start()], line))
            line += text.count('\n', pos, m.start())
        kind = {'{{': ('out', '}}'), '{%': ('stmt', '%}'), '{#': ('comment', '#}')}[m.group(0)]
        if kind[0] == 'comment':
            j = text.find('#}', m.end())
            if j < 0:
                raise Unsupported('unterminated Jinja comment')
            endpos = j + 2
            body = ''
        else:
            j = _find_end(text, m.end(), kind[1])
            body = text[m.end():j].strip('-').strip() if text[m.end():j][:1] == '-' else text[m.end():j].strip()
            if body.startswith('+'):
                body = body[1:].strip()
            endpos = j + (3 if text[j] == '-' else 2)
        out.append((kind[0], body, line))
        line += text.count('\n', m.start(), endpos)
        pos = endpos


class TemplateScan:
    def __init__(self, root: str, rel: str, sites: list):
        self.root, self.rel, self.sites = root, rel, sites
        self.mode = 'text'            # text | tag | raw | comment | decl
        self.tag = None               # dict while inside a tag
        self.raw = None
        self.frames = [{'kind': 'top', 'nodes': []}]
        self.macros: typing.Dict[str, dict] = {}
        self.imports: typing.Dict[str, str] = {}
        self.sets: typing.Dict[str, list] = {}
        self.outs: typing.List[dict] = []
        self.includes: typing.List[tuple] = []
        self.loopvars: typing.Dict[str, list] = {}
        self.static_ids: typing.List[str] = []
        self.cur_macro: typing.Optional[str] = None

    def guards(self) -> typing.List[typing.Tuple[int, str]]:
        """the control statements enclosing the current position inside the current macro / template:
        (0, loop header) | (1, if condition) | (2, 'c0 / c1' for an elif) | (3, 'c0 / ... / else')"""
        g = []
        for fr in self.frames[1:]:
            if fr['kind'] == 'for':
                g.append((0, ' '.join(fr['text'].split())))
            elif fr['kind'] == 'if':
                n = len(fr['alts']) - 1
                g.append((1 if n == 0 else (3 if fr['else'] else 2), ' / '.join(' '.join(c.split()) for c in fr['conds'][:n + 1])))
        return g

    # ---- skeleton nodes ----
    def emit(self, node):
        nodes = self.frames[-1]['nodes'] if self.frames[-1]['kind'] != 'if' else self.frames[-1]['alts'][-1]
        if node == ('text',) and nodes and nodes[-1] == ('text',):
            return
        nodes.append(node)

    # ---- literal data through the HTML state machine ----
    def data(self, s: str):
        i, n = 0, len(s)
        while i < n:
            if self.mode == 'text':
                j = s.find('<', i)
                if j < 0:
                    if s[i:].strip():
                        self.emit(('text',))
                    return
                if s[i:j].strip():
                    self.emit(('text',))
                rest = s[j + 1:]
                if rest == '' or rest == '/' or (rest[:1] == '!' and len(rest) < 3):
                    raise Unsupported('%s: literal data ends inside "<": cannot classify' % self.rel)
                if rest.startswith('!--'):
                    self.mode = 'comment'
                    i = j + 4
                elif rest[0].isalpha() and rest[0].isascii():
                    self.mode, self.tag = 'tag', {'closing': False, 'name': '', 'named': False, 'quote': None, 'slash': False}
                    i = j + 1
                elif rest[0] == '/' and rest[1:2].isalpha():
                    self.mode, self.tag = 'tag', {'closing': True, 'name': '', 'named': False, 'quote': None, 'slash': False}
                    i = j + 2
                elif rest[0] in '!?/':
                    self.mode = 'decl'
                    i = j + 1
                else:
                    self.emit(('text',))
                    i = j + 1
            elif self.mode == 'comment':
                j = s.find('-->', i)
                if j < 0:
                    return
                self.mode = 'text'
                i = j + 3
            elif self.mode == 'decl':
                j = s.find('>', i)
                if j < 0:
                    return
                self.mode = 'text'
                i = j + 1
            elif self.mode == 'raw':
                m = re.compile(r'</%s(?=[\s>/])' % self.raw, re.I).search(s, i)
                if not m:
                    return
                self.mode, self.tag = 'tag', {'closing': True, 'name': '', 'named': False, 'quote': None, 'slash': False}
                self.raw = None
                i = m.start() + 2
            else:  # tag
                t = self.tag
                c = s[i]
                i += 1
                t['raw'] = t.get('raw', '') + c
                if not t['named']:
                    if c.isalnum() or c in '-:':
                        t['name'] += c
                        continue
                    t['named'] = True
                if t['quote']:
                    if c == t['quote']:
                        t['quote'] = None
                    continue
                if c in '"\'':
                    t['quote'] = c
                elif c == '/':
                    t['slash'] = True
                elif c == '>':
                    self.end_tag()
                elif not c.isspace():
                    t['slash'] = False

    def end_tag(self):
        t = self.tag
        name = t['name'].lower()
        for m in re.finditer(r'''(?<![-\w])id\s*=\s*(["'])(.*?)\1''', t.get('raw', ''), re.S):
            if '\x00' not in m.group(2):
                self.static_ids.append(m.group(2))
        self.mode, self.tag = 'text', None
        if not name:
            raise Unsupported('%s: tag without a name' % self.rel)
        if t['closing']:
            if name in VOID_ELEMENTS:
                raise Unsupported('%s: end tag of void element %s' % (self.rel, name))
            self.emit(('close', name))
        elif name in VOID_ELEMENTS:
            self.emit(('void', name))
        else:
            if t['slash']:
                raise Unsupported('%s: self-closing non-void element %s' % (self.rel, name))
            self.emit(('open', name))
            if name in RAW_ELEMENTS:
                self.mode, self.raw = 'raw', name

    # ---- Jinja ----
    def need_text(self, what: str):
        if self.mode != 'text':
            raise Unsupported('%s: {%% %s %%} inside %s: cannot classify' % (self.rel, what, self.mode))

    def stmt(self, body: str, line: int):
        m = re.match(r'(\w+)\s*(.*)$', body, re.S)
        if not m:
            raise Unsupported('%s:%d: empty statement' % (self.rel, line))
        kw, rest = m.group(1), m.group(2).strip()
        if kw == 'include':
            mm = re.fullmatch(r'''(['"])([^'"]+)\1''', rest)
            if not mm:
                raise Unsupported('%s:%d: include of a non-constant name' % (self.rel, line))
            name = mm.group(2)
            if name.endswith('.j2'):
                self.need_text('include')
                self.emit(('call', name))
                self.includes.append((self.cur_macro, name, self.guards()))
            else:
                if self.mode != 'raw' or self.raw not in ('script', 'style'):
                    raise Unsupported('%s:%d: asset %s included outside <script>/<style>' % (self.rel, line, name))
                with open(os.path.join(self.root, name), encoding='utf-8', errors='replace') as f:
                    asset = f.read()
                if re.search(r'</%s' % self.raw, asset, re.I):
                    raise Unsupported('%s:%d: asset %s contains </%s' % (self.rel, line, name, self.raw))
                if re.search(r'\{\{|\{%|\{#', asset):
                    # {% include %} renders the asset as a Jinja template: it would have output sites / statements of its own
                    raise Unsupported('%s:%d: asset %s contains Jinja syntax ({{ {%% or {#): it is a template, not raw text' % (self.rel, line, name))
                self.emit(('text',))
            return
        if kw == 'set':
            mm = re.match(r'([A-Za-z_]\w*)\s*=\s*(.*)$', rest, re.S)
            if not mm:
                raise Unsupported('%s:%d: block or tuple form of set' % (self.rel, line))
            if self.mode not in ('text',):
                raise Unsupported('%s:%d: set inside %s' % (self.rel, line, self.mode))
            self.sets.setdefault(mm.group(1), []).append((self.cur_macro, jparse(mm.group(2))))
            return
        if kw == 'from':
            mm = re.fullmatch(r'''(['"])([^'"]+)\1\s+import\s+(.*?)(\s+with(out)?\s+context)?''', rest, re.S)
            if not mm:
                raise Unsupported('%s:%d: from-import form' % (self.rel, line))
            for nm in mm.group(3).split(','):
                nm = nm.strip()
                if not re.fullmatch(r'[A-Za-z_]\w*', nm):
                    raise Unsupported('%s:%d: import alias' % (self.rel, line))
                self.imports[nm] = '%s:%s' % (mm.group(2), nm)
            return
        self.need_text(kw)
        if kw == 'macro':
            mm = re.fullmatch(r'([A-Za-z_]\w*)\s*(\(.*\))', rest, re.S)
            if not mm or len(self.frames) != 1:
                raise Unsupported('%s:%d: macro form / nested macro' % (self.rel, line))
            p = JParser('f' + mm.group(2))
            call = p.parse()
            params = []
            for a in call[2]:
                if a[0] != 'name':
                    raise Unsupported('%s:%d: macro parameter' % (self.rel, line))
                params.append((a[1], None))
            for k, v in call[3].items():
                params.append((k, v))
            self.cur_macro = mm.group(1)
            self.frames.append({'kind': 'macro', 'name': mm.group(1), 'params': params, 'nodes': []})
        elif kw == 'endmacro':
            fr = self.frames.pop()
            if fr['kind'] != 'macro':
                raise Unsupported('%s:%d: endmacro' % (self.rel, line))
            self.macros[fr['name']] = fr
            self.cur_macro = None
        elif kw == 'if':
            self.frames.append({'kind': 'if', 'alts': [[]], 'else': False, 'conds': [rest]})
        elif kw in ('elif', 'else'):
            fr = self.frames[-1]
            if fr['kind'] != 'if' or fr['else']:
                raise Unsupported('%s:%d: %s outside if (for-else is not supported)' % (self.rel, line, kw))
            fr['else'] = kw == 'else'
            fr['conds'].append(rest if kw == 'elif' else 'else')
            fr['alts'].append([])
        elif kw == 'endif':
            fr = self.frames.pop()
            if fr['kind'] != 'if':
                raise Unsupported('%s:%d: endif' % (self.rel, line))
            if not fr['else']:
                fr['alts'].append([])
            self.emit(('if', fr['alts']))
        elif kw == 'for':
            if ' recursive' in rest:
                raise Unsupported('%s:%d: recursive loop' % (self.rel, line))
            mm = re.match(r'(.+?)\s+in\s+(.*)$', rest, re.S)
            if not mm:
                raise Unsupported('%s:%d: for header %r' % (self.rel, line, rest))
            targets = [x.strip() for x in mm.group(1).split(',')]
            if not all(re.fullmatch(r'[A-Za-z_]\w*', x) for x in targets):
                raise Unsupported('%s:%d: loop target %r is not a (tuple of) plain name(s)' % (self.rel, line, mm.group(1)))
            if ' if ' in mm.group(2):
                raise Unsupported('%s:%d: filtered loop' % (self.rel, line))
            jparse(mm.group(2))    # the iterable must be within the expression grammar
            for x in targets + ['loop']:
                # a loop target is a BINDING of unknown value (elements of an arbitrary iterable); it shadows sets / parameters
                self.loopvars.setdefault(x, []).append(self.cur_macro)
            self.frames.append({'kind': 'for', 'nodes': [], 'text': rest})
        elif kw == 'endfor':
            fr = self.frames.pop()
            if fr['kind'] != 'for':
                raise Unsupported('%s:%d: endfor' % (self.rel, line))
            self.emit(('for', fr['nodes']))
        else:
            raise Unsupported('%s:%d: statement {%% %s %%} is outside the supported subset' % (self.rel, line, kw))

    def out(self, body: str, line: int):
        e = jparse(body)
        if self.mode == 'text':
            ctx = CTX_TEXT
        elif self.mode == 'tag':
            if not self.tag['quote']:
                raise Unsupported('%s:%d: output in an unquoted tag position' % (self.rel, line))
            self.tag['raw'] = self.tag.get('raw', '') + '\x00'
            ctx = CTX_ATTR
        elif self.mode == 'raw':
            ctx = RAW_ELEMENTS[self.raw]
        else:
            raise Unsupported('%s:%d: output inside %s' % (self.rel, line, self.mode))
        rec = {'rel': self.rel, 'line': line, 'ctx': ctx, 'expr': e, 'src': ' '.join(body.split()), 'macro': self.cur_macro,
               'guards': self.guards()}
        self.outs.append(rec)
        if ctx == CTX_TEXT:
            self.emit(('out', rec))

    def run(self):
        with open(os.path.join(self.root, self.rel), encoding='utf-8') as f:
            text = f.read()
        for kind, body, line in jsegments(text):
            if kind == 'data':
                self.data(body)
            elif kind == 'stmt':
                self.stmt(body, line)
            elif kind == 'out':
                self.out(body, line)
        if len(self.frames) != 1 or self.mode != 'text':
            raise Unsupported('%s: ends inside %s / an open block' % (self.rel, self.mode))
        return self


def _safe_const(v) -> bool:
    return not isinstance(v, str) or not any(c in v for c in '<>&"\'')


class Classifier:
    def __init__(self, scans: typing.Dict[str, TemplateScan]):
        self.scans = scans
        self.calls: typing.Dict[str, list] = {}     # macro key -> [(caller scan, caller macro, pos args, kw args)]
        self.busy: set = set()
        for sc in scans.values():
            for o in sc.outs:
                self._collect(sc, o['macro'], o['expr'])

    def key_of(self, sc: TemplateScan, name: str) -> typing.Optional[str]:
        if name in sc.macros:
            return '%s:%s' % (sc.rel, name)
        return sc.imports.get(name)

    def _collect(self, sc, macro, e):
        if not isinstance(e, tuple):
            return
        if e[0] == 'call' and e[1][0] == 'name' and self.key_of(sc, e[1][1]):
            self.calls.setdefault(self.key_of(sc, e[1][1]), []).append((sc, macro, e[2], e[3]))
        for x in e[1:]:
            if isinstance(x, tuple):
                self._collect(sc, macro, x)
            elif isinstance(x, list):
                for y in x:
                    self._collect(sc, macro, y)
            elif isinstance(x, dict):
                for y in x.values():
                    self._collect(sc, macro, y)

    @staticmethod
    def join(*cs) -> str:
        order = ['const', 'numeric', 'ident', 'escaped', 'markup', 'dsdl_text', 'unknown']
        return max(cs, key=order.index) if cs else 'const'

    def name_cls(self, sc: TemplateScan, macro, name: str) -> str:
        tok = (sc.rel, macro, name)
        if tok in self.busy:
            return 'const'
        self.busy.add(tok)
        try:
            parts = []
            if macro and name in dict(sc.macros[macro]['params']) if macro in sc.macros else False:
                params = sc.macros[macro]['params']
                idx = [p for p, _ in params].index(name)
                dflt = params[idx][1]
                if dflt is not None:
                    parts.append(self.cls(sc, macro, dflt))
                for csc, cmacro, pos, kw in self.calls.get('%s:%s' % (sc.rel, macro), []):
                    if idx < len(pos):
                        parts.append(self.cls(csc, cmacro, pos[idx]))
                    elif name in kw:
                        parts.append(self.cls(csc, cmacro, kw[name]))
                    elif dflt is None:
                        parts.append('unknown')
            for m2, rhs in sc.sets.get(name, []):
                if m2 == macro:
                    parts.append(self.cls(sc, macro, rhs))
            if macro in sc.loopvars.get(name, []):
                parts.append('unknown')
            if not parts:
                return 'ident' if name == 'T' else 'unknown'
            return self.join(*parts)
        finally:
            self.busy.discard(tok)

    def cls(self, sc: TemplateScan, macro, e) -> str:
        k = e[0]
        if k == 'const':
            return ('numeric' if not isinstance(e[1], str) else 'const') if _safe_const(e[1]) else 'unknown'
        if k == 'name':
            return self.name_cls(sc, macro, e[1])
        if k == 'cond':
            return self.join(self.cls(sc, macro, e[2]), self.cls(sc, macro, e[3]) if e[3] is not None else 'const')
        if k == 'bool':
            return self.join(self.cls(sc, macro, e[2]), self.cls(sc, macro, e[3]))
        if k in ('not', 'cmp', 'test'):
            return 'const'
        if k == 'neg':
            return self.join('numeric', self.cls(sc, macro, e[1]))
        if k == 'arith':
            return self.join('numeric' if e[1] not in ('~', '*', '+') else 'const', self.cls(sc, macro, e[2]), self.cls(sc, macro, e[3]))
        if k == 'attr':
            if e[2] == 'doc':
                return 'dsdl_text'
            if e[2] in IDENT_ATTRS:
                return 'ident'
            if e[2] in NUM_ATTRS:
                return 'numeric'
            return 'unknown'
        if k == 'item':
            if e[1][0] == 'attr' and e[1][2] == 'version' and e[2][0] == 'const':
                return 'numeric'
            return 'unknown'
        if k == 'call':
            f = e[1]
            if f[0] == 'attr' and f[2] == 'replace' and all(a[0] == 'const' and _safe_const(a[1]) for a in e[2]) and not e[3]:
                return self.cls(sc, macro, f[1])
            if f[0] == 'attr' and f[2] in ('count', 'index', 'find'):
                return 'numeric'
            return 'unknown'
        if k == 'filter':
            name = e[1]
            if name in ESC_FILTERS or name == 'make_unique':
                return 'escaped'
            if name in IDENT_FILTERS:
                return 'ident'
            if name in NUM_FILTERS:
                return 'numeric'
            if name == 'display_type':
                return 'markup'
            if name == 'namespace_doc':
                return 'dsdl_text'
            if name in KEEP_FILTERS or name == 'safe':
                return self.cls(sc, macro, e[2])
            return 'unknown'
        return 'unknown'

    def has(self, sc: TemplateScan, macro, e, pred, seen=None) -> bool:
        """does `pred` hold of a node anywhere inside e, looking through variables ({% set %}, macro parameters)?"""
        seen = set() if seen is None else seen
        if not isinstance(e, tuple):
            return False
        if pred(e):
            return True
        if e[0] == 'name':
            tok = (sc.rel, macro, e[1])
            if tok in seen:
                return False
            seen.add(tok)
            for m2, rhs in sc.sets.get(e[1], []):
                if m2 == macro and self.has(sc, macro, rhs, pred, seen):
                    return True
            if macro in sc.macros:
                params = sc.macros[macro]['params']
                names = [p for p, _ in params]
                if e[1] in names:
                    idx = names.index(e[1])
                    if params[idx][1] is not None and self.has(sc, macro, params[idx][1], pred, seen):
                        return True
                    for csc, cmacro, pos, kw in self.calls.get('%s:%s' % (sc.rel, macro), []):
                        arg = pos[idx] if idx < len(pos) else kw.get(e[1])
                        if arg is not None and self.has(csc, cmacro, arg, pred, seen):
                            return True
            return False
        for x in e[1:]:
            if isinstance(x, tuple) and self.has(sc, macro, x, pred, seen):
                return True
            if isinstance(x, list) and any(self.has(sc, macro, y, pred, seen) for y in x):
                return True
            if isinstance(x, dict) and any(self.has(sc, macro, y, pred, seen) for y in x.values()):
                return True
        return False

    def has_doc(self, sc, macro, e) -> bool:
        return self.has(sc, macro, e, lambda n: (n[0] == 'attr' and n[2] == 'doc') or (n[0] == 'filter' and n[1] == 'namespace_doc'))

    def has_safe(self, sc, macro, e) -> bool:
        return self.has(sc, macro, e, lambda n: n[0] == 'filter' and n[1] == 'safe')


def _jexpr(e) -> str:
    """parsed Jinja expression -> Coq term of type jexpr (Gen/HtmlSkelBase.v); anything outside the modelled shapes is JOther"""
    k = e[0]
    if k == 'const':
        return 'JStr %s' % _s(e[1]) if isinstance(e[1], str) else 'JNum'
    if k == 'name':
        return 'JName %s' % _s(e[1])
    if k == 'cond':
        return 'JCond (%s) (%s)' % (_jexpr(e[2]), _jexpr(e[3]) if e[3] is not None else 'JStr []')
    if k == 'bool':
        return 'JOr (%s) (%s)' % (_jexpr(e[2]), _jexpr(e[3]))
    if k in ('not', 'cmp', 'test'):
        return 'JBoolean'
    if k == 'neg':
        return 'JArith (%s) JNum' % _jexpr(e[1])
    if k == 'arith':
        a, b = _jexpr(e[2]), _jexpr(e[3])
        if e[1] in ('~', '+'):
            return 'JCat (%s) (%s)' % (a, b)
        if e[1] == '*':
            return 'JRepeat (%s) (%s)' % (a, b)
        return 'JArith (%s) (%s)' % (a, b)
    if k == 'attr':
        return 'JAttr (%s) %s' % (_jexpr(e[1]), _s(e[2]))
    if k == 'item':
        if e[1][0] == 'attr' and e[1][2] == 'version' and e[2][0] == 'const' and not isinstance(e[2][1], str):
            return 'JItemVersion (%s)' % _jexpr(e[1][1])
        return 'JOther'
    if k == 'call':
        f = e[1]
        if f[0] == 'attr' and f[2] == 'replace' and len(e[2]) == 2 and not e[3] and all(a[0] == 'const' and isinstance(a[1], str) for a in e[2]) \
                and len(e[2][0][1]) == 1:
            return 'JReplace (%s) %d %s' % (_jexpr(f[1]), ord(e[2][0][1]), _s(e[2][1][1]))
        if f[0] == 'attr' and f[2] in ('count', 'index', 'find'):
            return 'JCount (%s)' % _jexpr(f[1])
        return 'JOther'
    if k == 'filter':
        if e[3] or e[4]:
            return 'JOther'
        return 'JFilter %s (%s)' % (_s(e[1]), _jexpr(e[2]))
    return 'JOther'


def _scope(rel: str, macro) -> str:
    return '%s:%s' % (rel, macro) if macro else rel


def bindings_and_certificate(rels, scans, cl: Classifier):
    """every way a template variable gets a value: {% set %}, parameter defaults, arguments at every call site;
    plus the class the Python classifier claims for each variable (a certificate the Coq side checks, not trusts)"""
    binds, cert = [], {}
    for rel in rels:
        sc = scans[rel]
        for name, lst in sc.sets.items():
            for macro, rhs in lst:
                binds.append((_scope(rel, macro), name, _scope(rel, macro), rhs))
                cert[(_scope(rel, macro), name)] = cl.name_cls(sc, macro, name)
        for name, macros in sc.loopvars.items():
            for macro in set(macros):
                binds.append((_scope(rel, macro), name, _scope(rel, macro), ('other',)))
                cert[(_scope(rel, macro), name)] = cl.name_cls(sc, macro, name)
        for mname, fr in sc.macros.items():
            key = '%s:%s' % (rel, mname)
            names = [p for p, _ in fr['params']]
            for idx, (pn, dflt) in enumerate(fr['params']):
                if dflt is not None:
                    binds.append((key, pn, key, dflt))
                for csc, cmacro, pos, kw in cl.calls.get(key, []):
                    arg = pos[idx] if idx < len(pos) else kw.get(pn)
                    if arg is not None:
                        binds.append((key, pn, _scope(csc.rel, cmacro), arg))
                    elif dflt is None:
                        binds.append((key, pn, key, ('other',)))
                cert[(key, pn)] = cl.name_cls(sc, mname, pn)
    return binds, cert


def _coq_skl(nodes: list, sites: list, sc: TemplateScan, cl: Classifier) -> str:
    out = 'SNil'
    for nd in reversed(nodes):
        k = nd[0]
        if k == 'open':
            h = 'KOpen %s' % _s(nd[1])
        elif k == 'close':
            h = 'KClose %s' % _s(nd[1])
        elif k == 'void':
            h = 'KVoid %s' % _s(nd[1])
        elif k == 'text':
            h = 'KText'
        elif k == 'call':
            h = 'KCall %s' % _s(nd[1])
        elif k == 'for':
            h = 'KFor (%s)' % _coq_skl(nd[1], sites, sc, cl)
        elif k == 'if':
            alts = 'ANone'
            for a in reversed(nd[1]):
                alts = 'AAlt (%s) (%s)' % (_coq_skl(a, sites, sc, cl), alts)
            h = 'KIf (%s)' % alts
        elif k == 'out':
            rec = nd[1]
            e = rec['expr']
            key = cl.key_of(sc, e[1][1]) if e[0] == 'call' and e[1][0] == 'name' else None
            if key:
                h = 'KCall %s' % _s(key)
            else:
                h = 'KSite %d' % rec['index']
        else:
            raise Unsupported('node %r' % (nd,))
        out = 'SCons (%s) (%s)' % (h, out)
    return out


def scan_templates(root: str):
    """(template names, scans, classifier, output-site table, call-guard table)"""
    rels = []
    for d, _, fs in os.walk(root):
        for f in sorted(fs):
            if f.endswith('.j2'):
                rels.append(os.path.relpath(os.path.join(d, f), root).replace(os.sep, '/'))
    rels.sort()
    sites: list = []
    scans = {rel: TemplateScan(root, rel, sites).run() for rel in rels}
    cl = Classifier(scans)
    table, calls = [], []
    for rel in rels:
        sc = scans[rel]
        for mac, name, g in sc.includes:
            calls.append(('%s:%s' % (rel, mac) if mac else rel, name, g))
        for o in sc.outs:
            e = o['expr']
            key = cl.key_of(sc, e[1][1]) if e[0] == 'call' and e[1][0] == 'name' else None
            if key:
                if o['ctx'] != CTX_TEXT:
                    raise Unsupported('%s:%d: macro call outside a text position' % (rel, o['line']))
                calls.append(('%s:%s' % (rel, o['macro']) if o['macro'] else rel, key, o['guards']))
                continue
            o['index'] = len(table)
            o['cls'] = cl.cls(sc, o['macro'], e)
            o['doc'] = cl.has_doc(sc, o['macro'], e)
            o['safe'] = cl.has_safe(sc, o['macro'], e)
            table.append(o)
    return rels, scans, cl, table, calls


def doc_sink_flags(root: str) -> typing.Dict[str, typing.Tuple[bool, int]]:
    """per template: (every output that can carry documentation text is escaped AS A WHOLE, number of such outputs).
    Documentation text = `.doc` / `namespace_doc` anywhere in the expression, also through {% set %} variables and macro
    arguments; escaped as a whole = the parse with Jinja precedence ends in e / escape / forceescape (possibly followed by
    value-preserving filters)."""
    rels, scans, cl, table, _ = scan_templates(root)
    by_t: typing.Dict[str, typing.List[bool]] = {}
    for o in table:
        if o['doc']:
            by_t.setdefault(o['rel'], []).append(o['cls'] == 'escaped')   # `x | e | safe` is escaped; `safe` only voids the autoescape shortcut
    out = {}
    for t, flags in by_t.items():
        if len(set(flags)) != 1:
            raise Unsupported('template %s escapes some documentation outputs as a whole and others not (model has one flag per template)' % t)
        out[t] = (flags[0], len(flags))
    return out


def gen_htmlskel() -> typing.Tuple[bool, str]:
    out_path = os.path.join(gen.GEN_DIR, 'Gen_HtmlSkel.v')
    head = (gen.HEADER % 'src/nunavut/lang/html/templates/**/*.j2 (and the assets they include)'
            + 'From Verif Require Import HtmlSkelBase.\nOpen Scope N_scope.\n\n')
    root = os.path.join(gen.REPO, 'src/nunavut/lang/html/templates')
    try:
        rels, scans, cl, table, calls = scan_templates(root)
        entries = []
        for rel in rels:
            sc = scans[rel]
            entries.append((rel, _coq_skl(sc.frames[0]['nodes'], table, sc, cl)))
            for name, fr in sc.macros.items():
                entries.append(('%s:%s' % (rel, name), _coq_skl(fr['nodes'], table, sc, cl)))
        # every call target must be in the table
        keys = {k for k, _ in entries}
        for k, body in entries:
            for m in re.finditer(r'KCall \(\[([0-9; ]*)\]%N : str\)', body):
                tgt = ''.join(chr(int(x)) for x in m.group(1).split(';') if x.strip())
                if tgt not in keys:
                    raise Unsupported('%s calls/includes %s which is not a scanned template or macro' % (k, tgt))
        parts = ['Definition html_sites : list site := [\n  %s].' % ';\n  '.join(
            '{| st_template := %s; st_line := %d; st_ctx := %d; st_cls := %d; st_safe_filter := %s;\n     st_scope := %s; st_expr := %s |} (* %d %s:%d %s : %s *)'
            % (_s(o['rel']), o['line'], o['ctx'], CLS[o['cls']], 'true' if o['safe'] else 'false', _s(_scope(o['rel'], o['macro'])), _jexpr(o['expr']),
               o['index'], o['rel'], o['line'], o['cls'],
               o['src'].replace('*)', '* )').replace('(*', '( *').replace('"', "''"))
            for o in table)]
        parts.append('Definition html_skeletons : list (str * skl) := [\n  %s].' % ';\n  '.join(
            '(%s (* %s *),\n   %s)' % (_s(k), k, body) for k, body in entries))
        parts.append('Definition html_entry_templates : list str := [%s].' % '; '.join(
            _s(r) for r in rels if r[:1].isupper()))
        statics = [(rel, x) for rel in rels for x in scans[rel].static_ids]
        parts.append('Definition html_static_ids : list (str * str) := [\n  %s].' % ';\n  '.join(
            '(%s, %s) (* %s: id=%s *)' % (_s(a), _s(x), a, x) for a, x in statics))
        binds, cert = bindings_and_certificate(rels, scans, cl)
        parts.append('Definition html_bindings : list (str * str * str * jexpr) := [\n  %s].' % ';\n  '.join(
            '(%s, %s, %s, %s) (* %s.%s <- [%s] *)' % (_s(a), _s(x), _s(b), _jexpr(rhs), a, x, b) for a, x, b, rhs in binds))
        parts.append('Definition html_var_cls : list (str * str * N) := [\n  %s].' % ';\n  '.join(
            '(%s, %s, %d) (* %s.%s : %s *)' % (_s(a), _s(x), CLS[c], a, x, c) for (a, x), c in sorted(cert.items())))
        # inlining structure: every macro call / include with the loops and conditions that guard it
        parts.append('Definition html_call_guards : list (str * str * list (N * str)) := [\n  %s].' % ';\n  '.join(
            '(%s, %s, [%s]) (* %s -> %s under %s *)' % (_s(a), _s(b), '; '.join('(%d, %s)' % (k, _s(t)) for k, t in g), a, b,
                                                      ' ; '.join('%s %s' % (['for', 'if', 'elif', 'else'][k], t) for k, t in g).replace('*)', '* )').replace('(*', '( *').replace('"', "''"))
            for a, b, g in calls))
    except (Unsupported, SyntaxError, OSError, ValueError, KeyError, IndexError) as ex:
        gen.write_if_changed(out_path, head + '(* translator failed closed: %s *)\n' % str(ex).replace('*)', '* )'))
        return False, 'template skeleton scanner failed closed: %s' % ex
    gen.write_if_changed(out_path, head + '\n\n'.join(parts) + '\n')
    return True, 'ok (%d templates, %d skeletons, %d output sites)' % (len(rels), len(entries), len(table))


GENERATORS['htmlskel'] = gen_htmlskel
