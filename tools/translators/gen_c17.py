"""C17 translator -> coq/theories/Generated/Gen_OptGuard.v

T2 (code): `filter_to_static_assertion_value` (src/nunavut/lang/c/__init__.py) is translated from its
`ast`.  Supported shape (anything else fails closed): a docstring, then a chain of
`if isinstance(obj, bool|int|str): [from zlib import crc32] return <e>` statements and a final `raise`;
<e> is `c1 if obj else c0`, an int constant, `obj`, or `crc32(bytearray(obj, "utf-8"))` /
`crc32(obj.encode("utf-8"))`.  The isinstance tests are translated in the order they are written (bool is
a subclass of int in Python and in the model, Gen/OptGuard.v is_int).

T1 (data): option keys and default values of nunavut.lang.c / nunavut.lang.cpp in lang/properties.yaml, the
documented value domain of every option (see `build_domain`), the symbol names rendered for every key by
the real `macrofy` / `id` filters (subprocess against the working tree), the examples of the filter's
docstring, and -- with a small fail-closed scanner -- the structure of the four template loops that make up
the guard: what is iterated, which keys are skipped, the expression that renders the symbol, the expression
that renders the number, and whether the loop is wrapped in `if not nunavut.support.omit`.
"""
from __future__ import annotations

import ast
import json
import os
import re
import subprocess
import typing

from . import gen
from .pyfun_tr import Unsupported, find_function

OUT = os.path.join(gen.GEN_DIR, 'Gen_OptGuard.v')
SOURCES = ('src/nunavut/lang/c/__init__.py, lang/properties.yaml, cli/__init__.py, lang/cpp/__init__.py, '
           'lang/c/templates/base.j2, lang/c/support/serialization.j2, lang/cpp/templates/base.j2, lang/cpp/support/serialization.j2')
HEAD = gen.HEADER % SOURCES + 'From Verif Require Import Str Crc32 OptGuard.\nFrom Coq Require Import ZArith.\nOpen Scope N_scope.\n\n'

TEMPLATES = {
    ('c', 'type'): 'src/nunavut/lang/c/templates/base.j2',
    ('c', 'support'): 'src/nunavut/lang/c/support/serialization.j2',
    ('cpp', 'type'): 'src/nunavut/lang/cpp/templates/base.j2',
    ('cpp', 'support'): 'src/nunavut/lang/cpp/support/serialization.j2',
}
FILTER = 'to_static_assertion_value'
LOCAL_INCLUDE = '"verif_%s.hpp"'             # value of an *_include option: a quoted include path
SPECIAL_SUFFIX = ' /* 100% "q" \\a */'       # harmless in code (a comment), hostile inside a string literal
MESSAGE = 'different language options'


def coq_str(s: str) -> str:
    note = (' (*%s*)' % s) if s and re.fullmatch(r'[\w+.<>:,{}()\[\] |"/=!-]*', s) and '*)' not in s and '(*' not in s else ''
    return '([%s]%%N : list N)%s' % ('; '.join(str(ord(c)) for c in s), note)


def coq_val(v: typing.Any) -> str:
    if isinstance(v, bool):
        return 'VBool %s' % ('true' if v else 'false')
    if isinstance(v, int):
        return 'VInt (%d)%%Z' % v
    if isinstance(v, str):
        return 'VStr %s' % coq_str(v)
    return 'VOther'


# ---------------------------------------------------------------------------------------------
# T2: filter_to_static_assertion_value
# ---------------------------------------------------------------------------------------------

def _is_name(e: ast.AST, n: str) -> bool:
    return isinstance(e, ast.Name) and e.id == n


def _tr_return(e: ast.AST, obj: str, crc_imported: bool) -> str:
    if isinstance(e, ast.IfExp) and _is_name(e.test, obj) and all(
            isinstance(x, ast.Constant) and type(x.value) is int for x in (e.body, e.orelse)):
        return 'Some (if truthy %s then %d else %d)%%Z' % (obj, e.body.value, e.orelse.value)
    if isinstance(e, ast.Constant) and type(e.value) is int:
        return 'Some (%d)%%Z' % e.value
    if _is_name(e, obj):
        return 'as_int %s' % obj
    if isinstance(e, ast.Call) and _is_name(e.func, 'crc32') and len(e.args) == 1 and not e.keywords:
        if not crc_imported:
            raise Unsupported('crc32 is not `from zlib import crc32`')
        a = e.args[0]
        utf = lambda c: isinstance(c, ast.Constant) and isinstance(c.value, str) and c.value.lower().replace('_', '-') in ('utf-8', 'utf8')
        if (isinstance(a, ast.Call) and isinstance(a.func, ast.Name) and a.func.id in ('bytearray', 'bytes') and len(a.args) == 2
                and not a.keywords and _is_name(a.args[0], obj) and utf(a.args[1])):
            return 'crc_of %s' % obj
        if (isinstance(a, ast.Call) and isinstance(a.func, ast.Attribute) and a.func.attr == 'encode' and _is_name(a.func.value, obj)
                and not a.keywords and (not a.args or (len(a.args) == 1 and utf(a.args[0])))):
            return 'crc_of %s' % obj
    raise Unsupported('return expression %s' % ast.unparse(e))


def translate_sav(tree: ast.Module) -> typing.Tuple[str, typing.List[typing.Tuple[typing.Any, int]]]:
    fn = find_function(tree, None, 'filter_' + FILTER)
    if fn.decorator_list:
        raise Unsupported('decorated filter (would receive a language/environment argument)')
    args = [a.arg for a in fn.args.args]
    if len(args) != 1 or fn.args.vararg or fn.args.kwarg or fn.args.kwonlyargs or fn.args.defaults:
        raise Unsupported('signature')
    obj = args[0]
    body = list(fn.body)
    doc = ''
    if body and isinstance(body[0], ast.Expr) and isinstance(body[0].value, ast.Constant) and isinstance(body[0].value.value, str):
        doc = body[0].value.value
        body = body[1:]
    crc_mod = any(isinstance(n, ast.ImportFrom) and n.module == 'zlib' and any(a.name == 'crc32' and a.asname is None for a in n.names)
                  for n in tree.body)
    if not body or not isinstance(body[-1], ast.Raise):
        raise Unsupported('the function does not end in a raise')
    tests = {'bool': 'is_bool', 'int': 'is_int', 'str': 'is_str'}
    branches = []
    for st in body[:-1]:
        if not (isinstance(st, ast.If) and not st.orelse and isinstance(st.test, ast.Call) and _is_name(st.test.func, 'isinstance')
                and len(st.test.args) == 2 and _is_name(st.test.args[0], obj) and isinstance(st.test.args[1], ast.Name)
                and st.test.args[1].id in tests):
            raise Unsupported('statement %s' % ast.unparse(st)[:80])
        inner = list(st.body)
        crc_here = crc_mod
        while inner and isinstance(inner[0], ast.ImportFrom):
            imp = inner.pop(0)
            if imp.module == 'zlib' and all(a.asname is None for a in imp.names) and any(a.name == 'crc32' for a in imp.names):
                crc_here = True
            else:
                raise Unsupported('import %s' % ast.unparse(imp))
        if len(inner) != 1 or not isinstance(inner[0], ast.Return) or inner[0].value is None:
            raise Unsupported('branch body %s' % ast.unparse(st)[:80])
        branches.append((tests[st.test.args[1].id], _tr_return(inner[0].value, obj, crc_here)))
    lines = ['(* T2 translation of filter_to_static_assertion_value *)', 'Definition sav (%s : oval) : option Z :=' % obj]
    ind = '  '
    for t, r in branches:
        lines.append('%sif %s %s then %s else' % (ind, t, obj, r))
    lines.append('%sNone.' % ind)
    # docstring examples:  template = '{{ X | to_static_assertion_value }}' ... rendered = 'N'
    ex = []
    for m in re.finditer(r"template\s*=\s*'\{\{\s*(.+?)\s*\|\s*" + FILTER + r"\s*\}\}'\s*\n\s*\n?\s*#[^\n]*\n\s*rendered\s*=\s*'(\d+)'", doc):
        try:
            lit = ast.literal_eval(m.group(1))
        except Exception:
            continue
        if isinstance(lit, (bool, int, str)):
            ex.append((lit, int(m.group(2))))
    return '\n'.join(lines), ex


# ---------------------------------------------------------------------------------------------
# T1: template loop scanner
# ---------------------------------------------------------------------------------------------

TAG = re.compile(r'\{%-?\s*(.*?)\s*-?%\}', re.S)
OPENERS = {'if', 'for', 'macro', 'block', 'call', 'filter', 'raw', 'with', 'ifuses', 'ifnuses', 'autoescape', 'trans'}


def _strip_comments(text: str) -> str:
    # keep offsets stable: replace comment bodies by blanks
    return re.sub(r'\{#.*?#\}', lambda m: ' ' * len(m.group(0)), text, flags=re.S)


def _tags(text: str):
    for m in TAG.finditer(text):
        words = m.group(1).split(None, 1)
        if words:
            yield m, words[0], (words[1] if len(words) > 1 else '')


def _norm(e: str) -> str:
    return re.sub(r'\s+', ' ', e.strip())


def _skip_from_cond(cond: str, keyvar: str) -> typing.List[str]:
    """`key != "x"` / `key not in ("x", 'y')` -> excluded keys; anything else is unsupported"""
    cond = cond.strip()
    m = re.fullmatch(re.escape(keyvar) + r'''\s*!=\s*(['"])([\w.-]+)\1''', cond)
    if m:
        return [m.group(2)]
    m = re.fullmatch(re.escape(keyvar) + r'''\s+not\s+in\s*[\[(]\s*((?:(['"])[\w.-]+\2\s*,?\s*)+)[\])]''', cond)
    if m:
        return re.findall(r'''['"]([\w.-]+)['"]''', m.group(1))
    raise Unsupported('loop condition `%s`' % cond)


KS_EXPR = 'options.keys() | sort(case_sensitive=true) | join(",") | ' + FILTER


def _namespaces(pre: str, where: str) -> typing.List[str]:
    """C++ namespaces open at the end of `pre`, innermost last"""
    ns: typing.List[str] = []
    for t in re.finditer(r'^[ \t]*namespace[ \t]+(\w+)[ \t]*\n?[ \t]*\{|^[ \t]*\}[ \t]*//[ \t]*(?:end[ \t]+)?namespace[ \t]+(\w+)', pre, re.M):
        if t.group(1):
            ns.append(t.group(1))
        elif ns and ns[-1] == t.group(2):
            ns.pop()
        else:
            raise Unsupported('%s: namespace nesting' % where)
    return ns


def _block_stack(text: str, pos: int, where: str):
    stack: typing.List[typing.Tuple[str, str, typing.Any]] = []
    for m, w, rest in _tags(text):
        if m.start() > pos:
            break
        if w in OPENERS or (w == 'set' and '=' not in rest):
            stack.append((w, rest, m))
        elif w.startswith('end'):
            if not stack or stack[-1][0] != w[3:]:
                raise Unsupported('%s: unbalanced block tags near offset %d' % (where, m.start()))
            stack.pop()
    return stack


def scan_keyset(lang: str, kind: str, text: str) -> typing.Tuple[typing.Optional[dict], str]:
    """the optional key-set fingerprint statement (the F-OPTGUARD-KEYSET fix); returns (facts | None, text with the
    statement blanked out so that the per-option scanner sees the loop only)"""
    where = TEMPLATES[(lang, kind)]
    if kind == 'type':
        rx = r'static_assert\(\s*(?P<sym>[\w:]+)\s*==\s*\{\{\s*(?P<e>[^}]*?)\s*\}\}\s*,(?P<msg>[^;]*?)\)\s*;'
    elif lang == 'c':
        rx = r'^[ \t]*#[ \t]*define[ \t]+(?P<sym>\w+)[ \t]+\{\{\s*(?P<e>[^}]*?)\s*\}\}[ \t]*$'
    else:
        rx = r'^[ \t]*constexpr[ \t]+std::uint32_t[ \t]+(?P<sym>\w+)[ \t]*=[ \t]*\{\{\s*(?P<e>[^}]*?)\s*\}\}[ \t]*;'
    found = []
    for m in re.finditer(rx, text, re.S | re.M):
        e = re.sub(r'\|\s*ln\.c\.' + FILTER, '| ' + FILTER, _norm(m.group('e')))
        if e == KS_EXPR:
            found.append(m)
    if not found:
        return None, text
    if len(found) != 1:
        raise Unsupported('%s: %d key-set fingerprint statements' % (where, len(found)))
    m = found[0]
    if kind == 'type' and MESSAGE not in re.sub(r'"\s*"', '', m.group('msg')):
        raise Unsupported('%s: the key-set assertion message does not name the mismatch' % where)
    stack = _block_stack(text, m.start(), where)
    ctx = [(w, _norm(rest)) for w, rest, _m in stack]
    unless_omit = False
    if ctx and ctx[0] == ('if', 'not nunavut.support.omit'):
        unless_omit = True
        ctx = ctx[1:]
    lo, hi = m.start(), m.end()
    if ctx:
        ok = (len(ctx) == 2 and ctx[0][0] == 'for' and re.fullmatch(r'\w+\s*,\s*\w+ in options\.items\(\)', ctx[0][1]) and ctx[1] == ('if', 'loop.first'))
        if not ok:
            raise Unsupported('%s: key-set fingerprint inside %s' % (where, ctx))
        # must be alone in its `if loop.first` block, which is blanked out together with it
        if_m = stack[-1][2]
        end = re.compile(r'\s*\{%-?\s*endif\s*-?%\}').match(text, m.end())
        if text[if_m.end():m.start()].strip() or not end:
            raise Unsupported('%s: key-set assertion shares its `if loop.first` block with other output' % where)
        lo, hi = if_m.start(), end.end()
    sym = m.group('sym')
    if kind == 'support' and lang == 'cpp':
        sym = '::'.join(_namespaces(text[:m.start()], where) + [sym])
    blanked = text[:lo] + re.sub(r'[^\n]', ' ', text[lo:hi]) + text[hi:]
    msg_exprs = [_norm(e) for e in re.findall(r'\{\{\s*(.*?)\s*\}\}', m.group('msg'), re.S)] if kind == 'type' else []
    return {'symbol': sym, 'unless_omit': unless_omit, 'msg_exprs': msg_exprs}, blanked


def scan_loop(lang: str, kind: str, text: str) -> dict:
    where = TEMPLATES[(lang, kind)]
    text = _strip_comments(text)
    keyset, text = scan_keyset(lang, kind, text)
    occ = [m.start() for m in re.finditer(re.escape(FILTER), text)]
    if len(occ) != 1:
        raise Unsupported('%s: %d uses of %s (expected exactly one guard loop)' % (where, len(occ), FILTER))
    pos = occ[0]
    # block stack at the position of the filter use
    stack: typing.List[typing.Tuple[str, str, typing.Any]] = []
    for m, w, rest in _tags(text):
        if m.start() > pos:
            break
        if w in OPENERS or (w == 'set' and '=' not in rest):
            stack.append((w, rest, m))
        elif w.startswith('end'):
            if not stack or stack[-1][0] != w[3:]:
                raise Unsupported('%s: unbalanced block tags near offset %d' % (where, m.start()))
            stack.pop()
    fors = [i for i, s in enumerate(stack) if s[0] == 'for']
    if len(fors) != 1:
        raise Unsupported('%s: the guard is nested in %d for-loops' % (where, len(fors)))
    fi = fors[0]
    outer, (_, for_rest, for_m), inner = stack[:fi], stack[fi], stack[fi + 1:]
    unless_omit = False
    for w, rest, _m in outer:
        if w == 'if' and _norm(rest) == 'not nunavut.support.omit':
            unless_omit = True
        else:
            raise Unsupported('%s: guard loop inside `%s %s`' % (where, w, rest[:60]))
    hm = re.fullmatch(r'(\w+)\s*,\s*(\w+)\s+in\s+(.+?)(?:\s+if\s+(.+))?', _norm(for_rest))
    if not hm:
        raise Unsupported('%s: loop header `%s`' % (where, for_rest))
    keyvar, valvar, iter_expr, loop_if = hm.group(1), hm.group(2), _norm(hm.group(3)), hm.group(4)
    skip: typing.List[str] = []
    if loop_if:
        skip += _skip_from_cond(loop_if, keyvar)
    for w, rest, _m in inner:
        if w == 'if':
            skip += _skip_from_cond(rest, keyvar)
        else:
            raise Unsupported('%s: guard statement inside `%s %s`' % (where, w, rest[:60]))
    # loop body extent: up to the matching endfor
    depth, end = 0, None
    for m, w, rest in _tags(text):
        if m.start() <= for_m.start():
            continue
        if w in OPENERS or (w == 'set' and '=' not in rest):
            depth += 1
        elif w.startswith('end'):
            if depth == 0:
                if w != 'endfor':
                    raise Unsupported('%s: loop closed by %s' % (where, w))
                end = m
                break
            depth -= 1
    if end is None:
        raise Unsupported('%s: no endfor' % where)
    body = text[for_m.end():end.start()]
    # other statements of the body: only a `loop.first` banner and the supported key conditions
    for m, w, rest in _tags(body):
        if w in ('if', 'elif') and _norm(rest) not in ('loop.first',):
            _skip_from_cond(rest, keyvar)   # raises when unsupported
        elif w not in ('if', 'endif'):
            raise Unsupported('%s: `%s` inside the guard loop' % (where, w))
    if unless_omit:
        after = text[end.end():]
        if not re.match(r'\s*\{%-?\s*endif\s*-?%\}', after):
            raise Unsupported('%s: the omit condition does not end right after the loop' % where)

    def canon(e: str) -> str:
        e = _norm(e)
        e = re.sub(r'\b%s\b' % re.escape(keyvar), 'key', e)
        e = re.sub(r'\b%s\b' % re.escape(valvar), 'value', e)
        return e

    msg_exprs: typing.List[str] = []
    if kind == 'type':
        am = re.search(r'static_assert\(\s*(?P<lhs>[^\n]+?)\s*==\s*\{\{\s*(?P<val>[^}]+?)\s*\}\}\s*,(?P<msg>.*?)\)\s*;', body, re.S)
        if not am or am.start() > body.index(FILTER):
            raise Unsupported('%s: no `static_assert( <symbol> == {{ value | %s }}, ...);` in the loop' % (where, FILTER))
        if MESSAGE not in re.sub(r'"\s*"', '', am.group('msg')):
            raise Unsupported('%s: the assertion message does not name the mismatch' % where)
        if len(re.findall(r'static_assert\s*\(', body)) != 1:
            raise Unsupported('%s: more than one static_assert in the loop' % where)
        lhs = am.group('lhs')
        val = am.group('val')
        # every template expression interpolated inside the string literals of the message
        msg_exprs = [canon(e) for e in re.findall(r'\{\{\s*(.*?)\s*\}\}', am.group('msg'), re.S)]
    elif lang == 'c':
        am = re.search(r'^[ \t]*#[ \t]*define[ \t]+(?P<lhs>\{\{[^\n]+?\}\})[ \t]+\{\{\s*(?P<val>[^}]+?)\s*\}\}[ \t]*$', body, re.M)
        if not am:
            raise Unsupported('%s: no `#define {{ name }} {{ value | %s }}` in the loop' % (where, FILTER))
        lhs = am.group('lhs')
        val = am.group('val')
    else:
        am = re.search(r'^[ \t]*constexpr[ \t]+std::uint32_t[ \t]+(?P<lhs>\{\{[^\n]+?\}\})[ \t]*=[ \t]*\{\{\s*(?P<val>[^}]+?)\s*\}\}[ \t]*;[ \t]*$', body, re.M)
        if not am:
            raise Unsupported('%s: no `constexpr std::uint32_t {{ name }} = {{ value | %s }};` in the loop' % (where, FILTER))
        ns = _namespaces(text[:for_m.start()], where)
        lhs = '::'.join(ns + [am.group('lhs')])
        val = am.group('val')
    # name expression: one {{ ... }} with an optional literal prefix
    nm = re.fullmatch(r'(?P<prefix>[\w:]*)\{\{\s*(?P<e>.+?)\s*\}\}', lhs.strip())
    if not nm:
        raise Unsupported('%s: symbol expression `%s`' % (where, lhs))
    name = nm.group('prefix') + '{{ ' + canon(nm.group('e')) + ' }}'
    val = canon(val)
    val = re.sub(r'\|\s*ln\.c\.' + FILTER, '| ' + FILTER, val)
    if keyvar == valvar:
        raise Unsupported('%s: loop variables' % where)
    if keyset is not None and keyset['unless_omit'] != unless_omit:
        raise Unsupported('%s: the key-set fingerprint and the option loop are not under the same omit condition' % where)
    return {'iter': iter_expr, 'skip': sorted(set(skip)), 'name': name, 'value': val, 'unless_omit': unless_omit,
            'keyset': keyset['symbol'] if keyset else None,
            'msg_exprs': sorted(set(msg_exprs + (keyset['msg_exprs'] if keyset else [])))}


# ---------------------------------------------------------------------------------------------
# T1: options, documented domain, rendered names
# ---------------------------------------------------------------------------------------------

_PROBE = r'''
import json, sys, yaml
import nunavut.lang, nunavut.lang.c, nunavut.lang.cpp
from nunavut.lang import LanguageContextBuilder
doc = yaml.safe_load(open(sys.argv[1], encoding='utf-8'))
keys = json.loads(sys.argv[2])
out = {'yaml': {}, 'names': {}}
for lang in ('c', 'cpp'):
    sec = doc['nunavut.lang.' + lang]
    out['yaml'][lang] = {'options': list(sec.get('options', {}).items()),
                         'defaults': {k: list(v.items()) for k, v in (sec.get('defaults') or {}).items()}}
ctx = LanguageContextBuilder(include_experimental_languages=True).set_target_language('c').create()
lc = ctx.get_target_language()
out['names']['c'] = [(k, nunavut.lang.c.filter_macrofy(lc, 'NUNAVUT_SUPPORT_LANGUAGE_OPTION_{}'.format(k))) for k in keys['c']]
ctx = LanguageContextBuilder(include_experimental_languages=True).set_target_language('cpp').create()
lp = ctx.get_target_language()
out['names']['cpp'] = [(k, nunavut.lang.cpp.filter_id(lp, k)) for k in keys['cpp']]
out['effective'] = {'c': list(lc.get_options().items()), 'cpp': list(lp.get_options().items())}
print('@@' + json.dumps(out))
'''


def _repo_env() -> dict:
    env = dict(os.environ)
    env['PYTHONPATH'] = os.path.join(gen.REPO, 'src')
    env['PYTHONDONTWRITEBYTECODE'] = '1'
    env['PYTHONHASHSEED'] = '0'
    return env


def cli_choices(tree: ast.Module, flag: str) -> typing.List[str]:
    for n in ast.walk(tree):
        if (isinstance(n, ast.Call) and isinstance(n.func, ast.Attribute) and n.func.attr == 'add_argument'
                and any(isinstance(a, ast.Constant) and a.value == flag for a in n.args)):
            for kw in n.keywords:
                if kw.arg == 'choices':
                    v = ast.literal_eval(kw.value)
                    if isinstance(v, list) and all(isinstance(x, str) for x in v):
                        return v
            raise Unsupported('%s has no literal choices' % flag)
    raise Unsupported('%s not found in cli/__init__.py' % flag)


def enum_values(tree: ast.Module, cls: str) -> typing.List[str]:
    for n in tree.body:
        if isinstance(n, ast.ClassDef) and n.name == cls:
            vals = [s.value.value for s in n.body if isinstance(s, ast.Assign) and isinstance(s.value, ast.Constant) and isinstance(s.value.value, str)]
            if vals:
                return vals
    raise Unsupported('enum %s not found' % cls)


def load_facts() -> dict:
    """everything T1 reads; also used by the check to build the same option sets (tools/checks/c17.py)"""
    cli = gen.parse_repo('src/nunavut/cli/__init__.py')
    cpp_py = gen.parse_repo('src/nunavut/lang/cpp/__init__.py')
    endian = cli_choices(cli, '--target-endianness')
    stds = cli_choices(cli, '--language-standard')
    ctor = enum_values(cpp_py, 'ConstructorConvention')
    yaml_path = os.path.join(gen.REPO, 'src/nunavut/lang/properties.yaml')
    # first pass without names to learn the keys
    import yaml  # the raw document only; nunavut itself is imported in the subprocess
    with open(yaml_path, encoding='utf-8') as f:
        doc = yaml.safe_load(f)
    std_by_lang: typing.Dict[str, typing.List[str]] = {'c': [], 'cpp': []}
    for s in stds:
        if '++' in s:
            std_by_lang['cpp'].append(s)
        elif re.fullmatch(r'c\d\d', s):
            std_by_lang['c'].append(s)
        else:
            raise Unsupported('cannot attribute --language-standard choice %r to a language' % s)
    opts = {}
    groups = {}
    for lang in ('c', 'cpp'):
        sec = doc.get('nunavut.lang.' + lang) or {}
        o = sec.get('options')
        if not isinstance(o, dict) or not o:
            raise Unsupported('nunavut.lang.%s has no options' % lang)
        opts[lang] = list(o.items())
        groups[lang] = {k: dict(v) for k, v in (sec.get('defaults') or {}).items()}
    domain: typing.Dict[str, typing.List[typing.Tuple[str, list]]] = {}
    optional: typing.Dict[str, typing.List[str]] = {'c': [], 'cpp': []}
    for lang in ('c', 'cpp'):
        other = 'cpp' if lang == 'c' else 'c'
        dom = []
        keys = [k for k, _ in opts[lang]]
        for k, dv in opts[lang]:
            vals = [dv]
            if isinstance(dv, bool):
                vals += [True, False]
            if k == 'target_endianness':
                vals += endian
            if k == 'std':
                for s in std_by_lang[lang]:
                    vals.append(groups[lang].get(s, {}).get('std', s))   # shorthand -> effective value
            if k == 'ctor_convention':
                vals += ctor
            for g in groups[lang].values():
                if k in g:
                    vals.append(g[k])
            for ok, ov in opts[other]:
                if ok == k and type(ov) is type(dv):
                    vals.append(ov)
            for g in groups[other].values():
                if k in g and type(g[k]) is type(dv):
                    vals.append(g[k])
            # quoted-include form (docs/languages.rst) with a header the check can provide, and free text containing the
            # characters that are special inside a C string literal
            if k.endswith('_include') and isinstance(dv, str):
                vals.append(LOCAL_INCLUDE % k)
            if k == 'cast_format' and isinstance(dv, str):
                vals.append(dv + SPECIAL_SUFFIX)
            # free-text options: the same text written with different spacing is a different value
            vals += [''.join(v.split()) for v in list(vals) if isinstance(v, str) and v != ''.join(v.split())]
            uniq = []
            for v in vals:
                if not any(type(v) is type(u) and v == u for u in uniq):
                    uniq.append(v)
            dom.append((k, uniq))
        if 'std' not in keys and std_by_lang[lang]:
            # --language-standard adds the key `std` to the option set of a language that has no such default
            dom.append(('std', list(std_by_lang[lang])))
            optional[lang].append('std')
        domain[lang] = dom
    keys = {lang: [k for k, _ in domain[lang]] for lang in ('c', 'cpp')}
    # documented key sets: the yaml keys plus any subset of the optional keys
    keysets = {}
    for lang in ('c', 'cpp'):
        base = [k for k, _ in opts[lang]]
        ks = [list(base)]
        for k in optional[lang]:
            ks += [x + [k] for x in ks]
        keysets[lang] = ks
    p = subprocess.run([os.environ.get('VERIF_PY', '/venv/bin/python'), '-c', _PROBE, yaml_path, json.dumps(keys)],
                       env=_repo_env(), stdout=subprocess.PIPE, stderr=subprocess.STDOUT, text=True, timeout=120)
    if p.returncode != 0 or '@@' not in p.stdout:
        raise Unsupported('probe of the real name filters failed: %s' % p.stdout[-400:])
    probe = json.loads(p.stdout[p.stdout.index('@@') + 2:])
    for lang in ('c', 'cpp'):
        if [list(x) for x in probe['yaml'][lang]['options']] != [list(x) for x in opts[lang]]:
            raise Unsupported('yaml seen by the subprocess differs')
    return {'options': opts, 'groups': groups, 'domain': domain, 'optional': optional, 'names': probe['names'], 'keysets': keysets,
            'effective_defaults': probe['effective'], 'endianness': endian, 'std_choices': std_by_lang, 'ctor': ctor}


def _coq_side(name: str, s: dict) -> str:
    return ('Definition %s : side :=\n  {| sd_iter := %s;\n     sd_skip := [%s];\n     sd_name := %s;\n     sd_value := %s;\n     sd_unless_omit := %s;\n     sd_keyset := %s;\n     sd_msg_exprs := [%s] |}.'
            % (name, coq_str(s['iter']), '; '.join(coq_str(k) for k in s['skip']), coq_str(s['name']), coq_str(s['value']),
               'true' if s['unless_omit'] else 'false', ('Some %s' % coq_str(s['keyset'])) if s['keyset'] else 'None',
               '; '.join(coq_str(e) for e in s['msg_exprs'])))


def gen_optguard() -> typing.Tuple[bool, str]:
    try:
        tree = gen.parse_repo('src/nunavut/lang/c/__init__.py')
        sav, examples = translate_sav(tree)
        cpp_tree = gen.parse_repo('src/nunavut/lang/cpp/__init__.py')
        if any(isinstance(n, ast.FunctionDef) and n.name == 'filter_' + FILTER for n in cpp_tree.body):
            raise Unsupported('lang/cpp defines its own %s (the unqualified filter name would resolve differently)' % FILTER)
        sides = {k: scan_loop(k[0], k[1], gen.read_repo(rel)) for k, rel in TEMPLATES.items()}
        facts = load_facts()
    except (Unsupported, SyntaxError, OSError, ValueError, KeyError, subprocess.SubprocessError) as ex:
        gen.write_if_changed(OUT, HEAD + '(* translator failed closed: %s *)\n' % str(ex).replace('*)', '* )').replace('(*', '( *'))
        return False, 'C17 translator failed closed: %s' % ex
    parts = [sav]
    parts.append('(* examples of the filter docstring *)\nDefinition sav_doc_examples : list (oval * Z) :=\n  [%s].'
                 % ';\n   '.join('(%s, (%d)%%Z)' % (coq_val(v), z) for v, z in examples))
    for lang in ('c', 'cpp'):
        parts.append('(* ---- %s ---- *)' % lang)
        parts.append(_coq_side('%s_support_side' % lang, sides[(lang, 'support')]))
        parts.append(_coq_side('%s_type_side' % lang, sides[(lang, 'type')]))
        parts.append('(* options of nunavut.lang.%s in properties.yaml, in file order *)\nDefinition %s_defaults : list (list N * oval) :=\n  [%s].'
                     % (lang, lang, ';\n   '.join('(%s, %s)' % (coq_str(k), coq_val(v)) for k, v in facts['options'][lang])))
        parts.append('(* documented values per option *)\nDefinition %s_domain : list (list N * list oval) :=\n  [%s].'
                     % (lang, ';\n   '.join('(%s,\n      [%s])' % (coq_str(k), ';\n       '.join(coq_val(v) for v in vs)) for k, vs in facts['domain'][lang])))
        parts.append('(* documented key sets *)\nDefinition %s_keysets : list (list (list N)) :=\n  [%s].'
                     % (lang, ';\n   '.join('[%s]' % '; '.join(coq_str(k) for k in ks) for ks in facts['keysets'][lang])))
        parts.append('(* symbol rendered for each key by the real filter *)\nDefinition %s_names : list (list N * list N) :=\n  [%s].'
                     % (lang, ';\n   '.join('(%s, %s)' % (coq_str(k), coq_str(n)) for k, n in facts['names'][lang])))
    parts.append('(* fully qualified option symbols *)\nDefinition c_symbols : list (list N) := map snd c_names.\n'
                 'Definition cpp_symbols : list (list N) := map (fun kn => %s ++ snd kn) cpp_names.' % coq_str('nunavut::support::options::'))
    gen.write_if_changed(OUT, HEAD + '\n\n'.join(parts) + '\n')
    return True, 'ok (%d + %d options, %d docstring examples)' % (len(facts['options']['c']), len(facts['options']['cpp']), len(examples))


GENERATORS = {'optguard': gen_optguard}
