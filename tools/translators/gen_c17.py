"""C17 translator -> coq/theories/Generated/Gen_OptGuard.v

T2 (code): `filter_to_static_assertion_value` (src/nunavut/lang/c/__init__.py) is translated from its
`ast`.  Supported shape (anything else fails closed): a docstring, then a chain of
`if isinstance(obj, bool|int|str): [from zlib import crc32] return <e>` statements and a final `raise`;
<e> is `c1 if obj else c0`, an int constant, `obj`, or `crc32(bytearray(obj, "utf-8"))` /
`crc32(obj.encode("utf-8"))`.  The isinstance tests are translated in the order they are written (bool is
a subclass of int in Python and in the model, Gen/OptGuard.v is_int).

T1 (data): option keys and default values of nunavut.lang.c / nunavut.lang.cpp in lang/properties.yaml, the
documented value domain of every option (see `build_domain`), the symbol names rendered for every key by
the real `macrofy` / `id` filters (subprocess against the working tree), the examples of the filter's
docstring, and -- with a small fail-closed scanner -- the structure of the four template loops that make up
the guard: what is iterated, which keys are skipped, the expression that renders the symbol, the expression
that renders the number, and whether the loop is wrapped in `if not nunavut.support.omit`.
"""
from __future__ import annotations

import ast
import json
import os
import re
import subprocess
import typing

from . import gen
from .pyfun_tr import Unsupported, find_function

OUT = os.path.join(gen.GEN_DIR, 'Gen_OptGuard.v')
SOURCES = ('src/nunavut/lang/c/__init__.py, lang/properties.yaml, cli/__init__.py, lang/cpp/__init__.py, '
           'lang/c/templates/base.j2, lang/c/support/serialization.j2, lang/cpp/templates/base.j2, lang/cpp/support/serialization.j2')
HEAD = gen.HEADER % SOURCES + 'From Verif Require Import Str Crc32 OptGuard.\nFrom Coq Require Import ZArith.\nOpen Scope N_scope.\n\n'

TEMPLATES = {
    ('c', 'type'): 'src/nunavut/lang/c/templates/base.j2',
    ('c', 'support'): 'src/nunavut/lang/c/support/serialization.j2',
    ('cpp', 'type'): 'src/nunavut/lang/cpp/templates/base.j2',
    ('cpp', 'support'): 'src/nunavut/lang/cpp/support/serialization.j2',
}
FILTER = 'to_static_assertion_value'
ESCAPED_PATH = '<escaped-path>'    # message piece: the DSDL path passed through the regenerated chain of `replace` filters
_JSTR = r'''(?:"(?:[^"\\]|\\.)*"|'(?:[^'\\]|\\.)*')'''
_PATH_RX = re.compile(r'\(?T\.source_file_path\.as_posix\(\)((?: \| replace\(' + _JSTR + ', ' + _JSTR + r'\))*)\)? if nunavut\.embed_auditing_info else T\.source_file_path\.name')


def classify_msg_exprs(exprs: typing.List[str], where: str) -> typing.Tuple[typing.List[str], typing.List[typing.Tuple[str, str]]]:
    """replace the path expression by the token ESCAPED_PATH and return its chain of (from, to) replacements (applied left to right);
    a raw path is ESCAPED_PATH with an empty chain.  All path pieces of one template must use the same chain."""
    out, chain = [], None
    for e in exprs:
        m = _PATH_RX.fullmatch(e)
        if e == 'T.source_file_path.as_posix()':
            m, this = True, []
        elif m:
            this = []
            for a, b in re.findall(r'replace\((' + _JSTR + '), (' + _JSTR + r')\)', m.group(1)):
                fa, fb = ast.literal_eval(a), ast.literal_eval(b)
                if len(fa) != 1:
                    raise Unsupported('%s: replace(%s, ...) in a message: only single characters are modelled' % (where, a))
                this.append((fa, fb))
        if m:
            if chain is not None and chain != this:
                raise Unsupported('%s: the messages escape the path in different ways' % where)
            chain = this
            out.append(ESCAPED_PATH)
        else:
            out.append(e)
    return sorted(set(out)), (chain or [])
LOCAL_INCLUDE = '"verif_%s.hpp"'             # value of an *_include option: a quoted include path
SPECIAL_SUFFIX = ' /* 100% "q" \\a */'       # harmless in code (a comment), hostile inside a string literal
MESSAGE = 'different language options'


def coq_str(s: str) -> str:
    note = (' (*%s*)' % s) if s and re.fullmatch(r'[\w+.<>:,{}()\[\] |"/=!-]*', s) and '*)' not in s and '(*' not in s else ''
    return '([%s]%%N : list N)%s' % ('; '.join(str(ord(c)) for c in s), note)


def coq_val(v: typing.Any) -> str:
    if isinstance(v, bool):
        return 'VBool %s' % ('true' if v else 'false')
    if isinstance(v, int):
        return 'VInt (%d)%%Z' % v
    if isinstance(v, str):
        return 'VStr %s' % coq_str(v)
    return 'VOther'


# ---------------------------------------------------------------------------------------------
# T2: filter_to_static_assertion_value
# ---------------------------------------------------------------------------------------------

def _is_name(e: ast.AST, n: str) -> bool:
    return isinstance(e, ast.Name) and e.id == n


def _tr_return(e: ast.AST, obj: str, crc_imported: bool) -> str:
    if isinstance(e, ast.IfExp) and _is_name(e.test, obj) and all(
            isinstance(x, ast.Constant) and type(x.value) is int for x in (e.body, e.orelse)):
        return 'Some (if truthy %s then %d else %d)%%Z' % (obj, e.body.value, e.orelse.value)
    if isinstance(e, ast.Constant) and type(e.value) is int:
        return 'Some (%d)%%Z' % e.value
    if _is_name(e, obj):
        return 'as_int %s' % obj
    if isinstance(e, ast.Call) and _is_name(e.func, 'crc32') and len(e.args) == 1 and not e.keywords:
        if not crc_imported:
            raise Unsupported('crc32 is not `from zlib import crc32`')
        a = e.args[0]
        utf = lambda c: isinstance(c, ast.Constant) and isinstance(c.value, str) and c.value.lower().replace('_', '-') in ('utf-8', 'utf8')
        if (isinstance(a, ast.Call) and isinstance(a.func, ast.Name) and a.func.id in ('bytearray', 'bytes') and len(a.args) == 2
                and not a.keywords and _is_name(a.args[0], obj) and utf(a.args[1])):
            return 'crc_of %s' % obj
        if (isinstance(a, ast.Call) and isinstance(a.func, ast.Attribute) and a.func.attr == 'encode' and _is_name(a.func.value, obj)
                and not a.keywords and (not a.args or (len(a.args) == 1 and utf(a.args[0])))):
            return 'crc_of %s' % obj
    raise Unsupported('return expression %s' % ast.unparse(e))


def translate_sav(tree: ast.Module) -> typing.Tuple[str, typing.List[typing.Tuple[typing.Any, int]]]:
    fn = find_function(tree, None, 'filter_' + FILTER)
    if fn.decorator_list:
        raise Unsupported('decorated filter (would receive a language/environment argument)')
    args = [a.arg for a in fn.args.args]
    if len(args) != 1 or fn.args.vararg or fn.args.kwarg or fn.args.kwonlyargs or fn.args.defaults:
        raise Unsupported('signature')
    obj = args[0]
    body = list(fn.body)
    doc = ''
    if body and isinstance(body[0], ast.Expr) and isinstance(body[0].value, ast.Constant) and isinstance(body[0].value.value, str):
        doc = body[0].value.value
        body = body[1:]
    crc_mod = any(isinstance(n, ast.ImportFrom) and n.module == 'zlib' and any(a.name == 'crc32' and a.asname is None for a in n.names)
                  for n in tree.body)
    if not body or not isinstance(body[-1], ast.Raise):
        raise Unsupported('the function does not end in a raise')
    tests = {'bool': 'is_bool', 'int': 'is_int', 'str': 'is_str'}
    branches = []
    for st in body[:-1]:
        if not (isinstance(st, ast.If) and not st.orelse and isinstance(st.test, ast.Call) and _is_name(st.test.func, 'isinstance')
                and len(st.test.args) == 2 and _is_name(st.test.args[0], obj) and isinstance(st.test.args[1], ast.Name)
                and st.test.args[1].id in tests):
            raise Unsupported('statement %s' % ast.unparse(st)[:80])
        inner = list(st.body)
        crc_here = crc_mod
        while inner and isinstance(inner[0], ast.ImportFrom):
            imp = inner.pop(0)
            if imp.module == 'zlib' and all(a.asname is None for a in imp.names) and any(a.name == 'crc32' for a in imp.names):
                crc_here = True
            else:
                raise Unsupported('import %s' % ast.unparse(imp))
        if len(inner) != 1 or not isinstance(inner[0], ast.Return) or inner[0].value is None:
            raise Unsupported('branch body %s' % ast.unparse(st)[:80])
        branches.append((tests[st.test.args[1].id], _tr_return(inner[0].value, obj, crc_here)))
    lines = ['(* T2 translation of filter_to_static_assertion_value *)', 'Definition sav (%s : oval) : option Z :=' % obj]
    ind = '  '
    for t, r in branches:
        lines.append('%sif %s %s then %s else' % (ind, t, obj, r))
    lines.append('%sNone.' % ind)
    # docstring examples:  template = '{{ X | to_static_assertion_value }}' ... rendered = 'N'
    ex = []
    for m in re.finditer(r"template\s*=\s*'\{\{\s*(.+?)\s*\|\s*" + FILTER + r"\s*\}\}'\s*\n\s*\n?\s*#[^\n]*\n\s*rendered\s*=\s*'(\d+)'", doc):
        try:
            lit = ast.literal_eval(m.group(1))
        except Exception:
            continue
        if isinstance(lit, (bool, int, str)):
            ex.append((lit, int(m.group(2))))
    return '\n'.join(lines), ex


# ---------------------------------------------------------------------------------------------
# T1: template loop scanner
# ---------------------------------------------------------------------------------------------

TAG = re.compile(r'\{%-?\s*(.*?)\s*-?%\}', re.S)
OPENERS = {'if', 'for', 'macro', 'block', 'call', 'filter', 'raw', 'with', 'ifuses', 'ifnuses', 'autoescape', 'trans'}


def _strip_comments(text: str) -> str:
    # keep offsets stable: replace comment bodies by blanks
    return re.sub(r'\{#.*?#\}', lambda m: ' ' * len(m.group(0)), text, flags=re.S)


def _tags(text: str):
    for m in TAG.finditer(text):
        words = m.group(1).split(None, 1)
        if words:
            yield m, words[0], (words[1] if len(words) > 1 else '')


def _norm(e: str) -> str:
    return re.sub(r'\s+', ' ', e.strip())


def _skip_from_cond(cond: str, keyvar: str) -> typing.List[str]:
    """`key != "x"` / `key not in ("x", 'y')` -> excluded keys; anything else is unsupported"""
    cond = cond.strip()
    m = re.fullmatch(re.escape(keyvar) + r'''\s*!=\s*(['"])([\w.-]+)\1''', cond)
    if m:
        return [m.group(2)]
    m = re.fullmatch(re.escape(keyvar) + r'''\s+not\s+in\s*[\[(]\s*((?:(['"])[\w.-]+\2\s*,?\s*)+)[\])]''', cond)
    if m:
        return re.findall(r'''['"]([\w.-]+)['"]''', m.group(1))
    raise Unsupported('loop condition `%s`' % cond)


def c_context(text: str, pos: int, where: str) -> typing.Tuple[bool, typing.List[str]]:
    """C/C++ level context of offset `pos` of a template (Jinja comments already blanked): (inside a /* */ or // comment?,
    enclosing preprocessor conditionals that are not the include guard).  The include guard is the first conditional of the
    file, at depth 0, of the form `#ifndef X` directly followed by `#define X`.  A conditional whose #else/#elif branch is the open one is reported with that branch.  Linear scan of the
    template text: preprocessor lines produced under Jinja conditionals are treated as if always emitted (fail-closed side)."""
    pre = text[:pos]
    lines = pre.split('\n')
    in_block = False
    stack: typing.List[typing.List[str]] = []     # [directive text, 'guard' | 'cond']
    in_line_comment_at_end = False
    seen_conditional = False
    all_lines = text.split('\n')
    for li, line in enumerate(lines):
        last = li == len(lines) - 1
        code = ''
        i, in_str, in_line = 0, False, False
        while i < len(line):
            two = line[i:i + 2]
            if in_block:
                if two == '*/':
                    in_block = False
                    i += 2
                    continue
                i += 1
                continue
            if in_str:
                if line[i] == '\\':
                    i += 2
                    continue
                if line[i] == '"':
                    in_str = False
                code += line[i]
                i += 1
                continue
            if two == '//':
                in_line = True
                break
            if two == '/*':
                in_block = True
                i += 2
                continue
            if line[i] == '"':
                in_str = True
            code += line[i]
            i += 1
        if last:
            in_line_comment_at_end = in_line
        m = re.match(r'\s*#\s*(ifdef|ifndef|if|elif|else|endif)\b\s*(.*?)\s*$', code)
        if not m or (last and not line.strip().startswith('#')):
            continue
        d, arg = m.group(1), _norm(m.group(2))
        if d in ('if', 'ifdef', 'ifndef'):
            kind = 'cond'
            if d == 'ifndef' and not stack and not seen_conditional:   # only the outermost, first conditional can be the include guard
                nxt = next((l for l in all_lines[li + 1:] if l.strip()), '')
                dm = re.match(r'\s*#\s*define\s+(.+?)\s*$', nxt)
                if dm and _norm(dm.group(1)) == arg:
                    kind = 'guard'
            stack.append(['#%s %s' % (d, arg), kind])
            seen_conditional = True
        elif d in ('elif', 'else'):
            if not stack:
                raise Unsupported('%s: #%s without #if' % (where, d))
            stack[-1] = [stack[-1][0] + ' / #%s %s' % (d, arg), 'cond']
        else:
            if not stack:
                raise Unsupported('%s: #endif without #if' % where)
            stack.pop()
    return (in_block or in_line_comment_at_end), [t for t, k in stack if k != 'guard']


KS_EXPR = 'options.keys() | sort(case_sensitive=true) | join(",") | ' + FILTER


def _namespaces(pre: str, where: str) -> typing.List[str]:
    """C++ namespaces open at the end of `pre`, innermost last"""
    ns: typing.List[str] = []
    for t in re.finditer(r'^[ \t]*namespace[ \t]+(\w+)[ \t]*\n?[ \t]*\{|^[ \t]*\}[ \t]*//[ \t]*(?:end[ \t]+)?namespace[ \t]+(\w+)', pre, re.M):
        if t.group(1):
            ns.append(t.group(1))
        elif ns and ns[-1] == t.group(2):
            ns.pop()
        else:
            raise Unsupported('%s: namespace nesting' % where)
    return ns


def _cond(rest: str) -> str:
    """canonical text of a Jinja condition; `not (a.b.c)` (the else-branch of `if a.b.c`) is `not a.b.c`"""
    r = _norm(rest)
    m = re.fullmatch(r'not \(([\w.]+)\)', r)
    return 'not ' + m.group(1) if m else r


def _block_stack(text: str, pos: int, where: str):
    """open Jinja blocks at offset pos.  The else-branch of `if c` is reported as `if not (c)`; elif and for-else are
    reported under names no caller accepts (fail closed)."""
    stack: typing.List[typing.Tuple[str, str, typing.Any]] = []
    for m, w, rest in _tags(text):
        if m.start() > pos:
            break
        if w in OPENERS or (w == 'set' and '=' not in rest):
            stack.append((w, rest, m))
        elif w in ('else', 'elif'):
            if not stack:
                raise Unsupported('%s: %s outside any block near offset %d' % (where, w, m.start()))
            tw, trest, tm = stack[-1]
            if tw == 'if' and w == 'else' and not trest.startswith('<'):
                stack[-1] = ('if', 'not (%s)' % _norm(trest), tm)
            else:
                stack[-1] = (tw, '<%s-branch of> %s' % (w, trest), tm)
        elif w.startswith('end'):
            if not stack or stack[-1][0] != w[3:]:
                raise Unsupported('%s: unbalanced block tags near offset %d' % (where, m.start()))
            stack.pop()
    return stack


def scan_keyset(lang: str, kind: str, text: str) -> typing.Tuple[typing.Optional[dict], str]:
    """the optional key-set fingerprint statement (the F-OPTGUARD-KEYSET fix); returns (facts | None, text with the
    statement blanked out so that the per-option scanner sees the loop only)"""
    where = TEMPLATES[(lang, kind)]
    if kind == 'type':
        rx = r'^[ \t]*static_assert\(\s*(?P<sym>[\w:]+)\s*==\s*\{\{\s*(?P<e>[^}]*?)\s*\}\}\s*,(?P<msg>[^;]*?)\)\s*;[ \t]*$'
    elif lang == 'c':
        rx = r'^[ \t]*#[ \t]*define[ \t]+(?P<sym>\w+)[ \t]+\{\{\s*(?P<e>[^}]*?)\s*\}\}[ \t]*$'
    else:
        rx = r'^[ \t]*constexpr[ \t]+std::uint32_t[ \t]+(?P<sym>\w+)[ \t]*=[ \t]*\{\{\s*(?P<e>[^}]*?)\s*\}\}[ \t]*;'
    found = []
    for m in re.finditer(rx, text, re.S | re.M):
        e = re.sub(r'\|\s*ln\.c\.' + FILTER, '| ' + FILTER, _norm(m.group('e')))
        if e == KS_EXPR:
            found.append(m)
    if not found:
        return None, text
    if len(found) != 1:
        raise Unsupported('%s: %d key-set fingerprint statements' % (where, len(found)))
    m = found[0]
    if kind == 'type' and MESSAGE not in re.sub(r'"\s*"', '', m.group('msg')):
        raise Unsupported('%s: the key-set assertion message does not name the mismatch' % where)
    stack = _block_stack(text, m.start(), where)
    ctx = [(w, _cond(rest)) for w, rest, _m in stack]
    unless_omit = False
    if ctx and ctx[0] == ('if', 'not nunavut.support.omit'):
        unless_omit = True
        ctx = ctx[1:]
    lo, hi = m.start(), m.end()
    if ctx:
        ok = (len(ctx) == 2 and ctx[0][0] == 'for' and re.fullmatch(r'\w+\s*,\s*\w+ in options\.items\(\)', ctx[0][1]) and ctx[1] == ('if', 'loop.first'))
        if not ok:
            raise Unsupported('%s: key-set fingerprint inside %s' % (where, ctx))
        # must be alone in its `if loop.first` block, which is blanked out together with it
        if_m = stack[-1][2]
        end = re.compile(r'\s*\{%-?\s*endif\s*-?%\}').match(text, m.end())
        if text[if_m.end():m.start()].strip() or not end:
            raise Unsupported('%s: key-set assertion shares its `if loop.first` block with other output' % where)
        lo, hi = if_m.start(), end.end()
    sym = m.group('sym')
    if kind == 'support' and lang == 'cpp':
        sym = '::'.join(_namespaces(text[:m.start()], where) + [sym])
    blanked = text[:lo] + re.sub(r'[^\n]', ' ', text[lo:hi]) + text[hi:]
    msg_exprs = [_norm(e) for e in re.findall(r'\{\{\s*(.*?)\s*\}\}', m.group('msg'), re.S)] if kind == 'type' else []
    in_comment, pp = c_context(text, m.start('sym'), where)
    return {'symbol': sym, 'unless_omit': unless_omit, 'msg_exprs': msg_exprs, 'in_comment': in_comment, 'pp': pp, 'pos': m.start()}, blanked


def forbid_redefinitions(lang: str, kind: str, text: str, where: str) -> None:
    """fail closed on anything in a guard template that could neutralise the assertions without touching them: a
    #define / #undef of the assertion macros or of the guard symbols (other than the scanned definitions), and a Jinja
    re-binding of the globals the guard is rendered from"""
    for m in re.finditer(r'^[ \t]*#[ \t]*(define|undef)[ \t]+(static_assert|_Static_assert|assert|NUNAVUT_ASSERT\w*)\b', text, re.M):
        raise Unsupported('%s: #%s %s' % (where, m.group(1), m.group(2)))
    for m in re.finditer(r'^[ \t]*#[ \t]*undef\b[^\n]*(LANGUAGE_OPTION|language_options_key_set|static_assert)', text, re.M):
        raise Unsupported('%s: #undef of a guard symbol' % where)
    n_def = len(re.findall(r'^[ \t]*#[ \t]*define[ \t]+[^\n]*LANGUAGE_OPTION', text, re.M))
    expected = 2 if (lang, kind) == ('c', 'support') else 0      # the per-option #define and the key-set #define
    if n_def > expected:
        raise Unsupported('%s: %d #define lines mention LANGUAGE_OPTION (at most %d expected)' % (where, n_def, expected))
    for _m, w, rest in _tags(text):
        if w == 'set' and re.match(r'(options|nunavut|T)\b', rest.strip()):
            raise Unsupported('%s: `{%% set %s %%}` re-binds a global the guard is rendered from' % (where, rest.strip()[:40]))
        if w == 'for' and re.match(r'[\w\s,]*\b(options|nunavut)\b[\w\s,]*\bin\b', rest.split(' in ')[0] + ' in') and 'options' in rest.split(' in ')[0].split(','):
            raise Unsupported('%s: loop variable shadows `options`' % where)


def scan_loop(lang: str, kind: str, text: str) -> dict:
    where = TEMPLATES[(lang, kind)]
    text = _strip_comments(text)
    forbid_redefinitions(lang, kind, text, where)
    keyset, text = scan_keyset(lang, kind, text)
    occ = [m.start() for m in re.finditer(re.escape(FILTER), text)]
    if len(occ) != 1:
        raise Unsupported('%s: %d uses of %s (expected exactly one guard loop)' % (where, len(occ), FILTER))
    pos = occ[0]
    # block stack at the position of the filter use
    stack = _block_stack(text, pos, where)
    fors = [i for i, s in enumerate(stack) if s[0] == 'for']
    if len(fors) != 1:
        raise Unsupported('%s: the guard is nested in %d for-loops' % (where, len(fors)))
    fi = fors[0]
    outer, (_, for_rest, for_m), inner = stack[:fi], stack[fi], stack[fi + 1:]
    unless_omit = False
    for w, rest, _m in outer:
        if w == 'if' and _cond(rest) == 'not nunavut.support.omit':
            unless_omit = True
        else:
            raise Unsupported('%s: guard loop inside `%s %s`' % (where, w, rest[:60]))
    hm = re.fullmatch(r'(\w+)\s*,\s*(\w+)\s+in\s+(.+?)(?:\s+if\s+(.+))?', _norm(for_rest))
    if not hm:
        raise Unsupported('%s: loop header `%s`' % (where, for_rest))
    keyvar, valvar, iter_expr, loop_if = hm.group(1), hm.group(2), _norm(hm.group(3)), hm.group(4)
    skip: typing.List[str] = []
    if loop_if:
        skip += _skip_from_cond(loop_if, keyvar)
    for w, rest, _m in inner:
        if w == 'if':
            skip += _skip_from_cond(rest, keyvar)
        else:
            raise Unsupported('%s: guard statement inside `%s %s`' % (where, w, rest[:60]))
    # loop body extent: up to the matching endfor
    depth, end = 0, None
    for m, w, rest in _tags(text):
        if m.start() <= for_m.start():
            continue
        if w in OPENERS or (w == 'set' and '=' not in rest):
            depth += 1
        elif w.startswith('end'):
            if depth == 0:
                if w != 'endfor':
                    raise Unsupported('%s: loop closed by %s' % (where, w))
                end = m
                break
            depth -= 1
    if end is None:
        raise Unsupported('%s: no endfor' % where)
    body = text[for_m.end():end.start()]
    # other statements of the body: only a `loop.first` banner and the supported key conditions
    for m, w, rest in _tags(body):
        if w in ('if', 'elif') and _norm(rest) not in ('loop.first',):
            _skip_from_cond(rest, keyvar)   # raises when unsupported
        elif w not in ('if', 'endif'):
            raise Unsupported('%s: `%s` inside the guard loop' % (where, w))
    if unless_omit:
        after = text[end.end():]
        if not re.match(r'\s*\{%-?\s*endif\s*-?%\}', after):
            raise Unsupported('%s: the omit condition does not end right after the loop' % where)

    def canon(e: str) -> str:
        e = _norm(e)
        e = re.sub(r'\b%s\b' % re.escape(keyvar), 'key', e)
        e = re.sub(r'\b%s\b' % re.escape(valvar), 'value', e)
        return e

    msg_exprs: typing.List[str] = []
    if kind == 'type':
        am = re.search(r'^[ \t]*static_assert\(\s*(?P<lhs>[^\n]+?)\s*==\s*\{\{\s*(?P<val>[^}]+?)\s*\}\}\s*,(?P<msg>.*?)\)\s*;[ \t]*$', body, re.S | re.M)
        if not am or am.start() > body.index(FILTER):
            raise Unsupported('%s: no `static_assert( <symbol> == {{ value | %s }}, ...);` in the loop' % (where, FILTER))
        if MESSAGE not in re.sub(r'"\s*"', '', am.group('msg')):
            raise Unsupported('%s: the assertion message does not name the mismatch' % where)
        if len(re.findall(r'static_assert\s*\(', body)) != 1:
            raise Unsupported('%s: more than one static_assert in the loop' % where)
        lhs = am.group('lhs')
        val = am.group('val')
        # every template expression interpolated inside the string literals of the message
        msg_exprs = [canon(e) for e in re.findall(r'\{\{\s*(.*?)\s*\}\}', am.group('msg'), re.S)]
    elif lang == 'c':
        am = re.search(r'^[ \t]*#[ \t]*define[ \t]+(?P<lhs>\{\{[^\n]+?\}\})[ \t]+\{\{\s*(?P<val>[^}]+?)\s*\}\}[ \t]*$', body, re.M)
        if not am:
            raise Unsupported('%s: no `#define {{ name }} {{ value | %s }}` in the loop' % (where, FILTER))
        lhs = am.group('lhs')
        val = am.group('val')
    else:
        am = re.search(r'^[ \t]*constexpr[ \t]+std::uint32_t[ \t]+(?P<lhs>\{\{[^\n]+?\}\})[ \t]*=[ \t]*\{\{\s*(?P<val>[^}]+?)\s*\}\}[ \t]*;[ \t]*$', body, re.M)
        if not am:
            raise Unsupported('%s: no `constexpr std::uint32_t {{ name }} = {{ value | %s }};` in the loop' % (where, FILTER))
        ns = _namespaces(text[:for_m.start()], where)
        lhs = '::'.join(ns + [am.group('lhs')])
        val = am.group('val')
    # name expression: one {{ ... }} with an optional literal prefix
    nm = re.fullmatch(r'(?P<prefix>[\w:]*)\{\{\s*(?P<e>.+?)\s*\}\}', lhs.strip())
    if not nm:
        raise Unsupported('%s: symbol expression `%s`' % (where, lhs))
    name = nm.group('prefix') + '{{ ' + canon(nm.group('e')) + ' }}'
    val = canon(val)
    val = re.sub(r'\|\s*ln\.c\.' + FILTER, '| ' + FILTER, val)
    if keyvar == valvar:
        raise Unsupported('%s: loop variables' % where)
    # C-level context of the statements: comments, preprocessor conditionals, includes before the assertions
    stmt_pos = for_m.end() + am.start('lhs')
    in_comment, pp = c_context(text, stmt_pos, where)
    for_comment, for_pp = c_context(text, for_m.start(), where)
    in_comment = in_comment or for_comment
    pp = pp + [x for x in for_pp if x not in pp]
    first_pos = stmt_pos
    if keyset is not None:
        in_comment = in_comment or keyset['in_comment']
        pp = pp + [x for x in keyset['pp'] if x not in pp]
        first_pos = min(first_pos, keyset['pos'])
    includes_before = True
    if kind == 'type':
        # the include loop `{% for n in T | includes %} #include {{ n }} {% endfor %}` must precede every assertion, live
        includes_before = False
        fm = re.search(r'\{%-?\s*for\s+(\w+)\s+in\s+T\s*\|\s*includes\s*-?%\}', text)
        if fm:
            depth, iend = 0, None
            for m_, w_, rest_ in _tags(text):
                if m_.start() < fm.end():
                    continue
                if w_ in OPENERS or (w_ == 'set' and '=' not in rest_):
                    depth += 1
                elif w_.startswith('end'):
                    if depth == 0:
                        iend = m_ if w_ == 'endfor' else None
                        break
                    depth -= 1
            if iend is not None and iend.end() <= first_pos:
                ibody = text[fm.end():iend.start()]
                lm = re.search(r'^[ \t]*#[ \t]*include[ \t]+\{\{\s*%s\s*\}\}[ \t]*$' % re.escape(fm.group(1)), ibody, re.M)
                if lm:
                    ipos = fm.end() + lm.start() + lm.group(0).index('#')
                    ic, ipp = c_context(text, ipos, where)
                    inner_stack = [(w_, _cond(r_)) for w_, r_, _m in _block_stack(text, ipos, where)]
                    outer_ok = all(x == ('if', 'not nunavut.support.omit') for x in inner_stack[:-1]) if inner_stack else False
                    includes_before = (not ic) and not [x for x in ipp if x not in pp] and bool(inner_stack) \
                        and inner_stack[-1][0] == 'for' and outer_ok
    if keyset is not None and keyset['unless_omit'] != unless_omit:
        raise Unsupported('%s: the key-set fingerprint and the option loop are not under the same omit condition' % where)
    return {'iter': iter_expr, 'skip': sorted(set(skip)), 'name': name, 'value': val, 'unless_omit': unless_omit,
            'keyset': keyset['symbol'] if keyset else None,
            'msg_exprs': classify_msg_exprs(msg_exprs + (keyset['msg_exprs'] if keyset else []), where)[0],
            'path_escape': classify_msg_exprs(msg_exprs + (keyset['msg_exprs'] if keyset else []), where)[1],
            'in_comment': in_comment, 'pp': pp, 'includes_before': includes_before}


# ---------------------------------------------------------------------------------------------
# T1: options, documented domain, rendered names
# ---------------------------------------------------------------------------------------------

_PROBE = r'''
import json, sys, yaml
import nunavut.lang, nunavut.lang.c, nunavut.lang.cpp
from nunavut.lang import LanguageContextBuilder
doc = yaml.safe_load(open(sys.argv[1], encoding='utf-8'))
keys = json.loads(sys.argv[2])
out = {'yaml': {}, 'names': {}}
for lang in ('c', 'cpp'):
    sec = doc['nunavut.lang.' + lang]
    out['yaml'][lang] = {'options': list(sec.get('options', {}).items()),
                         'defaults': {k: list(v.items()) for k, v in (sec.get('defaults') or {}).items()}}
ctx = LanguageContextBuilder(include_experimental_languages=True).set_target_language('c').create()
lc = ctx.get_target_language()
out['names']['c'] = [(k, nunavut.lang.c.filter_macrofy(lc, 'NUNAVUT_SUPPORT_LANGUAGE_OPTION_{}'.format(k))) for k in keys['c']]
ctx = LanguageContextBuilder(include_experimental_languages=True).set_target_language('cpp').create()
lp = ctx.get_target_language()
out['names']['cpp'] = [(k, nunavut.lang.cpp.filter_id(lp, k)) for k in keys['cpp']]
out['effective'] = {'c': list(lc.get_options().items()), 'cpp': list(lp.get_options().items())}
print('@@' + json.dumps(out))
'''


def _repo_env() -> dict:
    env = dict(os.environ)
    env['PYTHONPATH'] = os.path.join(gen.REPO, 'src')
    env['PYTHONDONTWRITEBYTECODE'] = '1'
    env['PYTHONHASHSEED'] = '0'
    return env


def cli_choices(tree: ast.Module, flag: str) -> typing.List[str]:
    for n in ast.walk(tree):
        if (isinstance(n, ast.Call) and isinstance(n.func, ast.Attribute) and n.func.attr == 'add_argument'
                and any(isinstance(a, ast.Constant) and a.value == flag for a in n.args)):
            for kw in n.keywords:
                if kw.arg == 'choices':
                    v = ast.literal_eval(kw.value)
                    if isinstance(v, list) and all(isinstance(x, str) for x in v):
                        return v
            raise Unsupported('%s has no literal choices' % flag)
    raise Unsupported('%s not found in cli/__init__.py' % flag)


def enum_values(tree: ast.Module, cls: str) -> typing.List[str]:
    for n in tree.body:
        if isinstance(n, ast.ClassDef) and n.name == cls:
            vals = [s.value.value for s in n.body if isinstance(s, ast.Assign) and isinstance(s.value, ast.Constant) and isinstance(s.value.value, str)]
            if vals:
                return vals
    raise Unsupported('enum %s not found' % cls)


def load_facts() -> dict:
    """everything T1 reads; also used by the check to build the same option sets (tools/checks/c17.py)"""
    cli = gen.parse_repo('src/nunavut/cli/__init__.py')
    cpp_py = gen.parse_repo('src/nunavut/lang/cpp/__init__.py')
    endian = cli_choices(cli, '--target-endianness')
    stds = cli_choices(cli, '--language-standard')
    ctor = enum_values(cpp_py, 'ConstructorConvention')
    yaml_path = os.path.join(gen.REPO, 'src/nunavut/lang/properties.yaml')
    # first pass without names to learn the keys
    import yaml  # the raw document only; nunavut itself is imported in the subprocess
    with open(yaml_path, encoding='utf-8') as f:
        doc = yaml.safe_load(f)
    std_by_lang: typing.Dict[str, typing.List[str]] = {'c': [], 'cpp': []}
    for s in stds:
        if '++' in s:
            std_by_lang['cpp'].append(s)
        elif re.fullmatch(r'c\d\d', s):
            std_by_lang['c'].append(s)
        else:
            raise Unsupported('cannot attribute --language-standard choice %r to a language' % s)
    opts = {}
    groups = {}
    for lang in ('c', 'cpp'):
        sec = doc.get('nunavut.lang.' + lang) or {}
        o = sec.get('options')
        if not isinstance(o, dict) or not o:
            raise Unsupported('nunavut.lang.%s has no options' % lang)
        opts[lang] = list(o.items())
        groups[lang] = {k: dict(v) for k, v in (sec.get('defaults') or {}).items()}
    docs_vals = docs_option_values([k for lang in ('c', 'cpp') for k, _ in opts[lang]])
    domain: typing.Dict[str, typing.List[typing.Tuple[str, list]]] = {}
    optional: typing.Dict[str, typing.List[str]] = {'c': [], 'cpp': []}
    for lang in ('c', 'cpp'):
        other = 'cpp' if lang == 'c' else 'c'
        dom = []
        keys = [k for k, _ in opts[lang]]
        for k, dv in opts[lang]:
            vals = [dv]
            if isinstance(dv, bool):
                vals += [True, False]
            if k == 'target_endianness':
                vals += endian
            if k == 'std':
                for s in std_by_lang[lang]:
                    vals.append(groups[lang].get(s, {}).get('std', s))   # shorthand -> effective value
            if k == 'ctor_convention':
                vals += ctor
            vals += [v for v in docs_vals.get(k, []) if type(v) is type(dv)]   # values shown in docs/*.rst
            for g in groups[lang].values():
                if k in g:
                    vals.append(g[k])
            for ok, ov in opts[other]:
                if ok == k and type(ov) is type(dv):
                    vals.append(ov)
            for g in groups[other].values():
                if k in g and type(g[k]) is type(dv):
                    vals.append(g[k])
            # quoted-include form (docs/languages.rst) with a header the check can provide, and free text containing the
            # characters that are special inside a C string literal
            if k.endswith('_include') and isinstance(dv, str):
                vals.append(LOCAL_INCLUDE % k)
            if k == 'cast_format' and isinstance(dv, str):
                vals.append(dv + SPECIAL_SUFFIX)
            # free-text options: the same text written with different spacing is a different value
            vals += [''.join(v.split()) for v in list(vals) if isinstance(v, str) and v != ''.join(v.split())]
            uniq = []
            for v in vals:
                if not any(type(v) is type(u) and v == u for u in uniq):
                    uniq.append(v)
            dom.append((k, uniq))
        if 'std' not in keys and std_by_lang[lang]:
            # --language-standard adds the key `std` to the option set of a language that has no such default
            dom.append(('std', list(std_by_lang[lang])))
            optional[lang].append('std')
        domain[lang] = dom
    keys = {lang: [k for k, _ in domain[lang]] for lang in ('c', 'cpp')}
    # documented key sets: the yaml keys plus any subset of the optional keys
    keysets = {}
    for lang in ('c', 'cpp'):
        base = [k for k, _ in opts[lang]]
        ks = [list(base)]
        for k in optional[lang]:
            ks += [x + [k] for x in ks]
        keysets[lang] = ks
    p = subprocess.run([os.environ.get('VERIF_PY', '/venv/bin/python'), '-c', _PROBE, yaml_path, json.dumps(keys)],
                       env=_repo_env(), stdout=subprocess.PIPE, stderr=subprocess.STDOUT, text=True, timeout=120)
    if p.returncode != 0 or '@@' not in p.stdout:
        raise Unsupported('probe of the real name filters failed: %s' % p.stdout[-400:])
    probe = json.loads(p.stdout[p.stdout.index('@@') + 2:])
    for lang in ('c', 'cpp'):
        if [list(x) for x in probe['yaml'][lang]['options']] != [list(x) for x in opts[lang]]:
            raise Unsupported('yaml seen by the subprocess differs')
    return {'options': opts, 'groups': groups, 'domain': domain, 'optional': optional, 'names': probe['names'], 'keysets': keysets,
            'effective_defaults': probe['effective'], 'endianness': endian, 'std_choices': std_by_lang, 'ctor': ctor}


# ---------------------------------------------------------------------------------------------
# T1: which template renders each composite class, and does it reach the guard of base.j2?
# ---------------------------------------------------------------------------------------------

def composite_classes() -> typing.List[typing.Tuple[str, typing.List[str]]]:
    """concrete pydsdl composite classes with their MRO names (pydsdl is a third-party library, imported for data)"""
    import pydsdl

    def subs(c):
        out = []
        for x in c.__subclasses__():
            out.append(x)
            out += subs(x)
        return out
    seen, out = set(), []
    for c in subs(pydsdl.CompositeType):
        if c.__name__ not in seen:
            seen.add(c.__name__)
            out.append((c.__name__, [b.__name__ for b in c.__mro__]))
    return out


def template_reaches_guard(lang: str, name: str, seen: typing.Tuple[str, ...] = ()) -> bool:
    """True iff rendering templates/<name> necessarily renders base.j2 outside of any block, i.e. the scanned guard:
    `extends "<literal>"` as the first tag (child templates can only replace blocks, and scan_loop has established that the
    guard of base.j2 is outside every block), or an unconditional top-level `include '<literal>'`."""
    d = 'src/nunavut/lang/%s/templates/' % lang
    if name in seen:
        return False
    if name == 'base.j2':
        return True
    try:
        text = _strip_comments(gen.read_repo(d + name))
    except OSError:
        return False
    tags = list(_tags(text))
    if tags and tags[0][1] == 'extends':
        m = re.fullmatch(r'''(["'])([\w./-]+)\1''', tags[0][2].strip())
        return bool(m) and not text[:tags[0][0].start()].strip() and template_reaches_guard(lang, m.group(2), seen + (name,))
    if any(w == 'extends' for _m, w, _r in tags):
        return False
    for m_, w, rest in tags:
        if w == 'include':
            im = re.fullmatch(r'''(["'])([\w./-]+)\1''', rest.strip())
            if im and not _block_stack(text, m_.start() - 1 if m_.start() else 0, name) and template_reaches_guard(lang, im.group(2), seen + (name,)):
                return True
    return False


def entry_templates(lang: str) -> typing.List[typing.Tuple[str, str, bool]]:
    d = os.path.join(gen.REPO, 'src/nunavut/lang/%s/templates' % lang)
    have = set(os.listdir(d))
    out = []
    for cls, mro in composite_classes():
        t = next((b + '.j2' for b in mro if b + '.j2' in have), '')
        out.append((cls, t, bool(t) and template_reaches_guard(lang, t)))
    return out


def docs_option_values(keys: typing.Iterable[str]) -> typing.Dict[str, list]:
    """`key: value` lines of the YAML examples in docs/languages.rst and docs/templates.rst for known option keys"""
    import yaml
    out: typing.Dict[str, list] = {}
    ks = set(keys)
    for rel in ('docs/languages.rst', 'docs/templates.rst'):
        try:
            text = gen.read_repo(rel)
        except OSError:
            continue
        for m in re.finditer(r'^[ \t]+(\w+):[ \t]+(\S.*?)[ \t]*$', text, re.M):
            if m.group(1) in ks:
                try:
                    v = yaml.safe_load(m.group(2))
                except Exception:
                    continue
                if isinstance(v, (bool, int, str)):
                    out.setdefault(m.group(1), []).append(v)
    return out


def _coq_side(name: str, s: dict) -> str:
    return ('Definition %s : side :=\n  {| sd_iter := %s;\n     sd_skip := [%s];\n     sd_name := %s;\n     sd_value := %s;\n     sd_unless_omit := %s;\n     sd_keyset := %s;\n     sd_msg_exprs := [%s];\n     sd_path_escape := [%s];\n     sd_in_comment := %s;\n     sd_pp_context := [%s];\n     sd_includes_before := %s |}.'
            % (name, coq_str(s['iter']), '; '.join(coq_str(k) for k in s['skip']), coq_str(s['name']), coq_str(s['value']),
               'true' if s['unless_omit'] else 'false', ('Some %s' % coq_str(s['keyset'])) if s['keyset'] else 'None',
               '; '.join(coq_str(e) for e in s['msg_exprs']),
               '; '.join('(%d, %s)' % (ord(a), coq_str(b)) for a, b in s['path_escape']), 'true' if s['in_comment'] else 'false',
               '; '.join(coq_str(e) for e in s['pp']), 'true' if s['includes_before'] else 'false'))


def gen_optguard() -> typing.Tuple[bool, str]:
    try:
        tree = gen.parse_repo('src/nunavut/lang/c/__init__.py')
        sav, examples = translate_sav(tree)
        cpp_tree = gen.parse_repo('src/nunavut/lang/cpp/__init__.py')
        if any(isinstance(n, ast.FunctionDef) and n.name == 'filter_' + FILTER for n in cpp_tree.body):
            raise Unsupported('lang/cpp defines its own %s (the unqualified filter name would resolve differently)' % FILTER)
        sides = {k: scan_loop(k[0], k[1], gen.read_repo(rel)) for k, rel in TEMPLATES.items()}
        facts = load_facts()
        entries = {lang: entry_templates(lang) for lang in ('c', 'cpp')}
        classes = [c for c, _ in composite_classes()]
    except (Unsupported, SyntaxError, OSError, ValueError, KeyError, subprocess.SubprocessError) as ex:
        gen.write_if_changed(OUT, HEAD + '(* translator failed closed: %s *)\n' % str(ex).replace('*)', '* )').replace('(*', '( *'))
        return False, 'C17 translator failed closed: %s' % ex
    parts = [sav]
    parts.append('(* examples of the filter docstring *)\nDefinition sav_doc_examples : list (oval * Z) :=\n  [%s].'
                 % ';\n   '.join('(%s, (%d)%%Z)' % (coq_val(v), z) for v, z in examples))
    for lang in ('c', 'cpp'):
        parts.append('(* ---- %s ---- *)' % lang)
        parts.append(_coq_side('%s_support_side' % lang, sides[(lang, 'support')]))
        parts.append(_coq_side('%s_type_side' % lang, sides[(lang, 'type')]))
        parts.append('(* options of nunavut.lang.%s in properties.yaml, in file order *)\nDefinition %s_defaults : list (list N * oval) :=\n  [%s].'
                     % (lang, lang, ';\n   '.join('(%s, %s)' % (coq_str(k), coq_val(v)) for k, v in facts['options'][lang])))
        parts.append('(* documented values per option *)\nDefinition %s_domain : list (list N * list oval) :=\n  [%s].'
                     % (lang, ';\n   '.join('(%s,\n      [%s])' % (coq_str(k), ';\n       '.join(coq_val(v) for v in vs)) for k, vs in facts['domain'][lang])))
        parts.append('(* documented key sets *)\nDefinition %s_keysets : list (list (list N)) :=\n  [%s].'
                     % (lang, ';\n   '.join('[%s]' % '; '.join(coq_str(k) for k in ks) for ks in facts['keysets'][lang])))
        parts.append('(* symbol rendered for each key by the real filter *)\nDefinition %s_names : list (list N * list N) :=\n  [%s].'
                     % (lang, ';\n   '.join('(%s, %s)' % (coq_str(k), coq_str(n)) for k, n in facts['names'][lang])))
    parts.append('(* concrete pydsdl composite classes; per language: (class, template that renders it, template reaches the guard) *)\n'
                 'Definition composite_classes : list (list N) :=\n  [%s].' % '; '.join(coq_str(c) for c in classes))
    for lang in ('c', 'cpp'):
        parts.append('Definition %s_entry_templates : list (list N * list N * bool) :=\n  [%s].'
                     % (lang, ';\n   '.join('(%s, %s, %s)' % (coq_str(c), coq_str(t), 'true' if r else 'false') for c, t, r in entries[lang])))
    parts.append('(* fully qualified option symbols *)\nDefinition c_symbols : list (list N) := map snd c_names.\n'
                 'Definition cpp_symbols : list (list N) := map (fun kn => %s ++ snd kn) cpp_names.' % coq_str('nunavut::support::options::'))
    gen.write_if_changed(OUT, HEAD + '\n\n'.join(parts) + '\n')
    return True, 'ok (%d + %d options, %d docstring examples)' % (len(facts['options']['c']), len(facts['options']['cpp']), len(examples))


GENERATORS = {'optguard': gen_optguard}
