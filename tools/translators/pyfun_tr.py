"""T2: fail-closed translator from a whitelist of small pure Python functions in /repo
to Gallina.  The translation is syntax-directed over the Python `ast`; every construct
outside the supported subset raises Unsupported for that function only.

Types known to the translator (Python value -> Gallina type):
    int    -> Z
    bool   -> bool
    str    -> str  (list of code points, Common/Str.v)
    (a, b) -> a * b
    re.Match | None -> option (nat * str)   (start index, suffix after the match)
    record of self attributes -> a generated Record

A function is described by a `FunSpec` (which attributes of `self` are state, the
types of the parameters and of the result).  Statements are translated in
"return-passing" style: a block is an expression of the result type; an `if`
without `return` in both branches is continued with the rest of the block in both
branches.  Methods that mutate `self` return `(self', result)`.
"""
from __future__ import annotations

import ast
import dataclasses
import typing

from . import regex_tr


class Unsupported(Exception):
    pass


# ----- types ---------------------------------------------------------------------------------
T_INT = 'Z'
T_BOOL = 'bool'
T_STR = 'str'
T_MATCH = 'option (nat * str)'
T_MATCHV = '(nat * str)'
T_NAT = 'nat'


def t_pair(a: str, b: str) -> str:
    return '(%s * %s)' % (a, b)


def is_pair(t: str) -> typing.Optional[typing.Tuple[str, str]]:
    if not (t.startswith('(') and t.endswith(')')):
        return None
    depth = 0
    body = t[1:-1]
    for i, ch in enumerate(body):
        if ch == '(':
            depth += 1
        elif ch == ')':
            depth -= 1
        elif ch == '*' and depth == 0 and body[i - 1] == ' ' and body[i + 1] == ' ':
            return body[:i - 1], body[i + 2:]
    return None


@dataclasses.dataclass
class FunSpec:
    cls: typing.Optional[str]            # class name or None for a module-level function
    name: str                            # function name
    coq_name: str
    params: typing.Dict[str, str]        # parameter name -> Gallina type (excluding self)
    ret: str                             # Gallina type of the Python return value
    state: typing.Dict[str, str] = dataclasses.field(default_factory=dict)     # self attr -> type (mutable/record state)
    consts: typing.Dict[str, typing.Tuple[str, str]] = dataclasses.field(default_factory=dict)  # self attr -> (coq ident, type), immutable
    mutates: bool = False
    extra_params: typing.List[typing.Tuple[str, str]] = dataclasses.field(default_factory=list)  # leading Gallina params (e.g. u : uni)
    ctor: bool = False                   # translate __init__ as a constructor of the state record


class Ctx:
    def __init__(self, spec: FunSpec, record: typing.Optional[str]):
        self.spec = spec
        self.record = record
        self.fresh = 0

    def field(self, attr: str) -> str:
        return '%s_%s' % (self.spec.cls, attr.lstrip('_'))


def _int_lit(n: int) -> str:
    return '(%d)%%Z' % n


def _str_lit(s: str) -> str:
    return '([%s]%%N : str)' % '; '.join(str(ord(c)) for c in s)


class Tr:
    def __init__(self, ctx: Ctx):
        self.ctx = ctx

    # ----- expressions -----------------------------------------------------------------------
    def expr(self, e: ast.expr, env: typing.Dict[str, typing.Tuple[str, str]]) -> typing.Tuple[str, str]:
        c = self.ctx
        if isinstance(e, ast.Constant):
            if isinstance(e.value, bool):
                return ('true' if e.value else 'false'), T_BOOL
            if isinstance(e.value, int):
                return _int_lit(e.value), T_INT
            if isinstance(e.value, str):
                return _str_lit(e.value), T_STR
            raise Unsupported('constant %r' % (e.value,))
        if isinstance(e, ast.Name):
            if e.id not in env:
                raise Unsupported('free name %s' % e.id)
            return env[e.id]
        if isinstance(e, ast.Attribute) and isinstance(e.value, ast.Name) and e.value.id == 'self':
            if e.attr in c.spec.state:
                if 'self' not in env:
                    raise Unsupported('self not in scope')
                return '(%s %s)' % (c.field(e.attr), env['self'][0]), c.spec.state[e.attr]
            if e.attr in c.spec.consts:
                return c.spec.consts[e.attr]
            raise Unsupported('self.%s' % e.attr)
        if isinstance(e, ast.Tuple):
            if len(e.elts) != 2:
                raise Unsupported('tuple arity')
            a, ta = self.expr(e.elts[0], env)
            b, tb = self.expr(e.elts[1], env)
            return '(%s, %s)' % (a, b), t_pair(ta, tb)
        if isinstance(e, ast.Subscript):
            v, tv = self.expr(e.value, env)
            sl = e.slice
            pr = is_pair(tv)
            if pr is not None and isinstance(sl, ast.Constant) and sl.value in (0, 1):
                return ('(fst %s)' % v, pr[0]) if sl.value == 0 else ('(snd %s)' % v, pr[1])
            if tv == T_STR and isinstance(sl, ast.Slice) and sl.lower is None and sl.step is None and sl.upper is not None:
                up, tu = self.expr(sl.upper, env)
                if tu == T_NAT:
                    return '(firstn %s %s)' % (up, v), T_STR
                raise Unsupported('slice upper bound of type %s (sign not known)' % tu)
            raise Unsupported('subscript')
        if isinstance(e, ast.Call):
            f = e.func
            if isinstance(f, ast.Name) and f.id == 'len' and len(e.args) == 1:
                v, tv = self.expr(e.args[0], env)
                if tv != T_STR:
                    raise Unsupported('len of %s' % tv)
                return '(Z.of_nat (length %s))' % v, T_INT
            if isinstance(f, ast.Attribute) and f.attr == 'search' and len(e.args) == 1 and not e.keywords:
                pat, tp = self.expr(f.value, env)
                if tp != 're':
                    raise Unsupported('search on non-pattern')
                v, tv = self.expr(e.args[0], env)
                if tv != T_STR:
                    raise Unsupported('search subject')
                return '(re_search u %s %s)' % (pat, v), T_MATCH
            if isinstance(f, ast.Attribute) and f.attr == 'start' and not e.args:
                v, tv = self.expr(f.value, env)
                if tv != T_MATCHV:
                    raise Unsupported('.start() on %s' % tv)
                return '(fst %s)' % v, T_NAT
            raise Unsupported('call %s' % ast.dump(f))
        if isinstance(e, ast.Compare) and len(e.ops) == 1:
            a, ta = self.expr(e.left, env)
            b, tb = self.expr(e.comparators[0], env)
            op = e.ops[0]
            if ta == T_INT and tb == T_INT:
                tbl = {ast.Eq: 'Z.eqb', ast.Gt: 'Z.gtb', ast.Lt: 'Z.ltb', ast.GtE: 'Z.geb', ast.LtE: 'Z.leb'}
                for k, fn in tbl.items():
                    if isinstance(op, k):
                        return '(%s %s %s)' % (fn, a, b), T_BOOL
                if isinstance(op, ast.NotEq):
                    return '(negb (Z.eqb %s %s))' % (a, b), T_BOOL
            raise Unsupported('compare %s %s' % (ta, tb))
        if isinstance(e, ast.BinOp):
            a, ta = self.expr(e.left, env)
            b, tb = self.expr(e.right, env)
            if ta == T_INT and tb == T_INT:
                tbl = {ast.Add: 'Z.add', ast.Sub: 'Z.sub', ast.Mult: 'Z.mul', ast.FloorDiv: 'Z.div', ast.Mod: 'Z.modulo'}
                for k, fn in tbl.items():
                    if isinstance(e.op, k):
                        return '(%s %s %s)' % (fn, a, b), T_INT
            raise Unsupported('binop')
        if isinstance(e, ast.BoolOp):
            parts = [self.expr(v, env) for v in e.values]
            if any(t != T_BOOL for _, t in parts):
                raise Unsupported('boolop on non-bool')
            fn = 'andb' if isinstance(e.op, ast.And) else 'orb'
            r = parts[-1][0]
            for p, _ in reversed(parts[:-1]):
                r = '(%s %s %s)' % (fn, p, r)
            return r, T_BOOL
        if isinstance(e, ast.UnaryOp) and isinstance(e.op, ast.Not):
            a, ta = self.expr(e.operand, env)
            if ta != T_BOOL:
                raise Unsupported('not on non-bool')
            return '(negb %s)' % a, T_BOOL
        raise Unsupported('expression %s' % type(e).__name__)

    # ----- statements ------------------------------------------------------------------------
    def ret(self, v: str, env) -> str:
        if self.ctx.spec.mutates:
            return '(%s, %s)' % (env['self'][0], v)
        return v

    def block(self, stmts: typing.List[ast.stmt], env) -> str:
        c = self.ctx
        if not stmts:
            raise Unsupported('control reaches the end of the function without return')
        s, rest = stmts[0], stmts[1:]
        if isinstance(s, ast.Expr) and isinstance(s.value, ast.Constant) and isinstance(s.value.value, str):
            return self.block(rest, env)  # docstring
        if isinstance(s, ast.Return):
            if s.value is None:
                raise Unsupported('bare return')
            v, tv = self.expr(s.value, env)
            if tv != c.spec.ret:
                raise Unsupported('return type %s, expected %s' % (tv, c.spec.ret))
            return self.ret(v, env)
        if isinstance(s, (ast.Assign, ast.AugAssign, ast.AnnAssign)):
            if isinstance(s, ast.Assign):
                if len(s.targets) != 1:
                    raise Unsupported('multi-assign')
                tgt, val = s.targets[0], s.value
            elif isinstance(s, ast.AnnAssign):
                tgt, val = s.target, s.value
                if val is None:
                    raise Unsupported('annotation only')
            else:
                tgt = s.target
                val = ast.BinOp(left=_load(tgt), op=s.op, right=s.value)
            v, tv = self.expr(val, env)
            if isinstance(tgt, ast.Name):
                c.fresh += 1
                nm = '%s_%d' % (tgt.id, c.fresh)
                env2 = dict(env)
                env2[tgt.id] = (nm, tv)
                return '(let %s := %s in\n  %s)' % (nm, v, self.block(rest, env2))
            if isinstance(tgt, ast.Attribute) and isinstance(tgt.value, ast.Name) and tgt.value.id == 'self':
                if not c.spec.mutates or tgt.attr not in c.spec.state:
                    raise Unsupported('assignment to self.%s' % tgt.attr)
                if tv != c.spec.state[tgt.attr]:
                    raise Unsupported('type of self.%s' % tgt.attr)
                c.fresh += 1
                nm = 'self_%d' % c.fresh
                env2 = dict(env)
                env2['self'] = (nm, c.record)
                return '(let %s := %s in\n  %s)' % (nm, self.update(env['self'][0], tgt.attr, v), self.block(rest, env2))
            raise Unsupported('assignment target')
        if isinstance(s, ast.If):
            # `x is not None` / `x is None` on an optional: bind the payload in the Some-branch
            t = s.test
            if (isinstance(t, ast.Compare) and len(t.ops) == 1 and isinstance(t.ops[0], (ast.IsNot, ast.Is))
                    and isinstance(t.comparators[0], ast.Constant) and t.comparators[0].value is None
                    and isinstance(t.left, ast.Name)):
                v, tv = self.expr(t.left, env)
                if tv != T_MATCH:
                    raise Unsupported('None-test on %s' % tv)
                c.fresh += 1
                nm = '%s_v%d' % (t.left.id, c.fresh)
                env_some = dict(env)
                env_some[t.left.id] = (nm, T_MATCHV)
                some_b, none_b = (s.body, s.orelse) if isinstance(t.ops[0], ast.IsNot) else (s.orelse, s.body)
                return ('(match %s with\n  | Some %s => %s\n  | None => %s\n  end)'
                        % (v, nm, self.block(list(some_b) + rest, env_some), self.block(list(none_b) + rest, env)))
            tv, tt = self.expr(t, env)
            if tt != T_BOOL:
                raise Unsupported('if on %s' % tt)
            return ('(if %s\n  then %s\n  else %s)'
                    % (tv, self.block(list(s.body) + rest, env), self.block(list(s.orelse) + rest, env)))
        raise Unsupported('statement %s' % type(s).__name__)

    def update(self, selfv: str, attr: str, v: str) -> str:
        c = self.ctx
        fields = []
        for a in c.spec.state:
            fields.append('%s := %s' % (c.field(a), v if a == attr else '(%s %s)' % (c.field(a), selfv)))
        return '{| %s |}' % '; '.join(fields)


def _load(t: ast.expr) -> ast.expr:
    t2 = ast.parse(ast.unparse(t), mode='eval').body
    return t2


def find_function(tree: ast.Module, cls: typing.Optional[str], name: str) -> ast.FunctionDef:
    body = tree.body
    if cls is not None:
        classes = [n for n in body if isinstance(n, ast.ClassDef) and n.name == cls]
        if len(classes) != 1:
            raise Unsupported('class %s found %d times' % (cls, len(classes)))
        body = classes[0].body
    hits = [n for n in body if isinstance(n, (ast.FunctionDef, ast.AsyncFunctionDef, ast.ClassDef)) and n.name == name]
    rebound = [n for n in body if isinstance(n, (ast.Assign, ast.AnnAssign, ast.AugAssign, ast.Delete))
               and any(isinstance(x, ast.Name) and x.id == name for t in (getattr(n, 'targets', None) or [n.target]) for x in ast.walk(t))]
    if len(hits) > 1 or rebound:   # Python binds the LAST definition / the re-bound value: translating the first would describe dead code
        raise Unsupported('%s is defined %d times / re-bound %d times in one scope' % (name, len(hits), len(rebound)))
    if hits and isinstance(hits[0], ast.FunctionDef):
        return hits[0]
    raise Unsupported('function %s not found' % name)


def record_decl(cls: str, state: typing.Dict[str, str]) -> str:
    fields = '; '.join('%s_%s : %s' % (cls, a.lstrip('_'), t) for a, t in state.items())
    return 'Record %s_state := { %s }.' % (cls, fields)


def translate_method(tree: ast.Module, spec: FunSpec) -> str:
    fn = find_function(tree, spec.cls, spec.name)
    if fn.decorator_list and not all(isinstance(d, ast.Name) and d.id in ('staticmethod', 'classmethod') for d in fn.decorator_list):
        raise Unsupported('decorators')
    args = [a.arg for a in fn.args.args]
    if fn.args.vararg or fn.args.kwarg or fn.args.kwonlyargs:
        raise Unsupported('varargs')
    record = ('%s_state' % spec.cls) if spec.state else None
    ctx = Ctx(spec, record)
    tr = Tr(ctx)
    env: typing.Dict[str, typing.Tuple[str, str]] = {}
    params = list(spec.extra_params)
    for a in args:
        if a in ('self', 'cls'):
            if spec.state and not spec.ctor:
                env['self'] = ('self', record)
                params.append(('self', record))
            continue
        if a not in spec.params:
            raise Unsupported('parameter %s has no declared type' % a)
        env[a] = (a, spec.params[a])
        params.append((a, spec.params[a]))
    if set(spec.params) - set(args):
        raise Unsupported('declared parameters missing: %s' % (set(spec.params) - set(args)))
    if spec.ctor:
        body = _translate_ctor(fn, tr, env, spec)
        rett = record
    else:
        body = tr.block(list(fn.body), env)
        rett = t_pair(record, spec.ret) if spec.mutates else spec.ret
    ps = ' '.join('(%s : %s)' % p for p in params)
    return 'Definition %s %s : %s :=\n  %s.' % (spec.coq_name, ps, rett, body)


def _translate_ctor(fn: ast.FunctionDef, tr: Tr, env, spec: FunSpec) -> str:
    vals: typing.Dict[str, str] = {}
    for s in fn.body:
        if isinstance(s, ast.Expr) and isinstance(s.value, ast.Constant):
            continue
        if (isinstance(s, ast.Assign) and len(s.targets) == 1 and isinstance(s.targets[0], ast.Attribute)
                and isinstance(s.targets[0].value, ast.Name) and s.targets[0].value.id == 'self'):
            attr = s.targets[0].attr
            if attr in spec.consts:
                continue
            if attr not in spec.state or attr in vals:
                raise Unsupported('ctor assigns self.%s' % attr)
            v, tv = tr.expr(s.value, env)
            if tv != spec.state[attr]:
                raise Unsupported('ctor type of self.%s' % attr)
            vals[attr] = v
            continue
        raise Unsupported('ctor statement %s' % type(s).__name__)
    if set(vals) != set(spec.state):
        raise Unsupported('ctor does not initialise %s' % (set(spec.state) - set(vals)))
    return '{| %s |}' % '; '.join('%s_%s := %s' % (spec.cls, a.lstrip('_'), vals[a]) for a in spec.state)


def find_compiled_pattern(tree: ast.AST, attr_or_name: str) -> typing.Tuple[str, int]:
    """Find `<x>.<attr> = re.compile(<str>[, flags=...])` or `<name> = re.compile(...)`; returns (pattern, flagbits)
    where flagbits is 0 or the literal names of flags joined (only re.MULTILINE recognised)."""
    found = []
    for n in ast.walk(tree):
        if isinstance(n, ast.Assign) and len(n.targets) == 1:
            t = n.targets[0]
            nm = t.attr if isinstance(t, ast.Attribute) else (t.id if isinstance(t, ast.Name) else None)
            if nm != attr_or_name:
                continue
            v = n.value
            if (isinstance(v, ast.Call) and isinstance(v.func, ast.Attribute) and v.func.attr == 'compile'
                    and isinstance(v.func.value, ast.Name) and v.func.value.id == 're'
                    and len(v.args) == 1 and isinstance(v.args[0], ast.Constant) and isinstance(v.args[0].value, str)):
                flags = 0
                for kw in v.keywords:
                    if kw.arg == 'flags' and isinstance(kw.value, ast.Attribute) and kw.value.attr == 'MULTILINE':
                        flags = 8
                    else:
                        raise Unsupported('re.compile keyword')
                found.append((v.args[0].value, flags))
            else:
                raise Unsupported('%s is not a literal re.compile' % attr_or_name)
    if len(found) != 1:
        raise Unsupported('%d definitions of %s' % (len(found), attr_or_name))
    return found[0]


def pattern_def(coq_name: str, pattern: str, flags: int) -> str:
    r = regex_tr.parse(pattern)
    if flags == 8 and regex_tr.has_anchor(r):
        raise Unsupported('MULTILINE with anchors')
    if flags not in (0, 8):
        raise Unsupported('flags')
    return '(* pattern %r *)\nDefinition %s : re :=\n  %s.' % (pattern, coq_name, regex_tr.to_coq(r))
