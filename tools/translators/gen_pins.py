"""Shape pins registered as generators (see shape_pin.py)."""
from . import shape_pin

LINEBUF = [('src/nunavut/jinja/__init__.py', 'CodeGenerator._generate_with_line_buffer'),
           ('src/nunavut/jinja/__init__.py', 'CodeGenerator._filter_and_write_line'),
           ('src/nunavut/jinja/__init__.py', '_rejoin_split_crlf'),
           ('src/nunavut/jinja/__init__.py', 'SupportGenerator._copy_header_using_line_pps'),
           ('src/nunavut/jinja/__init__.py', 'CodeGenerator._generate_code'),
           ('src/nunavut/jinja/__init__.py', '_reset_line_pp'),
           ('src/nunavut/jinja/__init__.py', 'CodeGenerator._handle_post_processors'),
           ('src/nunavut/jinja/__init__.py', 'CodeGenerator.__augment_post_processors_with_ln_limit_empty_lines'),
           ('src/nunavut/jinja/__init__.py', 'CodeGenerator.__augment_post_processors_with_ln_trim_trailing_whitespace'),
           ('src/nunavut/cli/runners.py', 'ArgparseRunner._build_post_processor_list_from_args'),
           ('src/nunavut/jinja/__init__.py', 'CodeGenerator.__init__'),
           ('src/nunavut/jinja/__init__.py', 'SupportGenerator.generate_all'),
           ('src/nunavut/jinja/__init__.py', 'SupportGenerator._generate_header'),
           ('src/nunavut/jinja/__init__.py', 'SupportGenerator._copy_header')]


def pin_linebuf():
    return shape_pin.check_pin('linebuf', LINEBUF)


GENERATORS = {'pin_linebuf': pin_linebuf}
