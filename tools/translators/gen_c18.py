"""C18 translator -> coq/theories/Generated/Gen_PyObj.v

T2 (code): `pick_width`, the nested function of `filter_numpy_scalar_type` (src/nunavut/lang/py/__init__.py), is translated
from its `ast`.  Supported shape (anything else fails closed): `for o in [<int constants>]: if w <= o: return o` followed by a
`raise`; result: `find (fun o => w <=? o) [...]`.  The dtype dispatch of the filter itself (bool / signed / unsigned / float /
object, each `_np_.<kind>{pick_width(bit_length)}`) is checked to have exactly that form.

Template facts (small fail-closed scanner over lang/py/templates/base.j2): the record `tmpl` of Gen/PyObj.v --
which comparison assign_array uses for fixed/variable arrays, whether each of its three branches tests the length, for which
element types the bytes fast path exists, whether the integer / float / composite setters guard the store with their check,
below which width the float check is emitted, where and how the union setter clears the other options, how the union
constructor counts its arguments, and that the constructor assigns through the properties (never to `self._x` directly).
A region that does not have the expected overall shape makes the generator fail closed (stub file); a region that has the
shape but lacks a check yields `false` for that fact, which breaks the proofs that need it.
"""
from __future__ import annotations

import ast
import os
import re
import typing

from . import gen

OUT = os.path.join(gen.GEN_DIR, 'Gen_PyObj.v')
PY_INIT = 'src/nunavut/lang/py/__init__.py'
BASE_J2 = 'src/nunavut/lang/py/templates/base.j2'
HEAD = gen.HEADER % (PY_INIT + ', ' + BASE_J2) + 'From Coq Require Import List ZArith Bool.\nFrom Verif Require Import PyObj.\n' \
       'Import ListNotations.\nOpen Scope Z_scope.\n\n'


class Closed(Exception):
    pass


# ---------------------------------------------------------------------------------------------------------------------
# pick_width
# ---------------------------------------------------------------------------------------------------------------------

def translate_pick_width() -> typing.Tuple[str, typing.List[int]]:
    tree = gen.parse_repo(PY_INIT)
    outer = None
    for n in ast.walk(tree):
        if isinstance(n, ast.FunctionDef) and n.name == 'filter_numpy_scalar_type':
            outer = n
    if outer is None:
        raise Closed('filter_numpy_scalar_type not found')
    body = [s for s in outer.body if not (isinstance(s, ast.Expr) and isinstance(s.value, ast.Constant))]
    if not body or not isinstance(body[0], ast.FunctionDef) or body[0].name != 'pick_width':
        raise Closed('filter_numpy_scalar_type does not start with the nested pick_width')
    pwf = body[0]
    if [a.arg for a in pwf.args.args] != ['w'] or len(pwf.body) != 2:
        raise Closed('pick_width: unexpected signature/body')
    loop, tail = pwf.body
    if not (isinstance(loop, ast.For) and isinstance(loop.target, ast.Name) and isinstance(loop.iter, ast.List)
            and all(isinstance(e, ast.Constant) and type(e.value) is int for e in loop.iter.elts)
            and not loop.orelse and len(loop.body) == 1 and isinstance(tail, ast.Raise)):
        raise Closed('pick_width: not `for o in [..]: ...; raise`')
    o = loop.target.id
    test = loop.body[0]
    if not (isinstance(test, ast.If) and not test.orelse and len(test.body) == 1 and isinstance(test.body[0], ast.Return)
            and isinstance(test.body[0].value, ast.Name) and test.body[0].value.id == o
            and isinstance(test.test, ast.Compare) and len(test.test.ops) == 1 and isinstance(test.test.ops[0], ast.LtE)
            and isinstance(test.test.left, ast.Name) and test.test.left.id == 'w'
            and isinstance(test.test.comparators[0], ast.Name) and test.test.comparators[0].id == o):
        raise Closed('pick_width: loop body is not `if w <= o: return o`')
    widths = [e.value for e in loop.iter.elts]
    # dispatch: isinstance(t, pydsdl.X) -> f"_np_.<kind>{pick_width(t.bit_length)}"
    want = {'BooleanType': '_np_.bool_', 'SignedIntegerType': '_np_.int', 'UnsignedIntegerType': '_np_.uint', 'FloatType': '_np_.float'}
    seen = {}
    for s in body[1:]:
        if isinstance(s, ast.If) and isinstance(s.test, ast.Call) and getattr(s.test.func, 'id', '') == 'isinstance' \
                and len(s.body) == 1 and isinstance(s.body[0], ast.Return):
            cls = s.test.args[1].attr if isinstance(s.test.args[1], ast.Attribute) else '?'
            v = s.body[0].value
            if isinstance(v, ast.Constant):
                seen[cls] = v.value
            elif isinstance(v, ast.JoinedStr) and len(v.values) == 2 and isinstance(v.values[0], ast.Constant) \
                    and isinstance(v.values[1], ast.FormattedValue) and ast.unparse(v.values[1].value) == 'pick_width(t.bit_length)':
                seen[cls] = v.values[0].value
            else:
                raise Closed('filter_numpy_scalar_type: unsupported return for ' + cls)
        elif isinstance(s, ast.Assert):
            continue
        elif isinstance(s, ast.Return) and isinstance(s.value, ast.Constant):
            seen['*'] = s.value.value
        else:
            raise Closed('filter_numpy_scalar_type: unsupported statement ' + ast.unparse(s)[:60])
    if seen != dict(want, **{'*': '_np_.object_'}):
        raise Closed('filter_numpy_scalar_type: dtype dispatch changed: %r' % (seen,))
    text = ('Definition pick_width_gen (w : Z) : option Z := find (fun o => w <=? o) [%s].\n'
            % '; '.join(str(w) for w in widths))
    return text, widths


# ---------------------------------------------------------------------------------------------------------------------
# base.j2
# ---------------------------------------------------------------------------------------------------------------------

def strip_comments(text: str) -> str:
    """Template text without Jinja comments `{# .. #}` and without Python comments `# ..` (to the end of the line).  A real
    tokenizer: Jinja expressions/statements and Python string literals (single, double, triple quoted, with escapes) are copied
    verbatim, so a `#` inside them is not a comment and a statement after a comment can never be swallowed by a pattern."""
    out: typing.List[str] = []
    i, n = 0, len(text)
    while i < n:
        two = text[i:i + 2]
        if two == '{#':
            j = text.find('#}', i + 2)
            if j < 0:
                raise Closed('unterminated Jinja comment')
            i = j + 2
            out.append(' ')
        elif two in ('{{', '{%'):
            end = '}}' if two == '{{' else '%}'
            j = text.find(end, i + 2)
            if j < 0:
                raise Closed('unterminated Jinja tag')
            out.append(text[i:j + 2])
            i = j + 2
        elif text[i] in '\'"':
            q = text[i] * 3 if text[i:i + 3] in ("\'\'\'", '"""') else text[i]
            j = i + len(q)
            while True:
                if j >= n:
                    raise Closed('unterminated string literal in the template')
                if text[j] == '\\':
                    j += 2
                    continue
                if text.startswith(q, j):
                    break
                j += 1
            out.append(text[i:j + len(q)])
            i = j + len(q)
        elif text[i] == '#':
            j = text.find('\n', i)
            i = n if j < 0 else j
        else:
            out.append(text[i])
            i += 1
    return ''.join(out)


def structure(text: str) -> str:
    """The template as a list of `<indent>|<content>` lines: comments removed by the tokenizer, the text of every f-string / string
    message after `ValueError(` masked, blank lines dropped, inner white space squashed -- but the INDENTATION of every line kept, so
    that moving a statement into or out of a Python block, or appending code to a `raise` line, changes the text."""
    t = strip_comments(text)
    t = re.sub(r"(ValueError\()\s*f?'(?:[^'\\]|\\.)*'(?:\s*f?'(?:[^'\\]|\\.)*')*", r"\1f'...'", t, flags=re.S)
    t = re.sub(r"(_warnings_\.warn\()'(?:[^'\\]|\\.)*'", r"\1'...'", t)
    out = []
    for ln in t.split('\n'):
        if ln.strip():
            out.append('%d|%s' % (len(ln) - len(ln.lstrip(' ')), ' '.join(ln.split())))
    return '\n'.join(out) + '\n'


STRUCT_DIR = os.path.join(os.path.dirname(os.path.abspath(__file__)), 'pins', 'c18_basej2_struct.d')


def struct_variant(raw: str) -> typing.Optional[str]:
    """name of the reviewed variant of base.j2 (pins/c18_basej2_struct.d/*.txt) whose structure equals that of the tree, or None"""
    cur = structure(raw)
    try:
        names = sorted(os.listdir(STRUCT_DIR))
    except OSError:
        return None
    for n in names:
        if n.endswith('.txt') and open(os.path.join(STRUCT_DIR, n), encoding='utf-8').read() == cur:
            return n[:-4]
    return None


def squash(s: str) -> str:
    return ' '.join(strip_comments(s).split())


def between(text: str, start: str, end: str, what: str) -> str:
    """the region after the ONE occurrence of `start` up to the next `end` (a second definition of a macro would shadow the first
    in Jinja: more than one occurrence fails closed)"""
    if text.count(start) != 1:
        raise Closed('%s: start marker occurs %d times' % (what, text.count(start)))
    i = text.find(start)
    j = text.find(end, i + len(start))
    if j < 0:
        raise Closed('%s: end marker not found' % what)
    return text[i + len(start):j]


CMP = {'==': 'CmpEq', '<=': 'CmpLe', '<': 'CmpLt', '>=': 'CmpGe'}
SRC = r'\{\{ src \}\}'
CMPCAP = r' \{\{ cmp \}\} \{\{ t\.capacity \}\}'
NST = r'\{\{ t\.element_type\|numpy_scalar_type \}\}'
FID = r'\{\{ f\|id \}\}'
FRN = r'\{\{ f\.data_type\|full_reference_name \}\}'


def b(x: bool) -> str:
    return 'true' if x else 'false'


def scan_template() -> typing.Dict[str, str]:
    raw = gen.read_repo(BASE_J2)
    cf = squash(raw)                     # comment-free, white space squashed: everything below works on this text
    facts: typing.Dict[str, str] = {}
    for name in ('assign_array', 'data_schema', 'strict_type_annotation', 'relaxed_type_annotation', 'printable_field_representation'):
        if len(re.findall(r'\{%-? macro ' + name + r'\(', cf)) != 1:
            raise Closed('macro %s is not defined exactly once' % name)
    if len(re.findall(r'\{%-? macro ', cf)) != 5:
        raise Closed('base.j2 defines other macros than the five known ones')

    # ---- macro assign_array ---------------------------------------------------------------------------------------
    m = between(cf, '{%- macro assign_array(f, src) -%}', '{%- endmacro -%}', 'assign_array')
    mm = re.search(r"if t is FixedLengthArrayType -%\} \{%- set cmp = '([^']*)' -%\} \{%- elif t is VariableLengthArrayType -%\} "
                   r"\{%- set cmp = '([^']*)' -%\} \{%- else -%\}\{%- assert False -%\} \{%- endif -%\}", m)
    if not mm:
        raise Closed('assign_array: cmp selection not recognised')
    facts['t_cmp_fixed'] = CMP.get(mm.group(1), 'CmpNone')
    facts['t_cmp_var'] = CMP.get(mm.group(2), 'CmpNone')
    if facts['t_cmp_fixed'] == 'CmpNone' or facts['t_cmp_var'] == 'CmpNone':
        raise Closed('assign_array: unknown comparison %r / %r' % (mm.group(1), mm.group(2)))
    if not re.search(r"\{%- if t\.string_like -%\} " + SRC + r" = " + SRC + r"\.encode\(\) if isinstance\(" + SRC + r", str\) else "
                     + SRC + r" \{% endif -%\}", m):
        raise Closed('assign_array: implicit string encoding not recognised')
    # the three branches bind either `self._<f>` directly (shipped shape) or the local `_a_` that is range-checked and then
    # stored (shape of the F-PY-ARRELEM fix); one and the same target in all three
    mb = re.search(r"\{%- if t\.element_type is UnsignedIntegerType and t\.element_type\.bit_length <= (\d+) -%\} "
                   r"if isinstance\(" + SRC + r", \(bytes, bytearray\)\)( and len\(" + SRC + r"\)" + CMPCAP + r")?: "
                   r"(if not len\(" + SRC + r"\)" + CMPCAP + r": raise ValueError\(f'.*?'\) )?"
                   r"(self\._" + FID + r"|_a_) = _np_\.frombuffer\(" + SRC + ", " + NST + r"\) el \{% endif -%\}", m)
    if not mb:
        raise Closed('assign_array: bytes fast path not recognised')
    facts['t_bytes_max_w'] = mb.group(1)
    if mb.group(2) is not None and mb.group(3) is not None:
        raise Closed('assign_array: the bytes branch tests the length twice')
    facts['t_len_bytes'] = b(mb.group(2) is not None or mb.group(3) is not None)
    bytes_raise = mb.group(3) is not None          # the branch is taken by type alone and raises on an illegal length
    local = mb.group(4) == '_a_'
    tgt = '_a_' if local else r"self\._" + FID
    rest = m[mb.end():]
    mn = re.match(r" if isinstance\(" + SRC + r", _np_\.ndarray\) and " + SRC + r"\.dtype == " + NST + r" and " + SRC + r"\.ndim == 1"
                  r"( and " + SRC + r"\.size" + CMPCAP + r")?: " + tgt + " = " + SRC + r" else: ", rest)
    if not mn:
        raise Closed('assign_array: ndarray fast binding not recognised')
    facts['t_len_nd'] = b(mn.group(1) is not None)
    rest = rest[mn.end():]
    rmin = r"\{\{ t\.element_type\.inclusive_value_range\.min \}\}"
    rmax = r"\{\{ t\.element_type\.inclusive_value_range\.max \}\}"
    if not local:
        ms = re.match(r"" + SRC + r" = _np_\.array\(" + SRC + ", " + NST + r"\)\.flatten\(\) "
                      r"(if not " + SRC + r"\.size" + CMPCAP + r": raise ValueError\(f'.*?'\) )?self\._" + FID + " = " + SRC + " assert ", rest)
        if not ms:
            raise Closed('assign_array: slow path not recognised')
        facts['t_len_slow'] = b(ms.group(1) is not None)
        if bytes_raise:
            raise Closed('assign_array: text guard in the pre-F-PY-ARRELEM shape')
        facts['t_text_guard'] = 'false'
        facts['t_src_exact'] = 'false'
        facts['exc_cast'] = 'false'
        facts['t_precheck_nd_only'] = 'false'
        facts['t_arr_precheck'] = 'false'
        facts['arrelem_quirk'] = 'true'
    else:
        mg = re.match(r"if isinstance\(" + SRC + r", \(bytes, bytearray, str\)\): raise ValueError\(f'.*?'\) ", rest)
        if mg:
            rest = rest[mg.end():]
        if bool(mg) != bytes_raise:
            raise Closed('assign_array: the text guard is only half there (bytes branch raises: %s, conversion path rejects text: %s)'
                         % (bytes_raise, bool(mg)))
        facts['t_text_guard'] = b(bytes_raise)
        # shape of the F-PY-NPSCALAR fix: every numeric element is checked exactly by the module-level helper _int_elements_ok_
        mh = re.match(r"\{%- if t\.element_type is IntegerType %\} if not _int_elements_ok_\(" + SRC + ", " + rmin + ", " + rmax + r"\): "
                      r"raise ValueError\(f'.*?'\) \{%- endif %\} ", rest)
        facts['t_src_exact'] = b(bool(mh))
        if mh:
            rest = rest[mh.end():]
        mt = re.match(r"try: (_a_ = _np_\.array\(" + SRC + ", " + NST + r"\)\.flatten\(\)) except OverflowError as _ex_: raise ValueError\(f'[^']*'\) from None ", rest)
        facts['exc_cast'] = b(bool(mt))
        if mt:
            rest = mt.group(1) + ' ' + rest[mt.end():]
        ms = re.match(r"(\{%- if t\.element_type is IntegerType %\} _s_ = _np_\.asarray\(" + SRC + r"\) "
                      r"(?:if _s_\.size and _s_\.dtype\.kind in 'iufO' and not \(" + rmin + r" <= _s_\.min\(\) and _s_\.max\(\) <= " + rmax + r"\): "
                      r"|((?:if _s_\.size and _s_\.dtype\.kind in 'iufO': "
                      r"|(if _s_\.size and \(_s_\.dtype\.kind in 'iuO' or \(_s_\.dtype\.kind == 'f' and isinstance\(" + SRC + r", _np_\.ndarray\)\)\): ))"
                      r"_lo_, _hi_ = _s_\.min\(\), _s_\.max\(\) if _s_\.dtype\.kind != 'O': "
                      r"_lo_, _hi_ = _lo_\.item\(\), _hi_\.item\(\) if not \(" + rmin + r" <= _lo_ and _hi_ <= " + rmax + r"\): ))"
                      r"raise ValueError\(f'.*?'\) \{%- endif %\} )?_a_ = _np_\.array\(" + SRC + ", " + NST + r"\)\.flatten\(\) "
                      r"(if not _a_\.size" + CMPCAP + r": raise ValueError\(f'.*?'\) )?"
                      r"\{%- if t\.element_type is FloatType and t\.element_type\.bit_length < (\d+) %\} "
                      r"_x_ = _np_\.abs\(_np_\.asarray\(" + SRC + r", _np_\.float64\)\) "
                      r"if \(_np_\.isfinite\(_x_\) & \(_x_ > " + rmax + r"\.0\)\)\.any\(\): raise ValueError\(f'.*?'\) \{%- endif %\} "
                      r"\{%- if t\.element_type is IntegerType and t\.element_type\.bit_length not in \(([0-9, ]+)\) %\} "
                      r"if _a_\.size and not \(" + rmin + r" <= int\(_a_\.min\(\)\) and int\(_a_\.max\(\)\) <= " + rmax + r"\): "
                      r"raise ValueError\(f'.*?'\) \{%- endif %\} self\._" + FID + r" = _a_ assert ", rest)
        if not ms:
            raise Closed('assign_array: element-checked slow path / element checks / final store not recognised')
        if mh and ms.group(1) is not None:
            raise Closed('assign_array: both the helper check and the inline source check')
        facts['t_arr_precheck'] = b(ms.group(1) is not None or bool(mh))
        facts['precheck_exact'] = b(ms.group(2) is not None or bool(mh))     # bounds compared as Python numbers, not in the source dtype
        facts['t_precheck_nd_only'] = b(ms.group(3) is not None or bool(mh))  # (vacuous with t_src_exact: no float64 inference is trusted)
        facts['t_len_slow'] = b(ms.group(4) is not None)
        facts['arrelem_quirk'] = 'false'
        facts['elem_float_below'] = ms.group(5)
        facts['elem_std_widths'] = [int(x) for x in ms.group(6).replace(' ', '').split(',')]

    # ---- property setters -----------------------------------------------------------------------------------------
    s = between(cf, '@{{ f|id }}.setter', '{% endfor -%}', 'setter').strip()
    ms = re.match(r"def " + FID + r"\(self, x: \{\{ relaxed_type_annotation\(f\.data_type\) \}\}\) -> None: "
                  r"\{%- if f\.data_type is BooleanType %\}(.*?)\{%- elif f\.data_type is IntegerType %\}(.*?)"
                  r"\{%- elif f\.data_type is FloatType %\}(.*?)\{%- elif f\.data_type is ArrayType %\}(.*?)"
                  r"\{%- elif f\.data_type is CompositeType %\}(.*?)\{%- else -%\}\{% assert False %\} \{%- endif %\}(.*)$", s)
    if not ms:
        ms = re.match(r"def " + FID + r"\(self, x: \{\{ relaxed_type_annotation\(f\.data_type\) \}\}\) -> None: "
                      r"\{%- if f\.data_type is BooleanType %\}(.*?)\{%- elif f\.data_type is IntegerType %\}(.*?)"
                      r"\{%- elif f\.data_type is FloatType %\}(.*?)\{%- elif f\.data_type is ArrayType %\}(.*?)"
                      r"\{%- elif f\.data_type is CompositeType %\}(.*?)\{%- else -%\}\{%- assert False -%\} \{%- endif %\}(.*)$", s)
    if not ms:
        raise Closed('setter: branch structure not recognised')
    s_bool, s_int, s_float, s_arr, s_comp, s_tail = (g.strip() for g in ms.groups())
    doc = r'(?:""".*?""" )?'
    if not re.fullmatch(r"self\._" + FID + r" = bool\(x\)", s_bool):
        raise Closed('setter: boolean branch not recognised')
    rng = r"\{\{ f\.data_type\.inclusive_value_range\.min \}\}(\.0)? <= x <= \{\{ f\.data_type\.inclusive_value_range\.max \}\}(\.0)?"
    if '{%' in s_int:
        raise Closed('setter: integer branch contains template logic')
    mi_ = re.fullmatch(doc + r"(?:x = int\(x\)|(try: x = int\(x\) except OverflowError: raise ValueError\(f'[^']*'\) from None)) if " + rng
                       + r": self\._" + FID + r" = x else: raise ValueError\(f'[^']*'\)", s_int)
    if mi_:
        facts['exc_int'] = b(mi_.group(1) is not None)
        facts['t_int_check'] = 'true'
    elif re.fullmatch(doc + r"(x = int\(x\) self\._" + FID + r" = x|self\._" + FID + r" = int\(x\))", s_int):
        facts['t_int_check'] = 'false'
    else:
        raise Closed('setter: integer branch not recognised')
    mf = re.fullmatch(doc + r"\{%- if f\.data_type\.bit_length < (\d+) %\} (.*?) \{%- else %\} (?:self\._" + FID
                      + r" = float\(x\)|(try: self\._" + FID + r" = float\(x\) except OverflowError: raise ValueError\(f'[^']*'\) from None)) \{%- endif %\}", s_float)
    if not mf:
        raise Closed('setter: float branch not recognised')
    facts['t_float_check_below'] = mf.group(1)
    inner = mf.group(2)
    facts['exc_float64'] = b(mf.group(3) is not None)
    mi = re.fullmatch(r"(?:x = float\(x\)|(try: x = float\(x\) except OverflowError: raise ValueError\(f'[^']*'\) from None)) in_range = " + rng + r" if in_range( or not _np_\.isfinite\(x\))?: self\._" + FID
                      + r" = x else: raise ValueError\(f'.*'\)", inner)
    if mi:
        if mi.group(2) != '.0' or mi.group(3) != '.0':
            raise Closed('setter: float range bounds are not rendered as floats')
        facts['exc_float'] = b(mi.group(1) is not None)
        facts['t_float_check'] = 'true'
        facts['t_float_nonfinite_ok'] = b(mi.group(4) is not None)
    elif re.fullmatch(r"(x = float\(x\) self\._" + FID + r" = x|self\._" + FID + r" = float\(x\))", inner):
        facts['t_float_check'] = 'false'
        facts['t_float_nonfinite_ok'] = 'true'
    else:
        raise Closed('setter: checked float branch not recognised')
    if not re.fullmatch(r"\{\{ assign_array\(f, 'x'\) \| indent\(4\) \}\}", s_arr):
        raise Closed('setter: array branch is not a plain assign_array call')
    if re.fullmatch(r"if isinstance\(x, " + FRN + r"\): self\._" + FID + r" = x else: raise ValueError\(f'.*'\)", s_comp):
        comp_setter = True
    elif re.fullmatch(r"self\._" + FID + r" = x", s_comp):
        comp_setter = False
    else:
        raise Closed('setter: composite branch not recognised')
    mu = re.fullmatch(r"(?:\{%- if type\.inner_type is UnionType %\} \{%- for z in type\.fields( if z\.name != f\.name)? %\} "
                      r"self\._\{\{ z\|id \}\} = None \{%- endfor %\} \{%- endif %\})?", s_tail)
    if mu is None:
        raise Closed('setter: union bookkeeping after the branches not recognised')
    if s_tail == '':
        facts['t_union_clear_others'] = 'false'
    elif mu.group(1) is None:
        raise Closed('setter: the union setter clears its own option as well')
    else:
        facts['t_union_clear_others'] = 'true'
    facts['t_union_clear_after'] = 'true'      # the clearing loop can only be recognised after the branches (see regex above)

    # ---- constructor ----------------------------------------------------------------------------------------------
    ctor = between(cf, '{%- if type.inner_type is not UnionType -%}', '{%- for f in type.fields_except_padding %} @property', 'constructor').strip()
    parts = ctor.split('{%- else %} {%- for f in type.fields %}')   # struct part / union part
    if len(parts) != 2:
        raise Closed('constructor: struct/union split not recognised')
    c_struct, c_union = parts
    # every assignment goes through the property; `self._x: <annotation>` lines are declarations only
    for part, name in ((c_struct, 'struct'), (c_union, 'union')):
        if re.search(r"self\._\{\{ f\|id \}\}\s*=[^=]", part):
            raise Closed('constructor (%s): assigns to self._x directly, bypassing the setter' % name)
    for pat, what in (
            (r"\{%- if f\.data_type is BooleanType %\} self\." + FID + " = " + FID + " if " + FID + r" is not None else False ", 'bool'),
            (r"\{%- elif f\.data_type is IntegerType %\} self\." + FID + " = " + FID + " if " + FID + r" is not None else 0 ", 'int'),
            (r"\{%- elif f\.data_type is FloatType %\} self\." + FID + " = " + FID + " if " + FID + r" is not None else 0\.0 ", 'float'),
            (r"\{%- elif f\.data_type is FixedLengthArrayType %\} if " + FID + r" is None: .*? else: \{\{ assign_array\(f, f\|id\) \| indent\(8\) \}\} ",
             'fixed array'),
            (r"\{%- elif f\.data_type is VariableLengthArrayType %\} if " + FID + r" is None: self\." + FID + r" = _np_\.array\(\[\], "
             r"\{\{ f\.data_type\.element_type\|numpy_scalar_type \}\}\) else: \{\{ assign_array\(f, f\|id\) \| indent\(8\) \}\} ", 'variable array'),
    ):
        if not re.search(pat, c_struct):
            raise Closed('constructor: %s initialisation not recognised' % what)
    mc = re.search(r"\{%- elif f\.data_type is CompositeType %\} if " + FID + r" is None: self\." + FID + " = " + FRN + r"\(\) "
                   r"(elif isinstance\(" + FID + ", " + FRN + r"\): self\." + FID + " = " + FID + r" else: raise ValueError\(f'.*?' f'.*?'\)|"
                   r"else: self\." + FID + " = " + FID + r") \{%- else -%\}", c_struct)
    if not mc:
        raise Closed('constructor: composite initialisation not recognised')
    facts['t_comp_isinstance'] = b(comp_setter)     # the constructor assigns through the setter in both forms
    mu = re.search(r"_init_cnt_: int = 0 \{% for f in type\.fields %\} if " + FID + r" is not None: _init_cnt_ \+= 1 self\." + FID + " = " + FID
                   + r" \{% endfor %\} if _init_cnt_ == 0: .*? elif _init_cnt_ == 1: pass "
                   r"else: (raise ValueError\(f?'.*?'\)|pass)", c_union)
    if not mu:
        raise Closed('constructor: union argument counting not recognised')
    facts['t_union_ctor_count'] = b(mu.group(1).startswith('raise'))
    # ---- everything else of base.j2: pinned verbatim (comment-free), so that EVERY line is either scanned above or accounted for
    rest_text = cf
    for start, end, name in (('{%- macro assign_array(f, src) -%}', '{%- endmacro -%}', 'assign_array'),
                             ('{%- if type.inner_type is not UnionType -%}', '{%- for f in type.fields_except_padding %} @property', 'constructor'),
                             ('@{{ f|id }}.setter', '{% endfor -%}', 'setter')):
        i = rest_text.find(start)
        j = rest_text.find(end, i + len(start))
        rest_text = rest_text[:i + len(start)] + ' <<scanned: %s>> ' % name + rest_text[j:]
    facts['_rest'] = rest_text
    return facts


ORDER = ['t_int_check', 't_float_check', 't_float_nonfinite_ok', 't_float_check_below', 't_cmp_fixed', 't_cmp_var', 't_len_bytes',
         't_len_nd', 't_len_slow', 't_bytes_max_w', 't_comp_isinstance', 't_union_clear_others', 't_union_clear_after',
         't_union_ctor_count', 't_arr_precheck', 't_precheck_nd_only', 't_src_exact', 't_text_guard']


def gen_pyobj() -> typing.Tuple[bool, str]:
    try:
        pw_text, widths = translate_pick_width()
        facts = scan_template()
    except Closed as ex:
        gen.write_if_changed(OUT, gen.HEADER % (PY_INIT + ', ' + BASE_J2) + '(* translator failed closed: %s *)\n' % str(ex).replace('*)', '* )'))
        return False, 'failed closed: %s' % ex
    if facts.get('arrelem_quirk') == 'false':
        if facts['elem_float_below'] != facts.get('t_float_check_below') or facts['elem_std_widths'] != widths:
            gen.write_if_changed(OUT, gen.HEADER % BASE_J2 + '(* translator failed closed: element checks of assign_array use other bounds *)\n')
            return False, 'failed closed: element checks of assign_array: float bound %s vs %s, standard widths %r vs %r' % (
                facts['elem_float_below'], facts.get('t_float_check_below'), facts['elem_std_widths'], widths)
    missing = [k for k in ORDER + ['arrelem_quirk'] if k not in facts]
    if missing:
        gen.write_if_changed(OUT, gen.HEADER % BASE_J2 + '(* translator failed closed: facts missing %s *)\n' % missing)
        return False, 'failed closed: facts missing %r' % missing
    # EVERY line of base.j2 is accounted for: the comment-free, message-masked, INDENTATION-PRESERVING structure of the whole template
    # must equal one of the reviewed variants in pins/c18_basej2_struct.d/ (add one with `python -m tools.translators.gen_c18
    # --pin-struct <name>` after reviewing the diff); the patterns above only read the facts off a template of a known structure
    variant = struct_variant(gen.read_repo(BASE_J2))
    if variant is None:
        gen.write_if_changed(OUT, gen.HEADER % BASE_J2 + '(* translator failed closed: base.j2 has none of the reviewed structures *)\n')
        return False, 'failed closed: the structure of base.j2 (indentation-preserving, comments and messages masked) equals none of pins/c18_basej2_struct.d/*.txt'
    excs = [facts.get(k, 'false') for k in ('exc_cast', 'exc_int', 'exc_float', 'exc_float64')]
    if len(set(excs)) != 1:
        gen.write_if_changed(OUT, gen.HEADER % BASE_J2 + '(* translator failed closed: OverflowError is converted in some places only *)\n')
        return False, 'failed closed: OverflowError -> ValueError conversion present in some places only: %r' % excs
    text = HEAD + pw_text + '\nDefinition tmpl_gen : tmpl := {|\n' + ';\n'.join('  %s := %s' % (k, facts[k]) for k in ORDER) + '\n|}.\n'
    text += ('\n(* true: assign_array stores whatever NumPy converted (F-PY-ARRELEM); false: every branch binds a local that is checked\n'
             '   against the element range (integers of non-standard width on all paths, finite float16/32 values on the\n'
             '   conversion path) before it is stored *)\nDefinition arrelem_quirk_gen : bool := %s.\n' % facts['arrelem_quirk'])
    text += ('\n(* true: the range check of the source compares Python numbers (exact, as int_leaf_ok of Gen/PyObj.v does); false: it compares\n'
             '   in the dtype of the source array, where a bound may be rounded (F-PY-ARRWRAP-FPREC) or there is no such check *)\n'
             'Definition arr_precheck_exact_gen : bool := %s.\n' % facts.get('precheck_exact', 'false'))
    text += ('\n(* true: an OverflowError of int() / float() / np.array() on a value beyond the representable range is re-raised as the documented\n'
             '   ValueError (scalar setters and the array conversion) *)\nDefinition exc_overflow_wrapped_gen : bool := %s.\n' % excs[0])
    text += '\n(* reviewed structure of base.j2 this tree has: pins/c18_basej2_struct.d/%s.txt *)\n' % variant
    gen.write_if_changed(OUT, text)
    return True, 'pick_width over %r; template facts %s arrelem_quirk=%s' % (widths, ' '.join('%s=%s' % (k[2:], facts[k]) for k in ORDER), facts['arrelem_quirk'])


SUPPORT = 'src/nunavut/lang/py/support/nunavut_support.j2'
SUPPORT_FUNCS = ['to_builtin', '_to_builtin_impl', 'update_from_builtin', 'get_class', 'get_model', 'get_attribute', 'set_attribute']


SERVICE_J2 = 'src/nunavut/lang/py/templates/ServiceType.j2'


def pin_c18model() -> typing.Tuple[bool, str]:
    """`_MODEL_` (the law restore (filter_pickle m) = m of Gen/PyModelAttr.v is about exactly this shape): shape pin on
    filter_pickle (pickle.Pickler protocol 4 whose reducer resets pydsdl's memoization wrappers (/repo 14e49e7) and maps every
    pathlib.PurePath to the PurePosixPath relative to the parent of its root namespace directory (/repo b86b49b) -> gzip.compress mtime=0 -> base64.b85encode -> decode -> strip -> 100-character
    string literals joined by newlines), and a fail-closed text check of the two templates: `_MODEL_ = _restore_constant_(
    {{ <type> | pickle | indent(8) }} )` for the data classes and the service class, and `_restore_constant_` =
    pickle.loads(gzip.decompress(base64.b85decode(s))).  -> Generated/Gen_Pin_c18model.v"""
    from . import shape_pin
    ok, msg = shape_pin.check_pin('c18model', [(PY_INIT, 'filter_pickle')])
    if not ok:
        return ok, msg
    out = os.path.join(gen.GEN_DIR, 'Gen_Pin_c18model.v')
    base, svc = squash(gen.read_repo(BASE_J2)), squash(gen.read_repo(SERVICE_J2))
    want = [
        (base, r"_MODEL_: _pydsdl_\.\{\{ meta_type \}\} = _restore_constant_\( \{\{ type \| pickle \| indent\(8\) \}\} \) "
               r"assert isinstance\(_MODEL_, _pydsdl_\.\{\{ meta_type \}\}\)", 'base.j2: _MODEL_ of the data classes'),
        (base, r"def _restore_constant_\(encoded_string: str\) -> object: import pickle, gzip, base64 "
               r"return pickle\.loads\(gzip\.decompress\(base64\.b85decode\(encoded_string\)\)\)", 'base.j2: _restore_constant_'),
        (base, r"\{% set meta_type = type\.__class__\.__name__ -%\}", 'base.j2: meta_type'),
        (svc, r"_MODEL_: _pydsdl_\.ServiceType = _restore_constant_\( \{\{ T \| pickle \| indent\(8\) \}\} \) "
              r"assert isinstance\(_MODEL_, _pydsdl_\.ServiceType\)", 'ServiceType.j2: _MODEL_ of the service class'),
    ]
    for text, pat, what in want:
        if not re.search(pat, text):
            gen.write_if_changed(out, gen.HEADER % (BASE_J2 + ', ' + SERVICE_J2) + '(* %s not recognised: failed closed *)\n' % what)
            return False, 'pin c18model failed closed: %s not recognised' % what
    return True, 'ok'


def pin_c18support() -> typing.Tuple[bool, str]:
    """shape pin (tools/translators/shape_pin.py) on the reflection / conversion functions of the support library that
    Gen/PyObj.v models by hand (tb, ufb, default_obj lookups): pins/c18support.txt, Generated/Gen_Pin_c18support.v"""
    from . import shape_pin
    return shape_pin.check_pin('c18support', [(SUPPORT, f) for f in SUPPORT_FUNCS])


NS_J2 = 'src/nunavut/lang/py/templates/Namespace.j2'
OUT_ALIAS = os.path.join(gen.GEN_DIR, 'Gen_PyAlias.v')


def gen_pyalias() -> typing.Tuple[bool, str]:
    """T2: filter_newest_minor_version_aliases (lang/py/__init__.py) -> Generated/Gen_PyAlias.v, as a composition of the combinators of
    Gen/PyAlias.v.  Supported shape (anything else fails closed): `tys = list(tys)` and ONE return of a list comprehension
       [(f"{name}_{major}", max((t for t in tys if t.short_name == name and t.version.major == major), key=lambda x: int(x.version.minor)))
        for name, major in sorted({(x.short_name, x.version.major) for x in tys})]
    where the attribute paths decide which projections are used: the key must be int(<x>.version.minor), the group test must compare
    short_name and version.major with the loop variables, the groups must be sorted(<set of (short_name, version.major)>).
    Also the text of the two Namespace.j2 lines that emit the aliases is checked."""
    head = gen.HEADER % (PY_INIT + ', ' + NS_J2)

    def closed(why: str) -> typing.Tuple[bool, str]:
        gen.write_if_changed(OUT_ALIAS, head + '(* translator failed closed: %s *)\n' % why.replace('*)', '* )'))
        return False, 'failed closed: ' + why

    tree = gen.parse_repo(PY_INIT)
    fn = next((n for n in ast.walk(tree) if isinstance(n, ast.FunctionDef) and n.name == 'filter_newest_minor_version_aliases'), None)
    if fn is None:
        return closed('filter_newest_minor_version_aliases not found')
    body = [b_ for b_ in fn.body if not (isinstance(b_, ast.Expr) and isinstance(b_.value, ast.Constant))]
    arg = fn.args.args[0].arg if fn.args.args else None
    un = ast.unparse
    if not (len(body) == 2 and isinstance(body[0], ast.Assign) and un(body[0]) == '%s = list(%s)' % (arg, arg) and isinstance(body[1], ast.Return)
            and isinstance(body[1].value, ast.ListComp) and len(body[1].value.generators) == 1):
        return closed('body is not `tys = list(tys); return [<pair> for name, major in <groups>]`')
    lc = body[1].value
    g = lc.generators[0]
    if g.is_async or not (isinstance(g.target, ast.Tuple) and [un(e) for e in g.target.elts] == ['name', 'major']):
        return closed('loop variables are not `name, major`')
    guard_src = "f'{name}_{major}' not in {f'{t.short_name}_{t.version.major}_{t.version.minor}' for t in %s}" % arg
    if [un(i_) for i_ in g.ifs] != [guard_src]:      # only the guarded (post F-PY-ALIASCLASH) shape is accepted
        return closed('the aliases are not guarded against class identifiers: ' + '; '.join(un(i_) for i_ in g.ifs)[:120])
    guarded = bool(g.ifs)
    if un(g.iter) != 'sorted({(x.short_name, x.version.major) for x in %s})' % arg:
        return closed('groups are not sorted({(x.short_name, x.version.major) for x in tys}): ' + un(g.iter)[:80])
    if not (isinstance(lc.elt, ast.Tuple) and len(lc.elt.elts) == 2 and un(lc.elt.elts[0]) == "f'{name}_{major}'"):
        return closed('alias name is not f"{name}_{major}"')
    mx = lc.elt.elts[1]
    if not (isinstance(mx, ast.Call) and un(mx.func) == 'max' and len(mx.args) == 1 and len(mx.keywords) == 1 and mx.keywords[0].arg == 'key'):
        return closed('alias target is not max(<generator>, key=...)')
    if un(mx.args[0]) != '(t for t in %s if t.short_name == name and t.version.major == major)' % arg:
        return closed('group members are not (t for t in tys if t.short_name == name and t.version.major == major): ' + un(mx.args[0])[:100])
    if un(mx.keywords[0].value) != 'lambda x: int(x.version.minor)':
        return closed('key is not lambda x: int(x.version.minor): ' + un(mx.keywords[0].value)[:60])
    ns = squash(gen.read_repo(NS_J2))
    if len(re.findall(r'newest_minor_version_aliases', ns)) != 1 or not re.search(
            r'\{%- for alias, t in T\.get_nested_types\(\)\|map\("first"\)\|newest_minor_version_aliases %\} \{\{ alias \}\} = '
            r'\{\{ t\|short_reference_name \}\} \{%- endfor %\}', ns):
        return closed('Namespace.j2 does not emit `{{ alias }} = {{ t|short_reference_name }}` for the aliases of the filter (once)')
    text = head + ('From Coq Require Import List Arith Bool.\nFrom Verif Require Import PyAlias.\nImport ListNotations.\n\n'
                   '(* [(f"{name}_{major}", max((t for t in tys if t.short_name == name and t.version.major == major), key=lambda x: int(x.version.minor)))\n'
                   '    for name, major in sorted({(x.short_name, x.version.major) for x in tys})] *)\n'
                   '(* true: an alias whose identifier `<name>_<major>` equals the identifier `<name>_<major>_<minor>` of a class of the namespace\n'
                   '   is not emitted (fix of F-PY-ALIASCLASH) *)\n'
                   'Definition alias_guard_gen : bool := %s.\n\n'
                   'Definition aliases_gen (tys : list ver) : list (nat * nat * ver) :=\n'
                   '  flat_map (fun nm =>\n'
                   '              match py_max_by v_minor (filter (fun t => Nat.eqb (v_name t) (fst nm) && Nat.eqb (v_major t) (snd nm)) tys) with\n'
                   '              | Some t => [(fst nm, snd nm, t)]\n'
                   '              | None => []                      (* max() of an empty iterable raises; cannot happen: the group has a member *)\n'
                   '              end)\n'
                   '           (sorted_set (map (fun x => (v_name x, v_major x)) tys)).\n') % ('true' if guarded else 'false')
    gen.write_if_changed(OUT_ALIAS, text)
    return True, 'filter_newest_minor_version_aliases: max by int(version.minor) per (short_name, version.major)'


GENERATORS = {'pyalias': gen_pyalias, 'pyobj': gen_pyobj, 'pin_c18support': pin_c18support, 'pin_c18model': pin_c18model}


if __name__ == '__main__':
    import sys
    if len(sys.argv) == 3 and sys.argv[1] == '--pin-struct':     # development time only: accept the current structure as a reviewed variant
        os.makedirs(STRUCT_DIR, exist_ok=True)
        with open(os.path.join(STRUCT_DIR, sys.argv[2] + '.txt'), 'w', encoding='utf-8') as fh:
            fh.write(structure(gen.read_repo(BASE_J2)))
        print('pinned structure variant', sys.argv[2])
    if sys.argv[1:] == ['--pin-rest']:      # development time only: accept the current text outside the scanned regions
        f_ = scan_template()
        with open(os.path.join(os.path.dirname(os.path.abspath(__file__)), 'pins', 'c18_basej2_rest.txt'), 'w', encoding='utf-8') as fh:
            fh.write(f_['_rest'].strip() + '\n')
        print('pinned %d characters' % len(f_['_rest']))
