"""Regenerates coq/theories/Generated/*.v from /repo's working tree (translators T1 and T2).

Each generator returns (ok, message).  A file is rewritten only when its text changed so
that `make` stays incremental.  When a translator fails closed, the generated file is
replaced by a stub that does not define the translated objects: the dependent
proof files then fail to build and the verdict protocol takes over.
"""
from __future__ import annotations

import ast
import os
import re
import sys
import typing

from . import pyfun_tr, regex_tr
from .pyfun_tr import FunSpec, T_INT, T_STR, t_pair, Unsupported

REPO = os.environ.get('VERIF_REPO', '/repo')
VERIF = os.path.dirname(os.path.dirname(os.path.dirname(os.path.abspath(__file__))))
GEN_DIR = os.path.join(VERIF, 'coq', 'theories', 'Generated')

HEADER = '(* GENERATED from %s by tools/translators -- do not edit; rewritten on every check run *)\n'


def write_if_changed(path: str, text: str) -> bool:
    os.makedirs(os.path.dirname(path), exist_ok=True)
    try:
        with open(path, 'r', encoding='utf-8') as f:
            if f.read() == text:
                return False
    except FileNotFoundError:
        pass
    tmp = path + '.tmp%d' % os.getpid()
    with open(tmp, 'w', encoding='utf-8') as f:
        f.write(text)
    os.replace(tmp, path)
    return True


def read_repo(rel: str) -> str:
    with open(os.path.join(REPO, rel), 'r', encoding='utf-8') as f:
        return f.read()


def parse_repo(rel: str) -> ast.Module:
    return ast.parse(read_repo(rel), filename=rel)


# ---------------------------------------------------------------------------------------------
# Gen_Uni.v: Python's Unicode classes as range tables (from the running interpreter)
# ---------------------------------------------------------------------------------------------

def _ranges(pred) -> typing.List[typing.Tuple[int, int]]:
    out = []
    start = None
    for c in range(0x110000):
        if pred(chr(c)):
            if start is None:
                start = c
        elif start is not None:
            out.append((start, c - 1))
            start = None
    if start is not None:
        out.append((start, 0x10FFFF))
    return out


def unicode_tables() -> typing.Dict[str, typing.List[typing.Tuple[int, int]]]:
    s, d, w = re.compile(r'\s'), re.compile(r'\d'), re.compile(r'\w')
    return {
        'space': _ranges(lambda ch: s.match(ch) is not None),
        'digit': _ranges(lambda ch: d.match(ch) is not None),
        'word': _ranges(lambda ch: w.match(ch) is not None),
    }


def _coq_ranges(rs) -> str:
    lines = []
    cur = ''
    for lo, hi in rs:
        item = '(%d, %d); ' % (lo, hi)
        if len(cur) + len(item) > 110:
            lines.append(cur)
            cur = ''
        cur += item
    lines.append(cur)
    body = '\n   '.join(lines).rstrip().rstrip(';')
    return '[%s]%%N' % body


def gen_uni() -> typing.Tuple[bool, str]:
    t = unicode_tables()
    text = (HEADER % ('the running interpreter (%s)' % sys.version.split()[0])
            + 'From Verif Require Import Regex.\n\n'
            + 'Definition py_space : ranges :=\n  %s.\n\n' % _coq_ranges(t['space'])
            + 'Definition py_digit : ranges :=\n  %s.\n\n' % _coq_ranges(t['digit'])
            + 'Definition py_word : ranges :=\n  %s.\n\n' % _coq_ranges(t['word'])
            + 'Definition py_uni : uni := {| u_space := py_space; u_digit := py_digit; u_word := py_word |}.\n')
    write_if_changed(os.path.join(GEN_DIR, 'Gen_Uni.v'), text)
    return True, 'ok'


# ---------------------------------------------------------------------------------------------
# Gen_LinePP.v: the two built-in line post-processors and the newline pattern (C15, C10)
# ---------------------------------------------------------------------------------------------

LINE_T = t_pair(T_STR, T_STR)


def gen_linepp() -> typing.Tuple[bool, str]:
    out_path = os.path.join(GEN_DIR, 'Gen_LinePP.v')
    head = HEADER % 'src/nunavut/_postprocessors.py, src/nunavut/jinja/__init__.py' + 'From Verif Require Import Regex.\nOpen Scope Z_scope.\n\n'
    try:
        pp = parse_repo('src/nunavut/_postprocessors.py')
        jj = parse_repo('src/nunavut/jinja/__init__.py')
        parts = []
        pat, flags = pyfun_tr.find_compiled_pattern(pyfun_tr.find_function(pp, 'TrimTrailingWhitespace', '__init__'), '_trailing_ws_pattern')
        parts.append(pyfun_tr.pattern_def('trailing_ws_pattern', pat, flags))
        parts.append(pyfun_tr.translate_method(pp, FunSpec(
            cls='TrimTrailingWhitespace', name='__call__', coq_name='TrimTrailingWhitespace_call',
            params={'line_and_lineend': LINE_T}, ret=LINE_T,
            consts={'_trailing_ws_pattern': ('trailing_ws_pattern', 're')},
            extra_params=[('u', 'uni')])))
        lel_state = {'_max_empty_lines': T_INT, '_empty_line_count': T_INT}
        parts.append(pyfun_tr.record_decl('LimitEmptyLines', lel_state))
        parts.append(pyfun_tr.translate_method(pp, FunSpec(
            cls='LimitEmptyLines', name='__init__', coq_name='LimitEmptyLines_init',
            params={'max_empty_lines': T_INT}, ret='', state=lel_state, ctor=True)))
        parts.append(pyfun_tr.translate_method(pp, FunSpec(
            cls='LimitEmptyLines', name='__call__', coq_name='LimitEmptyLines_call',
            params={'line_and_lineend': LINE_T}, ret=LINE_T, state=lel_state, mutates=True)))
        pat, flags = pyfun_tr.find_compiled_pattern(pyfun_tr.find_function(jj, 'CodeGenerator', '_generate_with_line_buffer'), 'newline_pattern')
        parts.append(pyfun_tr.pattern_def('newline_pattern', pat, flags))
    except (Unsupported, regex_tr.Unsupported, SyntaxError, OSError) as ex:
        write_if_changed(out_path, head + '(* translator failed closed: %s *)\n' % str(ex).replace('*)', '* )'))
        return False, 'T2 failed closed on line post-processors: %s' % ex
    write_if_changed(out_path, head + '\n\n'.join(parts) + '\n')
    return True, 'ok'


GENERATORS = {
    'uni': gen_uni,
    'linepp': gen_linepp,
}


def _discover() -> None:
    """every tools/translators/gen_*.py contributes its own GENERATORS dict (name -> callable returning (ok, msg))"""
    import importlib
    here = os.path.dirname(os.path.abspath(__file__))
    for n in sorted(os.listdir(here)):
        if n.startswith('gen_') and n.endswith('.py'):
            m = importlib.import_module('tools.translators.' + n[:-3])
            for k, v in getattr(m, 'GENERATORS', {}).items():
                GENERATORS.setdefault(k, v)


_discover()


def main(argv: typing.List[str]) -> int:
    names = argv or list(GENERATORS)
    rc = 0
    for n in names:
        ok, msg = GENERATORS[n]()
        print('%s: %s' % (n, msg))
        rc |= 0 if ok else 1
    return rc


if __name__ == '__main__':
    sys.exit(main(sys.argv[1:]))
