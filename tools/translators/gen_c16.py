"""C16 translator: regenerates coq/theories/Generated/Gen_Lookup.v from /repo's working tree.

T1 (data): the pydsdl class forest below pydsdl.Any plus the bases above it (names, `__bases__` without object,
length of the MRO as rank, `__subclasses__()` visiting order of `_create_all_dsdl_tests`), dumped in a subprocess that runs
with PYTHONPATH=<repo>/src; the `.j2` listing of every built-in template package src/nunavut/lang/*/templates; the key
sets of the bundled jinja2 DEFAULT_TESTS / DEFAULT_FILTERS / DEFAULT_NAMESPACE; the names present in a fresh
CodeGenEnvironment per target language (tests/filters/globals, i.e. before DSDL tests and user additions are applied);
CodeGenEnvironment.RESERVED_GLOBAL_NAMESPACES / RESERVED_GLOBAL_NAMES (read with `ast`, not imported).

T2 (code): the alias rule of DSDLCodeGenerator._create_instance_tests_for_type (the if/elif/else that derives the short
lower-case test name) is translated from the Python `ast` into the Gallina function `alias_key`; the root classes passed by
_create_all_dsdl_tests are read from its `ast`.  Any other shape fails closed (stub file, dependent proofs stop building).
"""
from __future__ import annotations

import ast
import json
import os
import subprocess
import typing

from . import gen

OUT = os.path.join(gen.GEN_DIR, 'Gen_Lookup.v')
SRC = ('src/nunavut/jinja/__init__.py, src/nunavut/jinja/environment.py, src/nunavut/lang/*/templates, '
       'bundled jinja2 defaults, pydsdl class hierarchy')


class Unsupported(Exception):
    pass


DUMP = r'''
import json, sys
import pydsdl
out = {}
down = []
def walk(c):
    if c in down:
        return
    down.append(c)
    for s in c.__subclasses__():
        walk(s)
walk(pydsdl.Any)
allc = list(down)
i = 0
while i < len(allc):
    for b in allc[i].__bases__:
        if b is not object and b not in allc:
            allc.append(b)
    i += 1
names = [c.__name__ for c in allc]
out['classes'] = [{'name': c.__name__, 'module': c.__module__, 'bases': [b.__name__ for b in c.__bases__ if b is not object],
                   'rank': len(c.__mro__)} for c in allc]
out['dup_names'] = len(set(names)) != len(names)
def order(root, acc):
    acc.append(root.__name__)
    for d in root.__subclasses__():
        order(d, acc)
    return acc
out['roots'] = {}
for r in sys.argv[1:]:
    out['roots'][r] = order(getattr(pydsdl, r), [])
from nunavut.jinja.jinja2.defaults import DEFAULT_TESTS, DEFAULT_FILTERS, DEFAULT_NAMESPACE
out['jinja_tests'] = sorted(DEFAULT_TESTS)
out['jinja_filters'] = sorted(DEFAULT_FILTERS)
out['jinja_globals'] = sorted(DEFAULT_NAMESPACE)
from nunavut.lang import LanguageContextBuilder
from nunavut.jinja import CodeGenEnvironmentBuilder
from nunavut.jinja.jinja2 import DictLoader
out['env'] = {}
for lang in json.loads(sys.stdin.read()):
    lctx = LanguageContextBuilder(include_experimental_languages=True).set_target_language(lang).create()
    e = CodeGenEnvironmentBuilder(DictLoader({}), lctx).create()
    out['env'][lang] = {'tests': sorted(e.tests), 'filters': sorted(e.filters), 'globals': sorted(e.globals)}
import inspect
from nunavut.jinja import DSDLCodeGenerator
members = [n for n, m in inspect.getmembers(DSDLCodeGenerator, inspect.isroutine)]
out['gen_filters'] = [n[7:] for n in members if n.startswith('filter_')]
out['gen_tests'] = [n[3:] for n in members if n.startswith('is_')]
print('C16DUMP' + json.dumps(out))
'''


def coq_str(s: str) -> str:
    return '[' + '; '.join(str(ord(c)) for c in s) + ']'


def coq_strs(ss: typing.Sequence[str], indent: str = '   ') -> str:
    if not ss:
        return '[]'
    return '[' + (';\n' + indent).join('%s (* %s *)' % (coq_str(s), s.replace('*)', '* )')) for s in ss) + ']'


# ---- T2: alias rule ---------------------------------------------------------------------------

def _tr_cond(e: ast.expr, var: str) -> str:
    if isinstance(e, ast.BoolOp) and isinstance(e.op, ast.And):
        parts = [_tr_cond(v, var) for v in e.values]
        out = parts[-1]
        for p in reversed(parts[:-1]):
            out = '(andb %s %s)' % (p, out)
        return out
    if isinstance(e, ast.BoolOp) and isinstance(e.op, ast.Or):
        parts = [_tr_cond(v, var) for v in e.values]
        out = parts[-1]
        for p in reversed(parts[:-1]):
            out = '(orb %s %s)' % (p, out)
        return out
    if (isinstance(e, ast.Compare) and len(e.ops) == 1 and isinstance(e.left, ast.Call) and isinstance(e.left.func, ast.Name)
            and e.left.func.id == 'len' and len(e.left.args) == 1 and isinstance(e.left.args[0], ast.Name)
            and e.left.args[0].id == var and isinstance(e.comparators[0], ast.Constant)
            and type(e.comparators[0].value) is int and e.comparators[0].value >= 0):
        k = e.comparators[0].value
        op = e.ops[0]
        if isinstance(op, ast.Gt):
            return '(Nat.ltb %d (length %s))' % (k, var)
        if isinstance(op, ast.GtE):
            return '(Nat.leb %d (length %s))' % (k, var)
        raise Unsupported('comparison operator %s' % type(op).__name__)
    if (isinstance(e, ast.Call) and isinstance(e.func, ast.Attribute) and e.func.attr == 'endswith'
            and isinstance(e.func.value, ast.Name) and e.func.value.id == var and len(e.args) == 1 and not e.keywords
            and isinstance(e.args[0], ast.Constant) and isinstance(e.args[0].value, str)):
        return '(ends_with %s %s)' % (var, coq_str(e.args[0].value))
    raise Unsupported('condition %s' % ast.dump(e)[:120])


def _tr_key(e: ast.expr, var: str) -> str:
    if isinstance(e, ast.Name) and e.id == var:
        return var
    if (isinstance(e, ast.Subscript) and isinstance(e.value, ast.Name) and e.value.id == var and isinstance(e.slice, ast.Slice)
            and e.slice.lower is None and e.slice.step is None and isinstance(e.slice.upper, ast.UnaryOp)
            and isinstance(e.slice.upper.op, ast.USub) and isinstance(e.slice.upper.operand, ast.Constant)
            and type(e.slice.upper.operand.value) is int and e.slice.upper.operand.value > 0):
        return '(drop_last %d %s)' % (e.slice.upper.operand.value, var)
    raise Unsupported('key expression %s' % ast.dump(e)[:120])


def _single_key_assign(body: typing.List[ast.stmt], var: str, fn: str) -> str:
    if len(body) != 1 or not isinstance(body[0], ast.Assign):
        raise Unsupported('branch is not a single assignment')
    a = body[0]
    if (len(a.targets) != 1 or not isinstance(a.targets[0], ast.Subscript) or not isinstance(a.targets[0].value, ast.Name)
            or a.targets[0].value.id != 'tests' or not isinstance(a.value, ast.Name) or a.value.id != fn):
        raise Unsupported('branch does not assign the instance test into `tests`')
    return _tr_key(a.targets[0].slice, var)


def _tr_if(node: ast.If, var: str, fn: str) -> str:
    cond = _tr_cond(node.test, var)
    then = _single_key_assign(node.body, var, fn)
    if len(node.orelse) == 1 and isinstance(node.orelse[0], ast.If):
        els = _tr_if(node.orelse[0], var, fn)
    elif node.orelse:
        els = _single_key_assign(node.orelse, var, fn)
    else:
        raise Unsupported('alias rule without else branch')
    return 'if %s then %s\n  else %s' % (cond, then, els)


def translate_alias_rule(mod: ast.Module) -> typing.Tuple[str, typing.List[str]]:
    """returns (Gallina body of alias_key over `root_name_lower`, root class names of _create_all_dsdl_tests)"""
    cls = next((n for n in mod.body if isinstance(n, ast.ClassDef) and n.name == 'DSDLCodeGenerator'), None)
    if cls is None:
        raise Unsupported('class DSDLCodeGenerator not found')
    fns = {n.name: n for n in cls.body if isinstance(n, ast.FunctionDef)}
    f = fns.get('_create_instance_tests_for_type')
    g = fns.get('_create_all_dsdl_tests')
    if f is None or g is None:
        raise Unsupported('_create_instance_tests_for_type/_create_all_dsdl_tests not found')
    if [a.arg for a in f.args.args] != ['cls', 'root']:
        raise Unsupported('unexpected signature of _create_instance_tests_for_type')
    body = [s for s in f.body if not (isinstance(s, ast.Expr) and isinstance(s.value, ast.Constant))]
    # expected statement kinds, in order: tests = dict(); def _field_is_instance; tests[root.__name__] = fn;
    # var = root.__name__.lower(); if-chain; for derived in root.__subclasses__(): tests.update(rec(derived)); return tests
    if len(body) != 7:
        raise Unsupported('_create_instance_tests_for_type has %d statements, expected 7' % len(body))
    s_init, s_def, s_full, s_lower, s_if, s_for, s_ret = body
    if not (isinstance(s_init, ast.Assign) and isinstance(s_init.targets[0], ast.Name) and s_init.targets[0].id == 'tests'):
        raise Unsupported('first statement is not `tests = ...`')
    if not isinstance(s_def, ast.FunctionDef):
        raise Unsupported('second statement is not the nested test function')
    fn = s_def.name
    root_name = ast.Attribute(value=ast.Name(id='root', ctx=ast.Load()), attr='__name__', ctx=ast.Load())
    if not (isinstance(s_full, ast.Assign) and ast.dump(s_full.targets[0]) == ast.dump(
            ast.Subscript(value=ast.Name(id='tests', ctx=ast.Load()), slice=root_name, ctx=ast.Store()))
            and isinstance(s_full.value, ast.Name) and s_full.value.id == fn):
        raise Unsupported('`tests[root.__name__] = %s` not found' % fn)
    if not (isinstance(s_lower, ast.Assign) and isinstance(s_lower.targets[0], ast.Name) and isinstance(s_lower.value, ast.Call)
            and isinstance(s_lower.value.func, ast.Attribute) and s_lower.value.func.attr == 'lower' and not s_lower.value.args
            and ast.dump(s_lower.value.func.value) == ast.dump(root_name)):
        raise Unsupported('`x = root.__name__.lower()` not found')
    var = s_lower.targets[0].id
    if not isinstance(s_if, ast.If):
        raise Unsupported('alias rule is not an if-chain')
    rule = _tr_if(s_if, var, fn)
    if not (isinstance(s_for, ast.For) and isinstance(s_for.iter, ast.Call) and isinstance(s_for.iter.func, ast.Attribute)
            and s_for.iter.func.attr == '__subclasses__' and isinstance(s_for.iter.func.value, ast.Name)
            and s_for.iter.func.value.id == 'root' and len(s_for.body) == 1 and 'update' in ast.dump(s_for.body[0])
            and '_create_instance_tests_for_type' in ast.dump(s_for.body[0])):
        raise Unsupported('recursion over root.__subclasses__() not recognised')
    if not (isinstance(s_ret, ast.Return) and isinstance(s_ret.value, ast.Name) and s_ret.value.id == 'tests'):
        raise Unsupported('does not return tests')
    if not var.isidentifier() or not var.isascii() or var in ('length', 'ends_with', 'drop_last', 'andb', 'orb', 'Nat', 'if', 'then', 'else'):
        raise Unsupported('unusable variable name')
    roots = []
    for n in ast.walk(g):
        if (isinstance(n, ast.Call) and isinstance(n.func, ast.Attribute) and n.func.attr == '_create_instance_tests_for_type'
                and len(n.args) == 1 and isinstance(n.args[0], ast.Attribute) and isinstance(n.args[0].value, ast.Name)
                and n.args[0].value.id == 'pydsdl'):
            roots.append((n.lineno, n.col_offset, n.args[0].attr))
    roots = [r[2] for r in sorted(roots)]
    if not roots:
        raise Unsupported('no root classes found in _create_all_dsdl_tests')
    return (var, rule), roots


def reserved_sets(mod: ast.Module) -> typing.Tuple[typing.List[str], typing.List[str]]:
    cls = next((n for n in mod.body if isinstance(n, ast.ClassDef) and n.name == 'CodeGenEnvironment'), None)
    if cls is None:
        raise Unsupported('class CodeGenEnvironment not found')
    got = {}
    for s in cls.body:
        if isinstance(s, ast.Assign) and len(s.targets) == 1 and isinstance(s.targets[0], ast.Name) \
                and s.targets[0].id in ('RESERVED_GLOBAL_NAMESPACES', 'RESERVED_GLOBAL_NAMES'):
            v = s.value
            if not isinstance(v, (ast.Set, ast.List, ast.Tuple)) or not all(isinstance(e, ast.Constant) and isinstance(e.value, str) for e in v.elts):
                raise Unsupported('%s is not a literal collection of strings' % s.targets[0].id)
            got[s.targets[0].id] = sorted(e.value for e in v.elts)
    if set(got) != {'RESERVED_GLOBAL_NAMESPACES', 'RESERVED_GLOBAL_NAMES'}:
        raise Unsupported('RESERVED_GLOBAL_* not found')
    return got['RESERVED_GLOBAL_NAMESPACES'], got['RESERVED_GLOBAL_NAMES']


def init_written(mod: ast.Module) -> typing.Tuple[bool, typing.List[str]]:
    """names CodeGenEnvironment.__init__ assigns in self.globals itself: (loop over RESERVED_GLOBAL_NAMESPACES present?, literal names)"""
    cls = next((n for n in mod.body if isinstance(n, ast.ClassDef) and n.name == 'CodeGenEnvironment'), None)
    init = next((n for n in cls.body if isinstance(n, ast.FunctionDef) and n.name == '__init__'), None) if cls else None
    if init is None:
        raise Unsupported('CodeGenEnvironment.__init__ not found')

    def is_globals_item(t):
        return (isinstance(t, ast.Subscript) and isinstance(t.value, ast.Attribute) and t.value.attr == 'globals'
                and isinstance(t.value.value, ast.Name) and t.value.value.id == 'self')
    loop, lits = False, []
    for st in init.body:
        if isinstance(st, ast.For) and isinstance(st.iter, ast.Attribute) and st.iter.attr == 'RESERVED_GLOBAL_NAMESPACES' \
                and isinstance(st.target, ast.Name) and len(st.body) == 1 and isinstance(st.body[0], ast.Assign) \
                and is_globals_item(st.body[0].targets[0]) and isinstance(st.body[0].targets[0].slice, ast.Name) \
                and st.body[0].targets[0].slice.id == st.target.id:
            loop = True
        elif isinstance(st, ast.Assign) and len(st.targets) == 1 and is_globals_item(st.targets[0]):
            sl = st.targets[0].slice
            if not (isinstance(sl, ast.Constant) and isinstance(sl.value, str)):
                raise Unsupported('self.globals[...] assigned with a non-literal key in __init__')
            lits.append(sl.value)
    return loop, lits


def builtin_templates() -> typing.Dict[str, typing.List[str]]:
    """relative POSIX paths of *.j2 below src/nunavut/lang/<lang>/templates (what PackageLoader.list_templates + the suffix filter yield)"""
    base = os.path.join(gen.REPO, 'src', 'nunavut', 'lang')
    out = {}
    for lang in sorted(os.listdir(base)):
        t = os.path.join(base, lang, 'templates')
        if not os.path.isdir(t):
            continue
        names = []
        for root, _, files in os.walk(t):
            for f in files:
                if f.endswith('.j2'):
                    names.append(os.path.relpath(os.path.join(root, f), t).replace(os.sep, '/'))
        out[lang] = sorted(names)
    return out


def dump(roots: typing.List[str], langs: typing.List[str]) -> dict:
    from tools.lib import core
    p = subprocess.run([core.PY, '-c', DUMP] + roots, input=json.dumps(langs), env=core.repo_env(), stdout=subprocess.PIPE,
                       stderr=subprocess.STDOUT, text=True, timeout=120)
    if p.returncode != 0 or 'C16DUMP' not in p.stdout:
        raise Unsupported('dump subprocess failed: ' + p.stdout[-400:].replace('\n', ' | '))
    return json.loads(p.stdout[p.stdout.index('C16DUMP') + 7:])


def data() -> dict:
    """everything the generator reads from /repo (also used by the check to drive the correspondence run)"""
    jj = gen.parse_repo('src/nunavut/jinja/__init__.py')
    ee = gen.parse_repo('src/nunavut/jinja/environment.py')
    rule, roots = translate_alias_rule(jj)
    ns, nm = reserved_sets(ee)
    loop, lits = init_written(ee)
    tpl = builtin_templates()
    langs = [l for l in tpl if os.path.exists(os.path.join(gen.REPO, 'src', 'nunavut', 'lang', l, '__init__.py'))]
    d = dump(roots, langs)
    if d['dup_names']:
        raise Unsupported('two pydsdl classes share a __name__')
    for c in d['classes']:
        if not c['name'].isascii():
            raise Unsupported('non-ASCII class name')
    d.update({'alias_rule': rule, 'roots_order': roots, 'reserved_namespaces': ns, 'reserved_names': nm, 'templates': tpl,
              'init_written': (ns if loop else []) + lits})
    return d


def render(d: dict) -> str:
    classes = sorted(d['classes'], key=lambda c: c['name'])
    ident = {c['name']: i for i, c in enumerate(classes)}
    L = [gen.HEADER % SRC, 'From Verif Require Import Str Lookup.', 'Open Scope N_scope.', '']
    L.append('(* pydsdl class forest: (id, (name, (bases without object, length of the MRO))) *)')
    L.append('Definition g_classes : list (N * (str * (list N * nat))) :=\n  [' + ';\n   '.join(
        '(%d, (%s, ([%s], %d%%nat))) (* %s%s *)' % (ident[c['name']], coq_str(c['name']), '; '.join(str(ident[b]) for b in c['bases']),
                                                    c['rank'], c['name'], ' : ' + ', '.join(c['bases']) if c['bases'] else '')
        for c in classes) + '].\n')
    for nm in ('Any', 'Attribute', 'SerializableType'):
        if nm not in ident:
            raise Unsupported('pydsdl.%s is not in the class forest' % nm)
        L.append('Definition g_cls_%s : N := %d.' % (nm, ident[nm]))
    L.append('')
    L.append('(* visiting order of _create_all_dsdl_tests (roots: %s), by class id *)' % ', '.join(d['roots_order']))
    order = []
    for r in d['roots_order']:
        order += d['roots'][r]
    L.append('Definition g_test_order : list N := [%s].\n' % '; '.join(str(ident[n]) for n in order))
    L.append('(* T2: alias rule of DSDLCodeGenerator._create_instance_tests_for_type *)')
    L.append('Definition alias_key (%s : str) : str :=\n  %s.\n' % tuple(d['alias_rule']))
    L.append('(* built-in template packages: (language, listing of (stem, relative path)) *)')
    L.append('Definition g_builtin_templates : list (str * list (str * str)) :=\n  [' + ';\n   '.join(
        '(%s (* %s *),\n    [%s])' % (coq_str(lang), lang, ';\n     '.join(
            '(%s, %s) (* %s *)' % (coq_str(os.path.basename(p)[:-3]), coq_str(p), p) for p in names))
        for lang, names in sorted(d['templates'].items())) + '].\n')
    L.append('Definition g_jinja_tests : list str :=\n  %s.\n' % coq_strs(d['jinja_tests']))
    L.append('Definition g_jinja_filters : list str :=\n  %s.\n' % coq_strs(d['jinja_filters']))
    L.append('Definition g_jinja_globals : list str :=\n  %s.\n' % coq_strs(d['jinja_globals']))
    L.append('Definition g_reserved_namespaces : list str :=\n  %s.\n' % coq_strs(d['reserved_namespaces']))
    L.append('Definition g_reserved_names : list str :=\n  %s.\n' % coq_strs(d['reserved_names']))
    L.append('(* names CodeGenEnvironment.__init__ assigns in self.globals itself after the user\'s additional_globals *)')
    L.append('Definition g_init_written : list str :=\n  %s.\n' % coq_strs(d['init_written']))
    L.append('(* names in a fresh CodeGenEnvironment per target language (before DSDL tests and user additions) *)')
    for kind in ('tests', 'filters', 'globals'):
        L.append('Definition g_env_%s : list (str * list str) :=\n  [' % kind + ';\n   '.join(
            '(%s (* %s *),\n    %s)' % (coq_str(lang), lang, coq_strs(e[kind], '     ')) for lang, e in sorted(d['env'].items())) + '].\n')
    L.append('(* filter_* / is_* routines of DSDLCodeGenerator (added by add_conventional_methods_to_environment(self)) *)')
    L.append('Definition g_gen_filters : list str :=\n  %s.\n' % coq_strs(d['gen_filters']))
    L.append('Definition g_gen_tests : list str :=\n  %s.\n' % coq_strs(d['gen_tests']))
    return '\n'.join(L)


def class_ids(d: dict) -> typing.Dict[str, int]:
    return {c['name']: i for i, c in enumerate(sorted(d['classes'], key=lambda c: c['name']))}


def gen_lookup() -> typing.Tuple[bool, str]:
    try:
        text = render(data())
    except (Unsupported, SyntaxError, OSError, KeyError, subprocess.TimeoutExpired) as ex:
        gen.write_if_changed(OUT, gen.HEADER % SRC + '(* translator failed closed: %s *)\n' % str(ex).replace('*)', '* )'))
        return False, 'C16 translator failed closed: %s' % ex
    gen.write_if_changed(OUT, text)
    return True, 'ok'


GENERATORS = {'lookup': gen_lookup}
