"""C16 translator: regenerates coq/theories/Generated/Gen_Lookup.v from /repo's working tree.

T1 (data): the pydsdl class forest below pydsdl.Any plus the bases above it (names, `__bases__` without object,
length of the MRO as rank, `__subclasses__()` visiting order of `_create_all_dsdl_tests`), dumped in a subprocess that runs
with PYTHONPATH=<repo>/src; the `.j2` listing of every built-in template package src/nunavut/lang/*/templates; the key
sets of the bundled jinja2 DEFAULT_TESTS / DEFAULT_FILTERS / DEFAULT_NAMESPACE; the names present in a fresh
CodeGenEnvironment per target language (tests/filters/globals, i.e. before DSDL tests and user additions are applied);
CodeGenEnvironment.RESERVED_GLOBAL_NAMESPACES / RESERVED_GLOBAL_NAMES (read with `ast`, not imported).

T2 (code): the alias rule of DSDLCodeGenerator._create_instance_tests_for_type (the if/elif/else that derives the short
lower-case test name) is translated from the Python `ast` into the Gallina function `alias_key`; the root classes passed by
_create_all_dsdl_tests are read from its `ast`.  Any other shape fails closed (stub file, dependent proofs stop building).
"""
from __future__ import annotations

import ast
import json
import os
import subprocess
import typing

from . import gen

OUT = os.path.join(gen.GEN_DIR, 'Gen_Lookup.v')
SRC = ('src/nunavut/jinja/__init__.py, src/nunavut/jinja/environment.py, src/nunavut/lang/*/templates, '
       'bundled jinja2 defaults, pydsdl class hierarchy')


class Unsupported(Exception):
    pass


DUMP = r'''
import json, sys
import pydsdl
out = {}
down = []
def walk(c):
    if c in down:
        return
    down.append(c)
    for s in c.__subclasses__():
        walk(s)
walk(pydsdl.Any)
allc = list(down)
i = 0
while i < len(allc):
    for b in allc[i].__bases__:
        if b is not object and b not in allc:
            allc.append(b)
    i += 1
names = [c.__name__ for c in allc]
out['classes'] = [{'name': c.__name__, 'module': c.__module__, 'bases': [b.__name__ for b in c.__bases__ if b is not object],
                   'rank': len(c.__mro__)} for c in allc]
out['dup_names'] = len(set(names)) != len(names)
def order(root, acc):
    acc.append(root.__name__)
    for d in root.__subclasses__():
        order(d, acc)
    return acc
out['roots'] = {}
for r in sys.argv[1:]:
    out['roots'][r] = order(getattr(pydsdl, r), [])
from nunavut.jinja.jinja2.defaults import DEFAULT_TESTS, DEFAULT_FILTERS, DEFAULT_NAMESPACE
out['jinja_tests'] = sorted(DEFAULT_TESTS)
out['jinja_filters'] = sorted(DEFAULT_FILTERS)
out['jinja_globals'] = sorted(DEFAULT_NAMESPACE)
from nunavut.lang import LanguageContextBuilder
from nunavut.jinja import CodeGenEnvironmentBuilder
from nunavut.jinja.jinja2 import DictLoader
out['env'] = {}
for lang in json.loads(sys.stdin.read()):
    lctx = LanguageContextBuilder(include_experimental_languages=True).set_target_language(lang).create()
    e = CodeGenEnvironmentBuilder(DictLoader({}), lctx).create()
    out['env'][lang] = {'tests': sorted(e.tests), 'filters': sorted(e.filters), 'globals': sorted(e.globals)}
from nunavut.jinja.environment import CodeGenEnvironment
out['reserved_namespaces'] = sorted(CodeGenEnvironment.RESERVED_GLOBAL_NAMESPACES)
out['reserved_names'] = sorted(CodeGenEnvironment.RESERVED_GLOBAL_NAMES)
import inspect
from nunavut.jinja import DSDLCodeGenerator
members = [n for n, m in inspect.getmembers(DSDLCodeGenerator, inspect.isroutine)]
out['gen_filters'] = [n[7:] for n in members if n.startswith('filter_')]
out['gen_tests'] = [n[3:] for n in members if n.startswith('is_')]
try:
    reg = []
    for n, f in DSDLCodeGenerator._create_all_dsdl_tests().items():
        cells = dict(zip(f.__code__.co_freevars, [c.cell_contents for c in (f.__closure__ or ())]))
        reg.append([n, cells['root'].__name__])
    out['registered_tests'] = reg
except Exception as ex:
    out['registered_tests'] = None
    out['registered_tests_error'] = repr(ex)
print('C16DUMP' + json.dumps(out))
'''


def coq_str(s: str) -> str:
    return '[' + '; '.join(str(ord(c)) for c in s) + ']'


def coq_strs(ss: typing.Sequence[str], indent: str = '   ') -> str:
    if not ss:
        return '[]'
    return '[' + (';\n' + indent).join('%s (* %s *)' % (coq_str(s), s.replace('*)', '* )')) for s in ss) + ']'


# ---- T2: alias rule ---------------------------------------------------------------------------

def _tr_cond(e: ast.expr, var: str) -> str:
    if isinstance(e, ast.BoolOp) and isinstance(e.op, ast.And):
        parts = [_tr_cond(v, var) for v in e.values]
        out = parts[-1]
        for p in reversed(parts[:-1]):
            out = '(andb %s %s)' % (p, out)
        return out
    if isinstance(e, ast.BoolOp) and isinstance(e.op, ast.Or):
        parts = [_tr_cond(v, var) for v in e.values]
        out = parts[-1]
        for p in reversed(parts[:-1]):
            out = '(orb %s %s)' % (p, out)
        return out
    if (isinstance(e, ast.Compare) and len(e.ops) == 1 and isinstance(e.left, ast.Call) and isinstance(e.left.func, ast.Name)
            and e.left.func.id == 'len' and len(e.left.args) == 1 and isinstance(e.left.args[0], ast.Name)
            and e.left.args[0].id == var and isinstance(e.comparators[0], ast.Constant)
            and type(e.comparators[0].value) is int and e.comparators[0].value >= 0):
        k = e.comparators[0].value
        op = e.ops[0]
        if isinstance(op, ast.Gt):
            return '(Nat.ltb %d (length %s))' % (k, var)
        if isinstance(op, ast.GtE):
            return '(Nat.leb %d (length %s))' % (k, var)
        raise Unsupported('comparison operator %s' % type(op).__name__)
    if (isinstance(e, ast.Call) and isinstance(e.func, ast.Attribute) and e.func.attr == 'endswith'
            and isinstance(e.func.value, ast.Name) and e.func.value.id == var and len(e.args) == 1 and not e.keywords
            and isinstance(e.args[0], ast.Constant) and isinstance(e.args[0].value, str)):
        return '(ends_with %s %s)' % (var, coq_str(e.args[0].value))
    raise Unsupported('condition %s' % ast.dump(e)[:120])


def _tr_key(e: ast.expr, var: str) -> str:
    if isinstance(e, ast.Name) and e.id == var:
        return var
    if (isinstance(e, ast.Subscript) and isinstance(e.value, ast.Name) and e.value.id == var and isinstance(e.slice, ast.Slice)
            and e.slice.lower is None and e.slice.step is None and isinstance(e.slice.upper, ast.UnaryOp)
            and isinstance(e.slice.upper.op, ast.USub) and isinstance(e.slice.upper.operand, ast.Constant)
            and type(e.slice.upper.operand.value) is int and e.slice.upper.operand.value > 0):
        return '(drop_last %d %s)' % (e.slice.upper.operand.value, var)
    raise Unsupported('key expression %s' % ast.dump(e)[:120])


def _single_key_assign(body: typing.List[ast.stmt], var: str, fn: str) -> str:
    if len(body) != 1 or not isinstance(body[0], ast.Assign):
        raise Unsupported('branch is not a single assignment')
    a = body[0]
    if (len(a.targets) != 1 or not isinstance(a.targets[0], ast.Subscript) or not isinstance(a.targets[0].value, ast.Name)
            or a.targets[0].value.id != 'tests' or not isinstance(a.value, ast.Name) or a.value.id != fn):
        raise Unsupported('branch does not assign the instance test into `tests`')
    return _tr_key(a.targets[0].slice, var)


def _tr_if(node: ast.If, var: str, fn: str) -> str:
    cond = _tr_cond(node.test, var)
    then = _single_key_assign(node.body, var, fn)
    if len(node.orelse) == 1 and isinstance(node.orelse[0], ast.If):
        els = _tr_if(node.orelse[0], var, fn)
    elif node.orelse:
        els = _single_key_assign(node.orelse, var, fn)
    else:
        raise Unsupported('alias rule without else branch')
    return 'if %s then %s\n  else %s' % (cond, then, els)


def _tr_inst_expr(e: ast.expr, x: str) -> str:
    """boolean expression over isinstance(x, root) / isinstance(x.data_type, root) / isinstance(x, pydsdl.Attribute)"""
    if isinstance(e, ast.BoolOp):
        parts = [_tr_inst_expr(v, x) for v in e.values]
        f = 'orb' if isinstance(e.op, ast.Or) else 'andb'
        out = parts[-1]
        for p in reversed(parts[:-1]):
            out = '(%s %s %s)' % (f, p, out)
        return out
    if isinstance(e, ast.UnaryOp) and isinstance(e.op, ast.Not):
        return '(negb %s)' % _tr_inst_expr(e.operand, x)
    if isinstance(e, ast.Constant) and isinstance(e.value, bool):
        return 'true' if e.value else 'false'
    if isinstance(e, ast.Call) and isinstance(e.func, ast.Name) and e.func.id == 'isinstance' and len(e.args) == 2 and not e.keywords:
        a, c = e.args
        if isinstance(a, ast.Name) and a.id == x:
            subj = 'vc'
        elif isinstance(a, ast.Attribute) and a.attr == 'data_type' and isinstance(a.value, ast.Name) and a.value.id == x:
            subj = 'vdt'
        else:
            raise Unsupported('isinstance subject %s' % ast.dump(a)[:80])
        if isinstance(c, ast.Name) and c.id == 'root':
            return '(isinst %s root)' % subj
        if isinstance(c, ast.Attribute) and c.attr == 'Attribute' and isinstance(c.value, ast.Name) and c.value.id == 'pydsdl':
            return '(isinst %s attr)' % subj
        raise Unsupported('isinstance class %s' % ast.dump(c)[:80])
    raise Unsupported('test expression %s' % ast.dump(e)[:100])


def _tr_inst_block(body: typing.List[ast.stmt], x: str) -> str:
    body = [s for s in body if not (isinstance(s, ast.Expr) and isinstance(s.value, ast.Constant))]
    if not body:
        raise Unsupported('test function falls off its end')
    st = body[0]
    if isinstance(st, ast.Return) and st.value is not None:
        return _tr_inst_expr(st.value, x)
    if isinstance(st, ast.If):
        rest = body[1:]
        then = _tr_inst_block(st.body + rest, x)
        els = _tr_inst_block(st.orelse + rest, x)
        return '(if %s then %s else %s)' % (_tr_inst_expr(st.test, x), then, els)
    raise Unsupported('statement %s in the instance test' % type(st).__name__)


def translate_field_is_instance(fn: ast.FunctionDef) -> str:
    if len(fn.args.args) != 1 or fn.args.vararg or fn.args.kwarg or fn.args.kwonlyargs:
        raise Unsupported('unexpected signature of the instance test')
    return _tr_inst_block(fn.body, fn.args.args[0].arg)


def translate_alias_rule(mod: ast.Module) -> typing.Tuple[str, typing.List[str]]:
    """returns (Gallina body of alias_key over `root_name_lower`, root class names of _create_all_dsdl_tests)"""
    cls = next((n for n in mod.body if isinstance(n, ast.ClassDef) and n.name == 'DSDLCodeGenerator'), None)
    if cls is None:
        raise Unsupported('class DSDLCodeGenerator not found')
    fns = {n.name: n for n in cls.body if isinstance(n, ast.FunctionDef)}
    f = fns.get('_create_instance_tests_for_type')
    g = fns.get('_create_all_dsdl_tests')
    if f is None or g is None:
        raise Unsupported('_create_instance_tests_for_type/_create_all_dsdl_tests not found')
    if [a.arg for a in f.args.args] != ['cls', 'root']:
        raise Unsupported('unexpected signature of _create_instance_tests_for_type')
    body = [s for s in f.body if not (isinstance(s, ast.Expr) and isinstance(s.value, ast.Constant))]
    # expected statement kinds, in order: tests = dict(); def _field_is_instance; tests[root.__name__] = fn;
    # var = root.__name__.lower(); if-chain; for derived in root.__subclasses__(): tests.update(rec(derived)); return tests
    if len(body) != 7:
        raise Unsupported('_create_instance_tests_for_type has %d statements, expected 7' % len(body))
    s_init, s_def, s_full, s_lower, s_if, s_for, s_ret = body
    if not (isinstance(s_init, ast.Assign) and isinstance(s_init.targets[0], ast.Name) and s_init.targets[0].id == 'tests'):
        raise Unsupported('first statement is not `tests = ...`')
    if not isinstance(s_def, ast.FunctionDef):
        raise Unsupported('second statement is not the nested test function')
    fn = s_def.name
    inst_body = translate_field_is_instance(s_def)
    root_name = ast.Attribute(value=ast.Name(id='root', ctx=ast.Load()), attr='__name__', ctx=ast.Load())
    if not (isinstance(s_full, ast.Assign) and ast.dump(s_full.targets[0]) == ast.dump(
            ast.Subscript(value=ast.Name(id='tests', ctx=ast.Load()), slice=root_name, ctx=ast.Store()))
            and isinstance(s_full.value, ast.Name) and s_full.value.id == fn):
        raise Unsupported('`tests[root.__name__] = %s` not found' % fn)
    if not (isinstance(s_lower, ast.Assign) and isinstance(s_lower.targets[0], ast.Name) and isinstance(s_lower.value, ast.Call)
            and isinstance(s_lower.value.func, ast.Attribute) and s_lower.value.func.attr == 'lower' and not s_lower.value.args
            and ast.dump(s_lower.value.func.value) == ast.dump(root_name)):
        raise Unsupported('`x = root.__name__.lower()` not found')
    var = s_lower.targets[0].id
    if not isinstance(s_if, ast.If):
        raise Unsupported('alias rule is not an if-chain')
    rule = _tr_if(s_if, var, fn)
    if not (isinstance(s_for, ast.For) and isinstance(s_for.iter, ast.Call) and isinstance(s_for.iter.func, ast.Attribute)
            and s_for.iter.func.attr == '__subclasses__' and isinstance(s_for.iter.func.value, ast.Name)
            and s_for.iter.func.value.id == 'root' and len(s_for.body) == 1 and 'update' in ast.dump(s_for.body[0])
            and '_create_instance_tests_for_type' in ast.dump(s_for.body[0])):
        raise Unsupported('recursion over root.__subclasses__() not recognised')
    if not (isinstance(s_ret, ast.Return) and isinstance(s_ret.value, ast.Name) and s_ret.value.id == 'tests'):
        raise Unsupported('does not return tests')
    if not var.isidentifier() or not var.isascii() or var in ('length', 'ends_with', 'drop_last', 'andb', 'orb', 'Nat', 'if', 'then', 'else'):
        raise Unsupported('unusable variable name')
    roots = []
    for n in ast.walk(g):
        if (isinstance(n, ast.Call) and isinstance(n.func, ast.Attribute) and n.func.attr == '_create_instance_tests_for_type'
                and len(n.args) == 1 and isinstance(n.args[0], ast.Attribute) and isinstance(n.args[0].value, ast.Name)
                and n.args[0].value.id == 'pydsdl'):
            roots.append((n.lineno, n.col_offset, n.args[0].attr))
    roots = [r[2] for r in sorted(roots)]
    if not roots:
        raise Unsupported('no root classes found in _create_all_dsdl_tests')
    return (var, rule), roots, inst_body


def reserved_sets(mod: ast.Module) -> typing.Tuple[typing.List[str], typing.List[str]]:
    cls = next((n for n in mod.body if isinstance(n, ast.ClassDef) and n.name == 'CodeGenEnvironment'), None)
    if cls is None:
        raise Unsupported('class CodeGenEnvironment not found')
    got = {}
    for s in cls.body:
        if isinstance(s, ast.Assign) and len(s.targets) == 1 and isinstance(s.targets[0], ast.Name) \
                and s.targets[0].id in ('RESERVED_GLOBAL_NAMESPACES', 'RESERVED_GLOBAL_NAMES'):
            v = s.value
            if not isinstance(v, (ast.Set, ast.List, ast.Tuple)) or not all(isinstance(e, ast.Constant) and isinstance(e.value, str) for e in v.elts):
                raise Unsupported('%s is not a literal collection of strings' % s.targets[0].id)
            got[s.targets[0].id] = sorted(e.value for e in v.elts)
    if set(got) != {'RESERVED_GLOBAL_NAMESPACES', 'RESERVED_GLOBAL_NAMES'}:
        raise Unsupported('RESERVED_GLOBAL_* not found')
    return got['RESERVED_GLOBAL_NAMESPACES'], got['RESERVED_GLOBAL_NAMES']


def init_shape(mod: ast.Module, reserved: typing.Dict[str, typing.List[str]]) -> dict:
    """CodeGenEnvironment.__init__: the gate on additional_globals (T2), the names it assigns in self.globals itself and the ORDER of
    the steps the hand model relies on (user globals < reserved namespaces < literal globals < language support < own conventional
    methods < user filters < user tests).  Any other shape fails closed."""
    cls = next((n for n in mod.body if isinstance(n, ast.ClassDef) and n.name == 'CodeGenEnvironment'), None)
    init = next((n for n in cls.body if isinstance(n, ast.FunctionDef) and n.name == '__init__'), None) if cls else None
    if init is None:
        raise Unsupported('CodeGenEnvironment.__init__ not found')

    def is_globals_item(t):
        return (isinstance(t, ast.Subscript) and isinstance(t.value, ast.Attribute) and t.value.attr == 'globals'
                and isinstance(t.value.value, ast.Name) and t.value.value.id == 'self')

    def self_attr(e):
        return e.attr if isinstance(e, ast.Attribute) and isinstance(e.value, ast.Name) and e.value.id == 'self' else None

    def gate_refs(test, var):
        if isinstance(test, ast.BoolOp) and isinstance(test.op, ast.Or):
            return [r for v in test.values for r in gate_refs(v, var)]
        if isinstance(test, ast.Compare) and len(test.ops) == 1 and isinstance(test.ops[0], ast.In) \
                and isinstance(test.left, ast.Name) and test.left.id == var:
            c = test.comparators[0]
            elts = c.elts if isinstance(c, (ast.Tuple, ast.List, ast.Set)) else [ast.Starred(value=c)]
            refs = []
            for e in elts:
                a = self_attr(e.value) if isinstance(e, ast.Starred) else None
                if a is None:
                    raise Unsupported('gate on additional_globals tests membership in something else than self.<collection>')
                refs.append(a)
            return refs
        raise Unsupported('gate on additional_globals is not a disjunction of `name in ...` tests')

    pos = {}
    lits = []
    gate = None
    for i, st in enumerate(init.body):
        # if additional_globals is not None: for name, value in additional_globals.items(): if <gate>: raise ...; self.globals[name] = value
        if isinstance(st, ast.If) and 'additional_globals' in ast.dump(st.test) and len(st.body) == 1 and isinstance(st.body[0], ast.For):
            loop = st.body[0]
            if not (isinstance(loop.target, ast.Tuple) and len(loop.target.elts) == 2 and all(isinstance(e, ast.Name) for e in loop.target.elts)
                    and len(loop.body) == 2 and isinstance(loop.body[0], ast.If) and len(loop.body[0].body) == 1
                    and isinstance(loop.body[0].body[0], ast.Raise) and not loop.body[0].orelse
                    and isinstance(loop.body[1], ast.Assign) and is_globals_item(loop.body[1].targets[0])
                    and isinstance(loop.body[1].targets[0].slice, ast.Name) and loop.body[1].targets[0].slice.id == loop.target.elts[0].id
                    and isinstance(loop.body[1].value, ast.Name) and loop.body[1].value.id == loop.target.elts[1].id):
                raise Unsupported('loop over additional_globals has an unexpected shape')
            gate = gate_refs(loop.body[0].test, loop.target.elts[0].id)
            pos['user_globals'] = i
        elif isinstance(st, ast.For) and isinstance(st.iter, ast.Attribute) and st.iter.attr == 'RESERVED_GLOBAL_NAMESPACES' \
                and isinstance(st.target, ast.Name) and len(st.body) == 1 and isinstance(st.body[0], ast.Assign) \
                and is_globals_item(st.body[0].targets[0]) and isinstance(st.body[0].targets[0].slice, ast.Name) \
                and st.body[0].targets[0].slice.id == st.target.id:
            pos['namespaces'] = i
        elif isinstance(st, ast.Assign) and len(st.targets) == 1 and is_globals_item(st.targets[0]):
            sl = st.targets[0].slice
            if not (isinstance(sl, ast.Constant) and isinstance(sl.value, str)):
                raise Unsupported('self.globals[...] assigned with a non-literal key in __init__')
            lits.append(sl.value)
            pos.setdefault('literals', i)
            pos['literals_last'] = i
        elif isinstance(st, ast.Expr) and isinstance(st.value, ast.Call) and self_attr(st.value.func) == '_update_language_support':
            pos['language'] = i
        elif isinstance(st, ast.Expr) and isinstance(st.value, ast.Call) and self_attr(st.value.func) == 'add_conventional_methods_to_environment':
            pos['own_methods'] = i
        elif isinstance(st, ast.If) and 'additional_filters' in ast.dump(st.test) and '_add_each_to_environment' in ast.dump(st):
            pos['user_filters'] = i
        elif isinstance(st, ast.If) and 'additional_tests' in ast.dump(st.test) and '_add_each_to_environment' in ast.dump(st):
            pos['user_tests'] = i
        elif any(is_globals_item(t) for n in ast.walk(st) if isinstance(n, (ast.Assign, ast.AugAssign, ast.Delete))
                 for t in (n.targets if hasattr(n, 'targets') else [n.target])):
            raise Unsupported('__init__ writes self.globals in a statement the model does not know')
    order = ['user_globals', 'namespaces', 'literals', 'literals_last', 'language', 'own_methods', 'user_filters', 'user_tests']
    if any(k not in pos for k in order):
        raise Unsupported('__init__ lacks step(s): %s' % [k for k in order if k not in pos])
    if [pos[k] for k in order] != sorted(pos[k] for k in order):
        raise Unsupported('steps of __init__ are not in the order the model assumes: %s' % pos)
    if gate is None:
        raise Unsupported('gate on additional_globals not found')
    gate_names = []
    for r in gate:
        if r in reserved:
            gate_names += reserved[r]
        elif r != 'globals':
            raise Unsupported('gate refers to self.%s' % r)
    return {'written': reserved['RESERVED_GLOBAL_NAMESPACES'] + lits, 'gate_reserved': sorted(set(gate_names)),
            'gate_checks_existing': 'globals' in gate, 'gate_refs': gate}


def template_suffix() -> str:
    mod = gen.parse_repo('src/nunavut/_utilities.py')
    for st in mod.body:
        t = st.targets[0] if isinstance(st, ast.Assign) and len(st.targets) == 1 else (st.target if isinstance(st, ast.AnnAssign) else None)
        if isinstance(t, ast.Name) and t.id == 'TEMPLATE_SUFFIX' and isinstance(st.value, ast.Constant) and isinstance(st.value.value, str):
            if not st.value.value.isascii() or not st.value.value:
                raise Unsupported('TEMPLATE_SUFFIX is empty or not ASCII')
            return st.value.value
    raise Unsupported('TEMPLATE_SUFFIX not found')


def builtin_templates() -> typing.Dict[str, typing.List[str]]:
    """relative POSIX paths of ALL files below src/nunavut/lang/<lang>/templates, sorted (what PackageLoader.list_templates yields;
    the suffix filter and the stem are applied by the model: Lookup.mk_tset)"""
    base = os.path.join(gen.REPO, 'src', 'nunavut', 'lang')
    out = {}
    for lang in sorted(os.listdir(base)):
        t = os.path.join(base, lang, 'templates')
        if not os.path.isdir(t):
            continue
        names = []
        for root, _, files in os.walk(t):
            if '__pycache__' in root.split(os.sep):
                continue
            for f in files:
                if f.isascii():
                    names.append(os.path.relpath(os.path.join(root, f), t).replace(os.sep, '/'))
        out[lang] = sorted(names)
    return out


def dump(roots: typing.List[str], langs: typing.List[str]) -> dict:
    from tools.lib import core
    p = subprocess.run([core.PY, '-c', DUMP] + roots, input=json.dumps(langs), env=core.repo_env(), stdout=subprocess.PIPE,
                       stderr=subprocess.STDOUT, text=True, timeout=120)
    if p.returncode != 0 or 'C16DUMP' not in p.stdout:
        raise Unsupported('dump subprocess failed: ' + p.stdout[-400:].replace('\n', ' | '))
    return json.loads(p.stdout[p.stdout.index('C16DUMP') + 7:])


def language_packages() -> typing.List[str]:
    """every language package of /repo (js has no template package but registers conventional methods)"""
    base = os.path.join(gen.REPO, 'src', 'nunavut', 'lang')
    return sorted(l for l in os.listdir(base) if not l.startswith('_') and os.path.exists(os.path.join(base, l, '__init__.py')))


def fallback_data() -> dict:
    """what the check's falsifier needs when the translator itself failed closed: only the runtime dump (no ast reading)"""
    tpl = builtin_templates()
    langs = language_packages()
    d = dump(['SerializableType', 'Attribute'], langs)
    d['roots_order'] = ['SerializableType', 'Attribute']
    d['templates'] = tpl
    return d


def data() -> dict:
    """everything the generator reads from /repo (also used by the check to drive the correspondence run)"""
    jj = gen.parse_repo('src/nunavut/jinja/__init__.py')
    ee = gen.parse_repo('src/nunavut/jinja/environment.py')
    rule, roots, inst_body = translate_alias_rule(jj)
    ns, nm = reserved_sets(ee)
    shape = init_shape(ee, {'RESERVED_GLOBAL_NAMESPACES': ns, 'RESERVED_GLOBAL_NAMES': nm})
    tpl = builtin_templates()
    langs = language_packages()
    d = dump(roots, langs)
    if d['dup_names']:
        raise Unsupported('two pydsdl classes share a __name__')
    if d.get('registered_tests') is None:
        raise Unsupported('registered DSDL tests cannot be dumped with their captured class: %s' % d.get('registered_tests_error'))
    for c in d['classes']:
        if not c['name'].isascii():
            raise Unsupported('non-ASCII class name')
    d.update({'alias_rule': rule, 'roots_order': roots, 'reserved_namespaces': ns, 'reserved_names': nm, 'templates': tpl,
              'init_written': shape['written'], 'gate_reserved': shape['gate_reserved'],
              'gate_checks_existing': shape['gate_checks_existing'], 'gate_refs': shape['gate_refs'],
              'field_is_instance': inst_body, 'template_suffix': template_suffix(),
              'index_top_level_only': loader_shape() == 'loadable', 'chain_ends_at_any': loader_shape() == 'loadable',
              'index_checks_loadable': loader_shape() == 'loadable',
              'loader_shape': loader_shape()})
    return d


def render(d: dict) -> str:
    classes = sorted(d['classes'], key=lambda c: c['name'])
    ident = {c['name']: i for i, c in enumerate(classes)}
    L = [gen.HEADER % SRC, 'From Verif Require Import Str Lookup.', 'Open Scope N_scope.', '']
    L.append('(* pydsdl class forest: (id, (name, (bases without object, length of the MRO))) *)')
    L.append('Definition g_classes : list (N * (str * (list N * nat))) :=\n  [' + ';\n   '.join(
        '(%d, (%s, ([%s], %d%%nat))) (* %s%s *)' % (ident[c['name']], coq_str(c['name']), '; '.join(str(ident[b]) for b in c['bases']),
                                                    c['rank'], c['name'], ' : ' + ', '.join(c['bases']) if c['bases'] else '')
        for c in classes) + '].\n')
    for nm in ('Any', 'Attribute', 'SerializableType', 'CompositeType', 'StructureType'):
        if nm not in ident:
            raise Unsupported('pydsdl.%s is not in the class forest' % nm)
        L.append('Definition g_cls_%s : N := %d.' % (nm, ident[nm]))
    L.append('')
    L.append('(* visiting order of _create_all_dsdl_tests (roots: %s), by class id *)' % ', '.join(d['roots_order']))
    order = []
    for r in d['roots_order']:
        order += d['roots'][r]
    L.append('Definition g_test_order : list N := [%s].\n' % '; '.join(str(ident[n]) for n in order))
    L.append('(* import-time dump of DSDLCodeGenerator._create_all_dsdl_tests(): (registered test name, id of the class captured as `root`) *)')
    L.append('Definition g_registered_tests : list (str * N) :=\n  [' + ';\n   '.join(
        '(%s, %d) (* %s -> %s *)' % (coq_str(n), ident[r], n, r) for n, r in d['registered_tests']) + '].\n')
    L.append('(* T2: alias rule of DSDLCodeGenerator._create_instance_tests_for_type *)')
    L.append('Definition alias_key (%s : str) : str :=\n  %s.\n' % tuple(d['alias_rule']))
    L.append('(* built-in template packages: (language, sorted listing of relative paths -- every file, not only templates) *)')
    L.append('Definition g_builtin_listings : list (str * list str) :=\n  [' + ';\n   '.join(
        '(%s (* %s *),\n    %s)' % (coq_str(lang), lang, coq_strs(names, '     ')) for lang, names in sorted(d['templates'].items())) + '].\n')
    L.append('Definition g_jinja_tests : list str :=\n  %s.\n' % coq_strs(d['jinja_tests']))
    L.append('Definition g_jinja_filters : list str :=\n  %s.\n' % coq_strs(d['jinja_filters']))
    L.append('Definition g_jinja_globals : list str :=\n  %s.\n' % coq_strs(d['jinja_globals']))
    L.append('Definition g_reserved_namespaces : list str :=\n  %s.\n' % coq_strs(d['reserved_namespaces']))
    L.append('Definition g_reserved_names : list str :=\n  %s.\n' % coq_strs(d['reserved_names']))
    L.append('(* names CodeGenEnvironment.__init__ assigns in self.globals itself after the user\'s additional_globals *)')
    L.append('Definition g_init_written : list str :=\n  %s.\n' % coq_strs(d['init_written']))
    L.append('(* T2: the gate of CodeGenEnvironment.__init__ on additional_globals: name in the union of %s *)' % ', '.join('self.' + r for r in d['gate_refs']))
    L.append('Definition g_gate_reserved : list str :=\n  %s.\n' % coq_strs(d['gate_reserved']))
    L.append('Definition g_gate_checks_existing : bool := %s.\n' % ('true' if d['gate_checks_existing'] else 'false'))
    L.append('(* T2: body of _field_is_instance; isinst a b = isinstance(<object of class a>, <class b>); vc = class of the value, '
             'vdt = class of value.data_type *)')
    L.append('Definition g_field_is_instance (isinst : N -> N -> bool) (attr root vc vdt : N) : bool :=\n  %s.\n' % d['field_is_instance'])
    L.append('Definition g_template_suffix : str := %s. (* TEMPLATE_SUFFIX = %r *)\n' % (coq_str(d['template_suffix']), d['template_suffix']))
    L.append('(* which pinned shape type_to_template has: true = only templates directly under a templates directory are indexed *)')
    L.append('Definition g_index_top_level_only : bool := %s.\n' % ('true' if d['index_top_level_only'] else 'false'))
    L.append('(* true = names the file-system loader lists but cannot load (dangling links) are not indexed (fix 5a15038) *)')
    L.append('Definition g_index_checks_loadable : bool := %s.\n' % ('true' if d['index_checks_loadable'] else 'false'))
    L.append('(* which pinned shape _type_to_template_internal has: true = the bases of pydsdl.Any are not searched *)')
    L.append('Definition g_chain_ends_at_any : bool := %s.\n' % ('true' if d['chain_ends_at_any'] else 'false'))
    L.append('(* names in a fresh CodeGenEnvironment per target language (before DSDL tests and user additions) *)')
    for kind in ('tests', 'filters', 'globals'):
        L.append('Definition g_env_%s : list (str * list str) :=\n  [' % kind + ';\n   '.join(
            '(%s (* %s *),\n    %s)' % (coq_str(lang), lang, coq_strs(e[kind], '     ')) for lang, e in sorted(d['env'].items())) + '].\n')
    L.append('(* filter_* / is_* routines of DSDLCodeGenerator (added by add_conventional_methods_to_environment(self)) *)')
    L.append('Definition g_gen_filters : list str :=\n  %s.\n' % coq_strs(d['gen_filters']))
    L.append('Definition g_gen_tests : list str :=\n  %s.\n' % coq_strs(d['gen_tests']))
    return '\n'.join(L)


def class_ids(d: dict) -> typing.Dict[str, int]:
    return {c['name']: i for i, c in enumerate(sorted(d['classes'], key=lambda c: c['name']))}


def gen_lookup() -> typing.Tuple[bool, str]:
    try:
        text = render(data())
    except (Unsupported, SyntaxError, OSError, KeyError, subprocess.TimeoutExpired) as ex:
        gen.write_if_changed(OUT, gen.HEADER % SRC + '(* translator failed closed: %s *)\n' % str(ex).replace('*)', '* )'))
        return False, 'C16 translator failed closed: %s' % ex
    gen.write_if_changed(OUT, text)
    return True, 'ok'


PIN_LOADER = [('src/nunavut/jinja/loaders.py', 'DSDLTemplateLoader.__init__'),
              ('src/nunavut/jinja/loaders.py', 'DSDLTemplateLoader.get_source'),
              ('src/nunavut/jinja/loaders.py', 'DSDLTemplateLoader.type_to_template'),
              ('src/nunavut/jinja/loaders.py', 'DSDLTemplateLoader._filter_template_list_by_suffix'),
              ('src/nunavut/jinja/loaders.py', 'DSDLTemplateLoader._type_to_template_internal'),
              ('src/nunavut/jinja/__init__.py', 'DSDLCodeGenerator.filter_type_to_template')]
PIN_ENV = [('src/nunavut/jinja/environment.py', 'CodeGenEnvironment._add_to_environment'),
           ('src/nunavut/jinja/environment.py', 'CodeGenEnvironment.add_test'),
           ('src/nunavut/jinja/environment.py', 'CodeGenEnvironment._add_each_to_environment'),
           ('src/nunavut/jinja/environment.py', 'CodeGenEnvironment._add_conventional_method_to_environment'),
           ('src/nunavut/jinja/environment.py', 'CodeGenEnvironment._resolve_collection'),
           ('src/nunavut/jinja/environment.py', 'CodeGenEnvironment._add_support_from_language_module_to_environment'),
           ('src/nunavut/jinja/environment.py', 'CodeGenEnvironment.add_conventional_methods_to_environment'),
           ('src/nunavut/jinja/environment.py', 'CodeGenEnvironment._update_language_support'),
           ('src/nunavut/jinja/environment.py', 'CodeGenEnvironment.update_nunavut_globals')]


PIN_LOADER_TOP = PIN_LOADER + [('src/nunavut/jinja/loaders.py', 'DSDLTemplateLoader._type_templates')]


LOADER_METHODS = ['__init__', '_filter_template_list_by_suffix', '_type_templates', '_type_to_template_internal', 'get_source',
                  'get_template_sets', 'get_templates', 'list_templates', 'type_to_template']


def loader_methods() -> typing.List[str]:
    """names of everything DSDLTemplateLoader defines or assigns in its class body (an added `load`/`get_source` alias would bypass the model)"""
    mod = gen.parse_repo('src/nunavut/jinja/loaders.py')
    cls = next(n for n in mod.body if isinstance(n, ast.ClassDef) and n.name == 'DSDLTemplateLoader')
    if [ast.dump(b) for b in cls.bases] != [ast.dump(ast.Name(id='BaseLoader', ctx=ast.Load()))]:
        raise Unsupported('DSDLTemplateLoader no longer derives from BaseLoader only')
    names = []
    for n in cls.body:
        if isinstance(n, (ast.FunctionDef, ast.AsyncFunctionDef, ast.ClassDef)):
            names.append(n.name)
        elif isinstance(n, (ast.Assign, ast.AnnAssign, ast.AugAssign)):
            names += [t.id for t in ast.walk(n) if isinstance(t, ast.Name) and isinstance(t.ctx, ast.Store)]
        elif not (isinstance(n, ast.Expr) and isinstance(n.value, ast.Constant)):
            raise Unsupported('unexpected statement in the body of DSDLTemplateLoader')
    return sorted(names)


def loader_shape() -> typing.Optional[str]:
    """which of the ACCEPTED shapes the pinned loader functions have (pre-fix shapes are no longer accepted: reverting af716bd or
    52035ba fails closed):
    'top_any'  = only top-level templates are indexed (af716bd) and the walk stops at pydsdl.Any (52035ba),
    'loadable' = 'top_any' + names the file-system loader cannot load (dangling links) are not indexed
                 (design_notes/C16_dangling_link_fix.patch),
    None       = neither, or the class has other members than the model knows (fail closed)"""
    from . import shape_pin
    for shape, name in (('loadable', 'c16_loader_loadable'),):   # only the post-fix shape (5a15038) is accepted
        try:
            cur = '\n'.join('## %s:%s\n%s' % (p, q, shape_pin.normalized_dump(p, q)) for p, q in PIN_LOADER_TOP) + '\n'
            with open(os.path.join(shape_pin.PINS, name + '.txt'), encoding='utf-8') as f:
                if f.read() == cur:
                    return shape if loader_methods() == LOADER_METHODS else None
        except (OSError, KeyError, SyntaxError, AssertionError, StopIteration, Unsupported):
            continue
    return None


def pin_c16_loader():
    out = os.path.join(gen.GEN_DIR, 'Gen_Pin_c16_loader.v')
    head = gen.HEADER % ', '.join('%s:%s' % t for t in PIN_LOADER_TOP)
    shape = loader_shape()
    if shape is None:
        gen.write_if_changed(out, head + '(* shape of the pinned loader functions is neither of the two the hand model was written for *)\n')
        return False, 'shape pin c16_loader: the code no longer has a shape the hand model was written for'
    gen.write_if_changed(out, head + '(* shape: %s *)\nDefinition pin_c16_loader_ok : bool := true.\n' % shape)
    return True, 'ok (%s)' % shape


def pin_c16_env():
    from . import shape_pin
    return shape_pin.check_pin('c16_env', PIN_ENV)


PIN_WIRING = [('src/nunavut/jinja/__init__.py', 'CodeGenerator.__init__'),
              ('src/nunavut/jinja/__init__.py', 'DSDLCodeGenerator.__init__'),
              ('src/nunavut/jinja/__init__.py', 'DSDLCodeGenerator.generate_all'),
              ('src/nunavut/jinja/__init__.py', 'DSDLCodeGenerator._generate_type'),
              ('src/nunavut/jinja/__init__.py', 'DSDLCodeGenerator._create_all_dsdl_tests')]


def pin_c16_wiring():
    from . import shape_pin
    return shape_pin.check_pin('c16_wiring', PIN_WIRING)


# ---- class surface pin ---------------------------------------------------------------------------------------------------------
SURFACE_CLASSES = [('src/nunavut/jinja/environment.py', 'CodeGenEnvironment'),
                   ('src/nunavut/jinja/environment.py', 'CodeGenEnvironmentBuilder'),
                   ('src/nunavut/jinja/loaders.py', 'DSDLTemplateLoader'),
                   ('src/nunavut/jinja/__init__.py', 'CodeGenerator'),
                   ('src/nunavut/jinja/__init__.py', 'DSDLCodeGenerator'),
                   ('src/nunavut/jinja/jinja2/loaders.py', 'BaseLoader'),
                   ('src/nunavut/jinja/jinja2/loaders.py', 'FileSystemLoader'),
                   ('src/nunavut/jinja/jinja2/loaders.py', 'PackageLoader')]
STORE_ATTRS = ('globals', 'filters', 'tests')
DYNAMIC_NAMES = ('setattr', 'delattr', '__dict__', 'vars', 'globals', 'locals', 'exec', 'eval', '__setitem__', '__delitem__', '__setattr__',
                 '__class__', '__bases__', '__getattribute__', '__getattr__')


def _mentions(node: ast.AST, attrs: typing.Sequence[str], names: typing.Sequence[str]) -> bool:
    for n in ast.walk(node):
        if isinstance(n, ast.Attribute) and (n.attr in attrs or n.attr in names):
            return True
        if isinstance(n, ast.Name) and n.id in names:
            return True
    return False


def _innermost_stmts(fn: ast.AST) -> typing.List[ast.stmt]:
    out = []
    for n in ast.walk(fn):
        if isinstance(n, ast.stmt) and not isinstance(n, (ast.FunctionDef, ast.AsyncFunctionDef, ast.ClassDef, ast.If, ast.For, ast.While,
                                                            ast.With, ast.Try)):
            out.append(n)
        elif isinstance(n, (ast.If, ast.While)):
            out.append(ast.Expr(value=n.test))
        elif isinstance(n, ast.For):
            out.append(ast.Expr(value=ast.Tuple(elts=[n.target, n.iter], ctx=ast.Load())))
        elif isinstance(n, ast.With):
            out += [ast.Expr(value=i.context_expr) for i in n.items]
    return out


def surface() -> dict:
    """what the hand models and the function pins silently rely on, for every class on the lookup/environment path:
    bases / keywords / decorators, the ORDERED member names (a name defined twice fails closed: Python binds the last definition,
    a pin could read the first), module-level statements that mention the class (monkey patching), and EVERY statement of the class
    that mentions .globals / .filters / .tests in any form (subscript store, update, setdefault, pop, attribute assignment, alias)
    or a dynamic-access name (setattr, __dict__, vars, globals, exec, ...)"""
    out = {}
    mods: typing.Dict[str, ast.Module] = {}
    for rel, cname in SURFACE_CLASSES:
        mod = mods.setdefault(rel, gen.parse_repo(rel))
        classes = [n for n in mod.body if isinstance(n, ast.ClassDef) and n.name == cname]
        if len(classes) != 1:
            raise Unsupported('%s: class %s defined %d times at module level' % (rel, cname, len(classes)))
        cls = classes[0]
        members = []
        for n in cls.body:
            if isinstance(n, (ast.FunctionDef, ast.AsyncFunctionDef, ast.ClassDef)):
                accessor = [x.attr for x in n.decorator_list if isinstance(x, ast.Attribute) and isinstance(x.value, ast.Name)
                            and x.value.id == n.name and x.attr in ('setter', 'getter', 'deleter')]
                members.append(n.name + ('.' + accessor[0] if accessor else ''))   # @x.setter def x: part of the property x
            elif isinstance(n, (ast.Assign, ast.AnnAssign, ast.AugAssign)):
                members += [t.id for t in ast.walk(n) if isinstance(t, ast.Name) and isinstance(t.ctx, ast.Store)]
            elif not (isinstance(n, ast.Expr) and isinstance(n.value, ast.Constant)) and not isinstance(n, ast.Pass):
                raise Unsupported('%s.%s: unexpected statement %s in the class body' % (rel, cname, type(n).__name__))
        if len(set(members)) != len(members):
            raise Unsupported('%s.%s: a member is defined more than once: %s' % (rel, cname, sorted(m for m in set(members) if members.count(m) > 1)))
        entry = {'bases': [ast.dump(b) for b in cls.bases], 'keywords': [ast.dump(k) for k in cls.keywords],
                 'decorators': [ast.dump(x) for x in cls.decorator_list], 'members': members,
                 'member_decorators': {n.name: [ast.dump(x) for x in n.decorator_list] for n in cls.body
                                       if isinstance(n, (ast.FunctionDef, ast.AsyncFunctionDef)) and n.decorator_list},
                 'module_mentions': [ast.dump(st) for st in mod.body
                                     if not isinstance(st, (ast.ClassDef, ast.FunctionDef, ast.AsyncFunctionDef, ast.Import, ast.ImportFrom))
                                     and any(isinstance(n, ast.Name) and n.id == cname for n in ast.walk(st))]}
        if '/jinja2/' not in rel:
            stores = []
            for n in cls.body:
                if isinstance(n, (ast.FunctionDef, ast.AsyncFunctionDef)):
                    for st in _innermost_stmts(n):
                        if _mentions(st, STORE_ATTRS, DYNAMIC_NAMES):
                            stores.append('%s: %s' % (n.name, ast.dump(st)))
            entry['store_and_dynamic_statements'] = stores
        out['%s:%s' % (rel, cname)] = entry
    # functions and classes defined after the pinned classes could rebind them: no second module-level binding of a pinned class name
    for rel, mod in mods.items():
        bound = [t.id for st in mod.body if isinstance(st, (ast.Assign, ast.AnnAssign, ast.AugAssign)) for t in ast.walk(st)
                 if isinstance(t, ast.Name) and isinstance(t.ctx, ast.Store)]
        bound += [n.name for n in mod.body if isinstance(n, (ast.FunctionDef, ast.AsyncFunctionDef))]
        clash = sorted(set(bound) & {c for r, c in SURFACE_CLASSES if r == rel})
        if clash:
            raise Unsupported('%s: pinned class name(s) rebound at module level: %s' % (rel, clash))
    return out


SURFACE_PIN = os.path.join(os.path.dirname(os.path.abspath(__file__)), 'pins', 'c16_surface.json')


def pin_c16_surface():
    out = os.path.join(gen.GEN_DIR, 'Gen_Pin_c16_surface.v')
    head = gen.HEADER % ', '.join('%s:%s' % t for t in SURFACE_CLASSES)
    try:
        cur = surface()
        with open(SURFACE_PIN, encoding='utf-8') as f:
            pinned = json.load(f)
    except (Unsupported, OSError, SyntaxError, ValueError) as ex:
        gen.write_if_changed(out, head + '(* class surface pin failed closed: %s *)\n' % str(ex).replace('*)', '* )'))
        return False, 'class surface pin failed closed: %s' % ex
    if cur != pinned:
        diff = sorted(k for k in set(cur) | set(pinned) if cur.get(k) != pinned.get(k))
        gen.write_if_changed(out, head + '(* class surface changed: %s *)\n' % ', '.join(diff).replace('*)', '* )'))
        return False, 'class surface pin: %s changed (bases/decorators/members/module-level mentions/stores to globals-filters-tests)' % ', '.join(diff)
    gen.write_if_changed(out, head + 'Definition pin_c16_surface_ok : bool := true.\n')
    return True, 'ok'


GENERATORS = {'pin_c16_surface': pin_c16_surface, 'lookup': gen_lookup, 'pin_c16_loader': pin_c16_loader, 'pin_c16_env': pin_c16_env, 'pin_c16_wiring': pin_c16_wiring}


if __name__ == '__main__':
    import sys
    if sys.argv[1:] == ['--update-surface']:
        with open(SURFACE_PIN, 'w', encoding='utf-8') as _f:
            json.dump(surface(), _f, indent=1, sort_keys=True)
            _f.write('\n')
        print('pinned c16_surface')
