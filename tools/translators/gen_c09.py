"""T1 translator for C09: regenerates coq/theories/Generated/Gen_Strop.v from /repo's working tree.

What is translated (data, not code):
  * for each of c, cpp, py the *effective* stropping configuration, i.e. the attributes of the TokenEncoder
    instance that `Language.filter_id` uses, obtained by running tools/harness/c09_impl.py dump in a subprocess
    with PYTHONPATH=<repo>/src (so the YAML -> LanguageConfig -> Language -> TokenEncoder.__init__ plumbing,
    including the synthesised 'any' entries and Python's keyword/builtin list, is part of what is tied);
  * every reserved pattern / encoding rule as a `re` AST (regex_tr, fail closed outside its subset; encoding
    rules must not be able to match the empty string, compile flags must be the default re.UNICODE);
  * which failure handlers are installed.  A handler is only accepted when the source of the function (found
    with `ast` in the file the function object points to) is, up to renaming of parameters/locals, docstrings
    and comments, the C/C++ handler that Gen/Strop.v models (`handler_und`); anything else fails closed;
  * str.isspace() as a range table, keyword.kwlist of the interpreter that runs nunavut, and the presence and
    maxsize of functools.lru_cache on TokenEncoder.strop (read with `ast`).
"""
from __future__ import annotations

import ast
import json
import os
import typing

from tools.lib import core
from . import gen, regex_tr

OUT = os.path.join(gen.GEN_DIR, 'Gen_Strop.v')
SRC_DESC = ('src/nunavut/lang/properties.yaml, lang/_common.py, lang/c/__init__.py, lang/cpp/__init__.py, '
            'lang/py/__init__.py (via the TokenEncoder instances of the working tree)')
LANGS = ['c', 'cpp', 'py']


class FailClosed(Exception):
    pass


# ---------------------------------------------------------------------------------------------------
def dump_config(overrides: typing.Optional[dict] = None) -> dict:
    p = core.run([core.PY, os.path.join(core.VERIF, 'tools', 'harness', 'c09_impl.py'), 'dump'],
                 env=core.repo_env({'C09_OVERRIDES': json.dumps(overrides)}), timeout=300)
    i = p.stdout.find('{"python"')
    if p.returncode != 0 or i < 0:
        raise FailClosed('configuration dump failed: %s' % p.stdout[-400:].replace('\n', ' | '))
    return json.loads(p.stdout[i:])


def _cstr(s: str) -> str:
    return '[%s]' % '; '.join(str(ord(c)) for c in s)


def _comment(s: str) -> str:
    return ''.join(ch if 32 <= ord(ch) < 127 else '\\u%04x' % ord(ch) for ch in s).replace('*)', '* )').replace('(*', '( *')


def _str_list(name: str, words: typing.List[str]) -> str:
    lines = ['   %s%s (* %s *)' % (_cstr(w), ';' if i + 1 < len(words) else '', _comment(w)) for i, w in enumerate(words)]
    return 'Definition %s : list str :=\n  [\n%s\n  ]%%N.\n' % (name, '\n'.join(lines))


def _pattern(pat, what: str, non_nullable: bool) -> str:
    if not (isinstance(pat, list) and len(pat) == 2 and isinstance(pat[0], str)):
        raise FailClosed('%s: unexpected pattern entry %r' % (what, pat))
    text, flags = pat
    if flags != 32:  # re.UNICODE, what re.compile(str) gives without flags
        raise FailClosed('%s: pattern %r compiled with flags %r (only the default is modelled)' % (what, text, flags))
    try:
        r = regex_tr.parse(text)
    except regex_tr.Unsupported as ex:
        raise FailClosed('%s: pattern %r outside the translated regex subset: %s' % (what, text, ex))
    if non_nullable and regex_tr._nullable(r):
        raise FailClosed('%s: encoding rule %r can match the empty string (re.sub semantics not modelled)' % (what, text))
    return regex_tr.to_coq(r)


def _pmap(lang: str, kind: str, m: dict, non_nullable: bool, defs: typing.List[str]) -> str:
    entries = []
    for key, pats in m.items():
        if not isinstance(key, str) or not key.isascii():
            raise FailClosed('%s %s: non-ASCII identifier type %r' % (lang, kind, key))
        names = []
        for i, pat in enumerate(pats):
            nm = '%s_%s_%s_%d' % (lang, kind, ''.join(ch if ch.isalnum() else '_' for ch in key), i)
            defs.append('(* %s %s[%s][%d] = %s *)\nDefinition %s : re :=\n  %s.\n'
                        % (lang, kind, _comment(key), i, _comment(repr(pat[0])), nm,
                           _pattern(pat, '%s %s[%s]' % (lang, kind, key), non_nullable)))
            names.append(nm)
        entries.append('(%s (* %s *), [%s])' % (_cstr(key), _comment(key), '; '.join(names)))
    return '[' + ';\n     '.join(entries) + ']'


# ---------------------------------------------------------------------------------------------------
# handler recognition (ast; the function is located through the function object's file/qualname)
# ---------------------------------------------------------------------------------------------------
def _find_def(tree: ast.AST, qualname: str) -> ast.FunctionDef:
    node: ast.AST = tree
    for part in qualname.split('.'):
        nxt = None
        for ch in ast.iter_child_nodes(node):
            if isinstance(ch, (ast.ClassDef, ast.FunctionDef)) and ch.name == part:
                nxt = ch
        if nxt is None:
            raise FailClosed('handler %s not found in its source file' % qualname)
        node = nxt
    if not isinstance(node, ast.FunctionDef):
        raise FailClosed('handler %s is not a plain function' % qualname)
    return node


def _is_name(n, name) -> bool:
    return isinstance(n, ast.Name) and n.id == name


def _is_call_attr(n, attr, nargs) -> bool:
    return (isinstance(n, ast.Call) and isinstance(n.func, ast.Attribute) and n.func.attr == attr
            and len(n.args) == nargs and not n.keywords)


HANDLER_DEFS: typing.Dict[str, typing.Tuple[str, str, str]] = {}   # qualname@file -> (pre, grp, tmpl) as Coq terms


def recognise_handler(h: typing.Optional[dict]) -> str:
    """returns the Coq constructor for the installed handler, or raises FailClosed.  The handler function is TRANSLATED:
         <m> = re.match(<"pre(grp)">, <stropped>)          -> regex parts as `re` ASTs (regex_tr)
         if <m>: return <"lit{}{}".format(p1, p2) | f"lit{p1}{p2}">   with pieces m.group(1).lower() | m.group(1) | stropped[m.end():]
         raise <pending_error>                                 -> template as `list rpiece`
       (recorded in HANDLER_DEFS; Properties/C09.v states that they are the parts Gen/Strop.v's handler_und was written for)"""
    if h is None:
        return 'HNone'
    path = h.get('file') or ''
    src_root = os.path.join(core.REPO, 'src') + os.sep
    if not os.path.abspath(path).startswith(os.path.abspath(src_root)):
        raise FailClosed('handler %s is defined outside the working tree (%s)' % (h.get('qualname'), path))
    with open(path, encoding='utf-8') as f:
        fn = _find_def(ast.parse(f.read(), filename=path), h['qualname'])
    a = fn.args
    if a.vararg or a.kwarg or a.kwonlyargs or a.defaults or len(a.posonlyargs) + len(a.args) != 4:
        raise FailClosed('handler %s: unexpected signature' % h['qualname'])
    params = [x.arg for x in list(a.posonlyargs) + list(a.args)]
    stropped, pending = params[1], params[3]    # TokenEncoder calls handler(self, stropped, token_type, pending_error)
    body = _strip_doc(fn.body)
    why = 'handler %s is outside the translated subset' % h['qualname']
    if len(body) != 3:
        raise FailClosed(why + ' (statement count)')
    s0, s1, s2 = body
    if not (isinstance(s0, ast.Assign) and len(s0.targets) == 1 and isinstance(s0.targets[0], ast.Name)):
        raise FailClosed(why + ' (first statement)')
    m = s0.targets[0].id
    c = s0.value
    if not (_is_call_attr(c, 'match', 2) and _is_name(c.func.value, 're') and isinstance(c.args[0], ast.Constant)
            and isinstance(c.args[0].value, str) and _is_name(c.args[1], stropped)):
        raise FailClosed(why + ' (m = re.match("<pattern>", stropped))')
    pat = c.args[0].value
    import re as _re
    sp = _re.fullmatch(r'([^()]*)\(([^()?][^()]*|)\)', pat)
    if not sp:
        raise FailClosed(why + ' (pattern %r is not <prefix>(<one capturing group at the end>))' % pat)
    try:
        pre = regex_tr.to_coq(regex_tr.parse(sp.group(1)))
        grp = regex_tr.to_coq(regex_tr.parse(sp.group(2)))
    except regex_tr.Unsupported as ex:
        raise FailClosed(why + ' (pattern %r outside the translated regex subset: %s)' % (pat, ex))
    if not (isinstance(s1, ast.If) and _is_name(s1.test, m) and not s1.orelse and len(s1.body) == 1
            and isinstance(s1.body[0], ast.Return) and s1.body[0].value is not None):
        raise FailClosed(why + ' (if m: return ...)')
    r = s1.body[0].value
    pieces: typing.List[typing.Any] = []
    if _is_call_attr(r, 'format', len(r.args) if isinstance(r, ast.Call) else 0) and isinstance(r.func.value, ast.Constant) \
            and isinstance(r.func.value.value, str):
        lits = r.func.value.value.split('{}')
        if len(lits) != len(r.args) + 1 or '{' in ''.join(lits) or '}' in ''.join(lits):
            raise FailClosed(why + ' (format string)')
        for i, arg in enumerate(r.args):
            pieces += [lits[i], arg]
        pieces.append(lits[-1])
    elif isinstance(r, ast.JoinedStr):
        for v in r.values:
            if isinstance(v, ast.Constant) and isinstance(v.value, str):
                pieces.append(v.value)
            elif isinstance(v, ast.FormattedValue) and v.conversion == -1 and v.format_spec is None:
                pieces.append(v.value)
            else:
                raise FailClosed(why + ' (f-string piece)')
    else:
        raise FailClosed(why + ' (returned expression)')
    tmpl = []
    for p in pieces:
        if isinstance(p, str):
            if p:
                tmpl.append('RLit %s' % _cstr(p))
        elif (_is_call_attr(p, 'lower', 0) and _is_call_attr(p.func.value, 'group', 1) and _is_name(p.func.value.func.value, m)
              and isinstance(p.func.value.args[0], ast.Constant) and p.func.value.args[0].value == 1):
            tmpl.append('RGroupLower')
        elif (_is_call_attr(p, 'group', 1) and _is_name(p.func.value, m) and isinstance(p.args[0], ast.Constant) and p.args[0].value == 1):
            tmpl.append('RGroup')
        elif (isinstance(p, ast.Subscript) and _is_name(p.value, stropped) and isinstance(p.slice, ast.Slice)
              and p.slice.upper is None and p.slice.step is None and _is_call_attr(p.slice.lower, 'end', 0)
              and _is_name(p.slice.lower.func.value, m)):
            tmpl.append('RRest')
        else:
            raise FailClosed(why + ' (piece of the returned string)')
    if not (isinstance(s2, ast.Raise) and _is_name(s2.exc, pending) and s2.cause is None):
        raise FailClosed(why + ' (raise pending_error)')
    HANDLER_DEFS['%s@%s' % (h['qualname'], os.path.relpath(path, core.REPO))] = (pre, grp, '[%s]' % '; '.join(tmpl))
    return 'HUnd'


def _token_encoder_class() -> ast.ClassDef:
    tree = gen.parse_repo('src/nunavut/lang/_common.py')
    for node in tree.body:
        if isinstance(node, ast.ClassDef) and node.name == 'TokenEncoder':
            return node
    raise FailClosed('class TokenEncoder not found in lang/_common.py')


def _strip_doc(body):
    body = list(body)
    if body and isinstance(body[0], ast.Expr) and isinstance(body[0].value, ast.Constant) and isinstance(body[0].value.value, str):
        body = body[1:]
    return body


def strop_reverifies() -> bool:
    """How does TokenEncoder.strop hand back its result?  Two shapes are modelled (Gen/Strop.v, sc_reverify):
         return stropped                                              -> False
         return self.<m>(stropped, token_type_lower)   with
             def <m>(self, a, b):  self._do_for_type_and_all(self.<check>, a, b, True)  for each of the three checks
                                   (_strop_by_pattern, _strop_by_keyword, _encode, each exactly once, any order);  return a
                                                                      -> True
       anything else fails closed."""
    cls = _token_encoder_class()
    methods = {f.name: f for f in cls.body if isinstance(f, ast.FunctionDef)}
    fn = methods.get('strop')
    if fn is None:
        raise FailClosed('TokenEncoder.strop not found')
    rets = [n for n in ast.walk(fn) if isinstance(n, ast.Return)]
    last = fn.body[-1]
    if len(rets) != 1 or rets[0] is not last or last.value is None:
        raise FailClosed('TokenEncoder.strop: expected exactly one return, as the last statement')
    v = last.value
    if isinstance(v, ast.Name):
        return False
    if not (isinstance(v, ast.Call) and isinstance(v.func, ast.Attribute) and _is_name(v.func.value, 'self') and not v.keywords
            and len(v.args) == 2 and all(isinstance(a, ast.Name) for a in v.args)):
        raise FailClosed('TokenEncoder.strop: the returned expression is neither a variable nor self.<method>(token, type)')
    # the second argument must be the lower-cased type the dry-run checks in strop itself use
    dry_types = {c.args[2].id for c in ast.walk(fn) if isinstance(c, ast.Call) and isinstance(c.func, ast.Attribute)
                 and c.func.attr == '_do_for_type_and_all' and len(c.args) == 4 and isinstance(c.args[2], ast.Name)}
    if dry_types != {v.args[1].id}:
        raise FailClosed('TokenEncoder.strop: the re-verification is not called with the type the other checks use')
    m = methods.get(v.func.attr)
    why = 'TokenEncoder.%s is not the modelled final re-verification' % v.func.attr
    if m is None:
        raise FailClosed(why + ' (method not found)')
    a = m.args
    if a.vararg or a.kwarg or a.kwonlyargs or a.defaults or len(a.posonlyargs) + len(a.args) != 3 or m.decorator_list:
        raise FailClosed(why + ' (signature)')
    _, p_tok, p_ty = [x.arg for x in list(a.posonlyargs) + list(a.args)]
    body = _strip_doc(m.body)
    if len(body) != 4 or not (isinstance(body[3], ast.Return) and _is_name(body[3].value, p_tok)):
        raise FailClosed(why + ' (three checks followed by `return <token>` expected)')
    seen = set()
    for st in body[:3]:
        c = st.value if isinstance(st, ast.Expr) else None
        if not (isinstance(c, ast.Call) and isinstance(c.func, ast.Attribute) and c.func.attr == '_do_for_type_and_all'
                and _is_name(c.func.value, 'self') and not c.keywords and len(c.args) == 4
                and isinstance(c.args[0], ast.Attribute) and _is_name(c.args[0].value, 'self')
                and _is_name(c.args[1], p_tok) and _is_name(c.args[2], p_ty)
                and isinstance(c.args[3], ast.Constant) and c.args[3].value is True):
            raise FailClosed(why + ' (statement is not self._do_for_type_and_all(self.<check>, token, type, True))')
        seen.add(c.args[0].attr)
    if seen != {'_strop_by_pattern', '_strop_by_keyword', '_encode'}:
        raise FailClosed(why + ' (checks %s)' % sorted(seen))
    return True


XFORMS = {'_encode': 'XEncode', '_strop_by_keyword': 'XKeyword', '_strop_by_pattern': 'XPattern'}
HSELS = {'_stropping_failure_handler': 'HStropping', '_encoding_failure_handler': 'HEncoding'}


def _self_attr(n, table) -> typing.Optional[str]:
    if isinstance(n, ast.Attribute) and _is_name(n.value, 'self') and n.attr in table:
        return table[n.attr]
    return None


def _do_for_call(c, cur: str, ty: str, dry: bool) -> typing.Optional[str]:
    """c is self._do_for_type_and_all(self.<x>, cur, ty, <dry>) -> the Coq constructor of <x>"""
    if not (isinstance(c, ast.Call) and isinstance(c.func, ast.Attribute) and c.func.attr == '_do_for_type_and_all'
            and _is_name(c.func.value, 'self') and not c.keywords and len(c.args) == 4):
        return None
    x = _self_attr(c.args[0], XFORMS)
    if x is None or not _is_name(c.args[1], cur) or not _is_name(c.args[2], ty):
        return None
    if not (isinstance(c.args[3], ast.Constant) and c.args[3].value is dry):
        return None
    return x


def strop_pipeline() -> typing.List[str]:
    """TokenEncoder.strop, statement by statement, as a list of Coq `pstep` terms (meaning: Gen/Strop.v run_pipeline).
    Supported statements, in this order (anything else fails closed):
       L = <token_type>.lower()
       if L == "all": raise ValueError(...)
       ( v = self._do_for_type_and_all(self.<x>, cur, L, False)                                  -> PApply x   ; cur := v
       | try: self._do_for_type_and_all(self.<x>, cur, L, True)
         except RuntimeError as e:
             if self.<h> is None: raise e
             cur = self.<h>(self, cur, <token_type>, e)                                            -> PCheck x h
       )*
       return cur   |   return self.<m>(cur, L)  with <m> = dry checks + `return <token>`          -> PReverify [x...]
    where cur is the variable assigned by the previous step (initially the parameter `token`)."""
    cls = _token_encoder_class()
    methods = {f.name: f for f in cls.body if isinstance(f, ast.FunctionDef)}
    fn = methods.get('strop')
    if fn is None:
        raise FailClosed('TokenEncoder.strop not found')
    a = fn.args
    if a.vararg or a.kwarg or a.kwonlyargs or len(a.posonlyargs) + len(a.args) != 3:
        raise FailClosed('TokenEncoder.strop: unexpected signature')
    _, p_tok, p_ty = [x.arg for x in list(a.posonlyargs) + list(a.args)]
    if len(a.defaults) != 1 or not (isinstance(a.defaults[0], ast.Constant) and a.defaults[0].value == 'any'):
        raise FailClosed('TokenEncoder.strop: the default identifier type is not "any"')
    body = _strip_doc(fn.body)
    if len(body) < 3:
        raise FailClosed('TokenEncoder.strop: body too short')
    s0, s1 = body[0], body[1]
    if not (isinstance(s0, ast.Assign) and len(s0.targets) == 1 and isinstance(s0.targets[0], ast.Name)
            and _is_call_attr(s0.value, 'lower', 0) and _is_name(s0.value.func.value, p_ty)):
        raise FailClosed('TokenEncoder.strop: first statement is not `<v> = token_type.lower()`')
    ty = s0.targets[0].id
    if not (isinstance(s1, ast.If) and not s1.orelse and isinstance(s1.test, ast.Compare) and _is_name(s1.test.left, ty)
            and len(s1.test.ops) == 1 and isinstance(s1.test.ops[0], ast.Eq) and isinstance(s1.test.comparators[0], ast.Constant)
            and s1.test.comparators[0].value == 'all' and len(s1.body) == 1 and isinstance(s1.body[0], ast.Raise)
            and isinstance(s1.body[0].exc, ast.Call) and _is_name(s1.body[0].exc.func, 'ValueError')):
        raise FailClosed('TokenEncoder.strop: second statement is not `if <type_lower> == "all": raise ValueError(...)`')
    steps: typing.List[str] = []
    cur = p_tok
    for st in body[2:-1]:
        if isinstance(st, ast.Assign) and len(st.targets) == 1 and isinstance(st.targets[0], ast.Name):
            x = _do_for_call(st.value, cur, ty, False)
            if x is None:
                raise FailClosed('TokenEncoder.strop line %d: not `v = self._do_for_type_and_all(self.<transform>, %s, %s, False)`'
                                 % (st.lineno, cur, ty))
            steps.append('PApply %s' % x)
            cur = st.targets[0].id
        elif isinstance(st, ast.Try):
            why = 'TokenEncoder.strop line %d: try statement is not the modelled guarded dry-run check' % st.lineno
            if st.orelse or st.finalbody or len(st.body) != 1 or len(st.handlers) != 1 or not isinstance(st.body[0], ast.Expr):
                raise FailClosed(why)
            x = _do_for_call(st.body[0].value, cur, ty, True)
            h = st.handlers[0]
            if x is None or not _is_name(h.type, 'RuntimeError') or not h.name or len(h.body) != 2:
                raise FailClosed(why)
            i0, a0 = h.body
            hs = None
            if (isinstance(i0, ast.If) and not i0.orelse and isinstance(i0.test, ast.Compare) and len(i0.test.ops) == 1
                    and isinstance(i0.test.ops[0], ast.Is) and isinstance(i0.test.comparators[0], ast.Constant)
                    and i0.test.comparators[0].value is None and len(i0.body) == 1 and isinstance(i0.body[0], ast.Raise)
                    and _is_name(i0.body[0].exc, h.name) and i0.body[0].cause is None):
                hs = _self_attr(i0.test.left, HSELS)
            if hs is None:
                raise FailClosed(why + ' (`if self.<handler> is None: raise <e>`)')
            c = a0.value if isinstance(a0, ast.Assign) and len(a0.targets) == 1 and _is_name(a0.targets[0], cur) else None
            if not (isinstance(c, ast.Call) and _self_attr(c.func, HSELS) == hs and not c.keywords and len(c.args) == 4
                    and _is_name(c.args[0], 'self') and _is_name(c.args[1], cur) and _is_name(c.args[2], p_ty)
                    and _is_name(c.args[3], h.name)):
                raise FailClosed(why + ' (`%s = self.<same handler>(self, %s, %s, <e>)`)' % (cur, cur, p_ty))
            steps.append('PCheck %s %s' % (x, hs))
        else:
            raise FailClosed('TokenEncoder.strop line %d: statement outside the translated subset' % st.lineno)
    last = body[-1]
    if not isinstance(last, ast.Return) or last.value is None or any(isinstance(n, ast.Return) for st in body[:-1] for n in ast.walk(st)):
        raise FailClosed('TokenEncoder.strop: expected exactly one return, as the last statement')
    v = last.value
    if _is_name(v, cur):
        return steps
    if not (isinstance(v, ast.Call) and isinstance(v.func, ast.Attribute) and _is_name(v.func.value, 'self') and not v.keywords
            and len(v.args) == 2 and _is_name(v.args[0], cur) and _is_name(v.args[1], ty)):
        raise FailClosed('TokenEncoder.strop: returns neither `%s` nor self.<method>(%s, %s)' % (cur, cur, ty))
    m = methods.get(v.func.attr)
    why = 'TokenEncoder.%s is not the modelled final re-verification' % v.func.attr
    if m is None:
        raise FailClosed(why + ' (method not found)')
    ma = m.args
    if ma.vararg or ma.kwarg or ma.kwonlyargs or ma.defaults or len(ma.posonlyargs) + len(ma.args) != 3 or m.decorator_list:
        raise FailClosed(why + ' (signature)')
    _, q_tok, q_ty = [x.arg for x in list(ma.posonlyargs) + list(ma.args)]
    mbody = _strip_doc(m.body)
    if not mbody or not (isinstance(mbody[-1], ast.Return) and _is_name(mbody[-1].value, q_tok)):
        raise FailClosed(why + ' (does not end in `return <token>`)')
    xs = []
    full = False
    checks = mbody[:-1]
    if checks and isinstance(checks[-1], ast.For):
        _whole_token_loop(checks[-1], q_tok, q_ty, why)
        full = True
        checks = checks[:-1]
    for st in checks:
        x = _do_for_call(st.value, q_tok, q_ty, True) if isinstance(st, ast.Expr) else None
        if x is None:
            raise FailClosed(why + ' (statement is not self._do_for_type_and_all(self.<check>, token, type, True))')
        xs.append(x)
    steps.append('PReverify [%s] %s' % ('; '.join(xs), 'true' if full else 'false'))
    return steps


def _whole_token_loop(st: ast.For, tok: str, ty: str, why: str) -> None:
    """for K in ("all", <type>):
           for P in self._token_encoding_rules_by_identifier_type.get(K, []):
               if P.search(<token>): raise RuntimeError(...)                      (meaning: Gen/Strop.v full_ok)"""
    why = why + ' (whole-token loop over the encoding rules)'
    it = st.iter
    if not (isinstance(st.target, ast.Name) and not st.orelse and isinstance(it, ast.Tuple) and len(it.elts) == 2
            and isinstance(it.elts[0], ast.Constant) and it.elts[0].value == 'all' and _is_name(it.elts[1], ty)
            and len(st.body) == 1 and isinstance(st.body[0], ast.For)):
        raise FailClosed(why)
    k = st.target.id
    inner = st.body[0]
    c = inner.iter
    if not (isinstance(inner.target, ast.Name) and not inner.orelse and _is_call_attr(c, 'get', 2)
            and isinstance(c.func.value, ast.Attribute) and _is_name(c.func.value.value, 'self')
            and c.func.value.attr == '_token_encoding_rules_by_identifier_type' and _is_name(c.args[0], k)
            and isinstance(c.args[1], ast.List) and not c.args[1].elts and len(inner.body) == 1 and isinstance(inner.body[0], ast.If)):
        raise FailClosed(why)
    pvar = inner.target.id
    cond = inner.body[0]
    if not (not cond.orelse and _is_call_attr(cond.test, 'search', 1) and _is_name(cond.test.func.value, pvar)
            and _is_name(cond.test.args[0], tok) and len(cond.body) == 1 and isinstance(cond.body[0], ast.Raise)
            and isinstance(cond.body[0].exc, ast.Call) and _is_name(cond.body[0].exc.func, 'RuntimeError')):
        raise FailClosed(why)


def _find_method(rel: str, cls_name: str, name: str) -> ast.FunctionDef:
    tree = gen.parse_repo(rel)
    for node in tree.body:
        if isinstance(node, ast.ClassDef) and node.name == cls_name:
            for f in node.body:
                if isinstance(f, ast.FunctionDef) and f.name == name:
                    return f
    raise FailClosed('%s: %s.%s not found' % (rel, cls_name, name))


def default_id_rule() -> typing.List[str]:
    """Language.default_filter_id_for_target(cls, instance) -> ordered cases:
         if hasattr(instance, "name"): return str(instance.name)     DNameAttr
         [else:] return str(instance)                                 DStr"""
    fn = _find_method('src/nunavut/lang/_language.py', 'Language', 'default_filter_id_for_target')
    params = [x.arg for x in fn.args.posonlyargs + fn.args.args]
    if len(params) != 2 or fn.args.vararg or fn.args.kwarg or fn.args.kwonlyargs:
        raise FailClosed('default_filter_id_for_target: unexpected signature')
    inst = params[1]
    rules: typing.List[str] = []

    def ret_rule(st) -> str:
        v = st.value if isinstance(st, ast.Return) else None
        if not (isinstance(v, ast.Call) and _is_name(v.func, 'str') and len(v.args) == 1 and not v.keywords):
            raise FailClosed('default_filter_id_for_target: a branch does not `return str(...)`')
        a = v.args[0]
        if _is_name(a, inst):
            return 'DStr'
        if isinstance(a, ast.Attribute) and _is_name(a.value, inst) and a.attr == 'name':
            return 'NAME'
        raise FailClosed('default_filter_id_for_target: str() of something other than instance / instance.name')

    def walk(body):
        for st in body:
            if isinstance(st, ast.If):
                t = st.test
                if not (isinstance(t, ast.Call) and _is_name(t.func, 'hasattr') and len(t.args) == 2 and _is_name(t.args[0], inst)
                        and isinstance(t.args[1], ast.Constant) and t.args[1].value == 'name' and len(st.body) == 1
                        and ret_rule(st.body[0]) == 'NAME'):
                    raise FailClosed('default_filter_id_for_target: condition is not `hasattr(instance, "name")` guarding str(instance.name)')
                rules.append('DNameAttr')
                walk(st.orelse)
            elif isinstance(st, ast.Return):
                r = ret_rule(st)
                if r != 'DStr':
                    raise FailClosed('default_filter_id_for_target: unguarded use of instance.name')
                rules.append('DStr')
                return
            else:
                raise FailClosed('default_filter_id_for_target: statement outside the translated subset (line %d)' % st.lineno)
    walk(_strip_doc(fn.body))
    return rules


def filter_id_steps(ln: str) -> typing.List[str]:
    """Language.filter_id(self, instance, id_type="any") of one target:
         v = self.default_filter_id_for_target(instance)          FDefaultId
         [e = self._token_encoder]
         return (e | self._token_encoder).strop(v, id_type)        FStrop"""
    fn = _find_method('src/nunavut/lang/%s/__init__.py' % ln, 'Language', 'filter_id')
    a = fn.args
    params = [x.arg for x in a.posonlyargs + a.args]
    if len(params) != 3 or a.vararg or a.kwarg or a.kwonlyargs or fn.decorator_list:
        raise FailClosed('%s Language.filter_id: unexpected signature or decorator (memoisation is not modelled here)' % ln)
    if len(a.defaults) != 1 or not (isinstance(a.defaults[0], ast.Constant) and a.defaults[0].value == 'any'):
        raise FailClosed('%s Language.filter_id: default id type is not "any"' % ln)
    _, inst, idt = params
    steps, raw, encs = [], None, set()
    body = _strip_doc(fn.body)
    for st in body[:-1]:
        if not (isinstance(st, ast.Assign) and len(st.targets) == 1 and isinstance(st.targets[0], ast.Name)):
            raise FailClosed('%s Language.filter_id line %d: statement outside the translated subset' % (ln, st.lineno))
        v = st.value
        if (_is_call_attr(v, 'default_filter_id_for_target', 1) and _is_name(v.func.value, 'self') and _is_name(v.args[0], inst)
                and raw is None):
            raw = st.targets[0].id
            steps.append('FDefaultId')
        elif isinstance(v, ast.Attribute) and _is_name(v.value, 'self') and v.attr == '_token_encoder':
            encs.add(st.targets[0].id)
        else:
            raise FailClosed('%s Language.filter_id line %d: statement outside the translated subset' % (ln, st.lineno))
    last = body[-1] if body else None
    c = last.value if isinstance(last, ast.Return) else None
    ok_recv = isinstance(c, ast.Call) and isinstance(c.func, ast.Attribute) and c.func.attr == 'strop' and (
        (isinstance(c.func.value, ast.Name) and c.func.value.id in encs)
        or (isinstance(c.func.value, ast.Attribute) and _is_name(c.func.value.value, 'self') and c.func.value.attr == '_token_encoder'))
    if not (ok_recv and raw is not None and not c.keywords and len(c.args) == 2 and _is_name(c.args[0], raw) and _is_name(c.args[1], idt)):
        raise FailClosed('%s Language.filter_id: does not end in `return self._token_encoder.strop(<default id>, id_type)`' % ln)
    steps.append('FStrop')
    return steps


def cache_key_facts() -> typing.Tuple[typing.List[str], bool, bool]:
    """What takes part in the lru_cache key of TokenEncoder.strop: the parameters of the decorated function, in order
    (functools.lru_cache keys on the call's positional and keyword arguments; Language.filter_id passes token and type
    positionally); whether `self` is compared by identity (neither TokenEncoder nor a base class defines __eq__/__hash__);
    whether an encoder's configuration is frozen after __init__ (no method other than __init__ stores an attribute on self)."""
    cls = _token_encoder_class()
    methods = {f.name: f for f in cls.body if isinstance(f, ast.FunctionDef)}
    fn = methods.get('strop')
    if fn is None:
        raise FailClosed('TokenEncoder.strop not found')
    a = fn.args
    if a.vararg or a.kwarg or a.kwonlyargs:
        raise FailClosed('TokenEncoder.strop: *args/**kwargs/keyword-only parameters in a memoised signature are not modelled')
    params = [x.arg for x in list(a.posonlyargs) + list(a.args)]
    # roles: the first parameter is the receiver; the one the first pipeline step reads is the token; the one that is
    # lower-cased is the type
    body = _strip_doc(fn.body)
    ty_param = body[0].value.func.value.id if (body and isinstance(body[0], ast.Assign) and _is_call_attr(body[0].value, 'lower', 0)
                                               and isinstance(body[0].value.func.value, ast.Name)) else None
    key = []
    for i, nm in enumerate(params):
        if i == 0:
            key.append('KSelf')
        elif nm == ty_param:
            key.append('KType')
        else:
            key.append('KToken')
    by_identity = not cls.bases or all(_is_name(b, 'object') for b in cls.bases)
    by_identity = by_identity and not any(n in methods for n in ('__eq__', '__hash__'))
    by_identity = by_identity and not any(isinstance(st, ast.Assign) and any(_is_name(t, n) for t in st.targets for n in ('__eq__', '__hash__'))
                                          for st in cls.body)
    by_identity = by_identity and not cls.decorator_list      # e.g. @dataclass would synthesise __eq__
    frozen = True
    for name, m in methods.items():
        if name == '__init__':
            continue
        for n in ast.walk(m):
            tgts = []
            if isinstance(n, ast.Assign):
                tgts = n.targets
            elif isinstance(n, (ast.AugAssign, ast.AnnAssign)):
                tgts = [n.target]
            elif isinstance(n, ast.Call) and _is_name(n.func, 'setattr'):
                frozen = False
            for t in tgts:
                for sub in ast.walk(t):
                    if isinstance(sub, ast.Attribute) and isinstance(sub.value, ast.Name) and sub.value.id in ('self', 'cls'):
                        frozen = False
    return key, by_identity, frozen


def lru_maxsize() -> typing.Optional[int]:
    """functools.lru_cache(maxsize=N) on TokenEncoder.strop, read with ast; None when strop is not cached"""
    tree = gen.parse_repo('src/nunavut/lang/_common.py')
    for node in ast.walk(tree):
        if isinstance(node, ast.ClassDef) and node.name == 'TokenEncoder':
            for fn in node.body:
                if isinstance(fn, ast.FunctionDef) and fn.name == 'strop':
                    for d in fn.decorator_list:
                        call = d if isinstance(d, ast.Call) else None
                        f = call.func if call else d
                        nm = f.attr if isinstance(f, ast.Attribute) else getattr(f, 'id', '')
                        if nm == 'lru_cache':
                            if call:
                                for kw in call.keywords:
                                    if kw.arg == 'maxsize' and isinstance(kw.value, ast.Constant) and isinstance(kw.value.value, int):
                                        return kw.value.value
                                if call.args and isinstance(call.args[0], ast.Constant) and isinstance(call.args[0].value, int):
                                    return call.args[0].value
                            return 128
                        if nm == 'cache':
                            raise FailClosed('TokenEncoder.strop uses an unbounded cache (not the modelled lru_cache)')
                    return None
    raise FailClosed('TokenEncoder.strop not found')


# ---------------------------------------------------------------------------------------------------
def _ranges(rs) -> str:
    return '[%s]%%N' % '; '.join('(%d, %d)' % (lo, hi) for lo, hi in rs)


def build_text(doc: dict) -> str:
    parts = [gen.HEADER % SRC_DESC + 'From Verif Require Import Strop.\nOpen Scope N_scope.\n']
    parts.append('(* str.isspace() of Python %s *)\nDefinition py_isspace : ranges :=\n  %s.\n' % (doc['python'], _ranges(doc['isspace'])))
    kw = doc['kwlist']
    if not (isinstance(kw, list) and kw and all(isinstance(w, str) for w in kw)):
        raise FailClosed('keyword.kwlist dump malformed')
    parts.append('(* keyword.kwlist of the interpreter that runs nunavut *)\n' + _str_list('py_kwlist', kw))
    ms = lru_maxsize()
    HANDLER_DEFS.clear()
    key, by_identity, frozen = cache_key_facts()
    parts.append('(* the lru_cache key of TokenEncoder.strop: the parameters of the decorated signature, in order; is `self` compared by\n'
                 '   identity; is the configuration of an encoder frozen after __init__ (all read with ast) *)\n'
                 'Definition strop_cache_key : list kparam := [%s].\n'
                 'Definition strop_self_by_identity : bool := %s.\n'
                 'Definition encoder_attrs_frozen : bool := %s.\n'
                 % ('; '.join(key), 'true' if by_identity else 'false', 'true' if frozen else 'false'))
    parts.append('(* Language.default_filter_id_for_target and Language.filter_id of c, cpp, py, translated (meaning: Gen/Strop.v run_default,\n'
                 '   StropInst.filter_id) *)\nDefinition default_id_rule : list drule := [%s].\n' % '; '.join(default_id_rule())
                 + ''.join('Definition filter_id_steps_%s : list fstep := [%s].\n' % (ln, '; '.join(filter_id_steps(ln))) for ln in LANGS))
    steps = strop_pipeline()
    reverify = any(st.startswith('PReverify') for st in steps)
    full = any(st.startswith('PReverify') and st.endswith(' true') for st in steps)
    parts.append('(* does _reverified apply the encoding rules to the whole token (pattern.search)? *)\n'
                 'Definition strop_full_check : bool := %s.\n' % ('true' if full else 'false'))
    parts.append('(* the statements of TokenEncoder.strop, in order (walker: gen_c09.strop_pipeline; meaning: Strop.run_pipeline) *)\n'
                 'Definition strop_pipeline : list pstep :=\n  [%s].\n' % ';\n   '.join(steps))
    parts.append('(* does TokenEncoder.strop re-verify the token it returns (read with ast)? *)\n'
                 'Definition strop_reverifies : bool := %s.\n' % ('true' if reverify else 'false'))
    # independent oracle for Python's reserved names: keyword.kwlist + dir(builtins) of the interpreter that runs nunavut,
    # computed by the harness itself (not read from nunavut.lang.py)
    kb = doc['py_kw_builtins']
    if not (isinstance(kb, list) and kb and all(isinstance(w, str) for w in kb)):
        raise FailClosed('keyword/builtins dump malformed')
    parts.append('(* sorted(set(keyword.kwlist + dir(builtins))) of the interpreter that runs nunavut *)\n' + _str_list('py_interpreter_reserved', kb))
    parts.append('(* functools.lru_cache on TokenEncoder.strop: %s *)\nDefinition strop_lru_maxsize : option nat := %s.\n'
                 % ('maxsize=%d' % ms if ms is not None else 'absent', 'Some %d%%nat' % ms if ms is not None else 'None'))
    for ln in LANGS:
        _emit_cfg(parts, ln, ln, doc['langs'][ln], reverify, None, full)
        c = doc['langs'][ln]
        types = sorted(set(c['patterns']) | set(c['rules']))
        parts.append('(* identifier types the language configures (keys of the two maps) *)\n' + _str_list('%s_id_types' % ln, types))
    # configuration overrides the correspondence run exercises (tools/checks/c09.py uses the same list): the effective
    # TokenEncoder attributes under each override, as data for the same model
    rows = []
    for k, ov in enumerate(OVERRIDE_CONFIGS):
        odoc = dump_config(ov)
        parts.append('(* ' + '#' * 20 + ' override %d: %s ' % (k, _comment(json.dumps(ov, sort_keys=True))) + '#' * 20 + ' *)')
        for ln in LANGS:
            _emit_cfg(parts, '%s_ov%d' % (ln, k), ln, odoc['langs'][ln], reverify, doc['langs'][ln], full)
        rows.append('(%s)' % ', '.join('cfg_%s_ov%d' % (ln, k) for ln in LANGS))
    hrows = []
    for i, (key, (pre, grp, tmpl)) in enumerate(sorted(HANDLER_DEFS.items())):
        parts.append('(* failure handler %s, translated *)\nDefinition handler%d_pre : re :=\n  %s.\nDefinition handler%d_grp : re :=\n  %s.\n'
                     'Definition handler%d_tmpl : list rpiece := %s.\n' % (_comment(key), i, pre, i, grp, i, tmpl))
        hrows.append('(handler%d_pre, handler%d_grp, handler%d_tmpl)' % (i, i, i))
    parts.append('(* every failure handler a TokenEncoder of c, cpp, py has installed (kind HUnd in the records above) *)\n'
                 'Definition handlers_translated : list (re * re * list rpiece) :=\n  [%s].\n' % ';\n   '.join(hrows))
    # overrides whose stropping affix is outside the identifier alphabet (finding F-STROP-ILLEGAL-AFFIX): data for the model
    # correspondence only -- NOT part of cfgs_ov, whose entries all satisfy chk_sound
    arows = []
    for k, ov in enumerate(AFFIX_OVERRIDES):
        odoc = dump_config(ov)
        parts.append('(* ' + '#' * 20 + ' affix override %d: %s ' % (k, _comment(json.dumps(ov, sort_keys=True))) + '#' * 20 + ' *)')
        for ln in LANGS:
            _emit_cfg(parts, '%s_aff%d' % (ln, k), ln, odoc['langs'][ln], reverify, doc['langs'][ln], full)
        arows.append('(%s)' % ', '.join('cfg_%s_aff%d' % (ln, k) for ln in LANGS))
    parts.append('Definition cfgs_aff : list (strop_cfg * strop_cfg * strop_cfg) :=\n  [%s].\n' % ';\n   '.join(arows))
    parts.append('Definition cfgs_ov : list (strop_cfg * strop_cfg * strop_cfg) :=\n  [%s].\n' % ';\n   '.join(rows))
    return '\n'.join(parts)


AFFIX_OVERRIDES = [{'stropping_suffix': '-'}, {'stropping_suffix': '/'}, {'stropping_suffix': '/../x'}, {'stropping_suffix': '..'},
                   {'stropping_suffix': ' '}, {'stropping_suffix': ''}, {'stropping_suffix': '\u00e9'}, {'stropping_prefix': '-'},
                   {'stropping_prefix': '', 'stropping_suffix': ''}, {'stropping_prefix': '_', 'stropping_suffix': '$x'}]

OVERRIDE_CONFIGS = [
    {'stropping_prefix': '_pre_', 'stropping_suffix': '_post_'},
    {'encoding_prefix': '_u'},
    {'reserved_identifiers': ['foo', 'a', '_a', 'zX0031']},
    {'reserved_identifiers': ['foo', 'if', 'zX0031', 'a_']},
    {'whitespace_encoding_char': 'W'},
    {'reserved_token_patterns_by_type': {'all': ['^x[0-9]', '^\\d{1}', '^_[A-Z]'], 'macro': ['^[A-Z]+$']},
     'token_encoding_rules_by_identifier_type': {'all': ['\\s+', '[^a-zA-Z0-9_]+']}},
]


def _emit_cfg(parts: typing.List[str], name: str, ln: str, c: dict, reverify: bool, base: typing.Optional[dict], full: bool = False) -> None:
    """definitions for one effective configuration; with `base`, fields equal to the base configuration reuse its definitions"""
    if not c['enable_stropping']:
        raise FailClosed('%s: enable_stropping is off by default (the filters would bypass the encoder)' % name)
    res = c['reserved']
    if not all(isinstance(w, str) for w in res):
        raise FailClosed('%s: reserved_identifiers contains a non-string entry %r' % (name, [w for w in res if not isinstance(w, str)][:1]))
    for k in ('prefix', 'suffix', 'enc_prefix'):
        if not isinstance(c[k], str):
            raise FailClosed('%s: %s is not a string: %r' % (name, k, c[k]))
    if not (c['ws_char'] is None or isinstance(c['ws_char'], str)):
        raise FailClosed('%s: whitespace_encoding_char is not a string: %r' % (name, c['ws_char']))
    if not isinstance(c['collapse'], bool):
        raise FailClosed('%s: collapse flag is not a bool' % name)
    defs: typing.List[str] = []
    parts.append('(* ' + '=' * 30 + ' %s (%s) ' % (name, c['language_class']) + '=' * 30 + ' *)')
    if base is not None and res == base['reserved']:
        res_name = '%s_reserved' % ln
    else:
        res_name = '%s_reserved' % name
        parts.append(_str_list(res_name, res))
    pm = 'sc_patterns cfg_%s' % ln if base is not None and c['patterns'] == base['patterns'] else _pmap(name, 'pat', c['patterns'], False, defs)
    rm = 'sc_rules cfg_%s' % ln if base is not None and c['rules'] == base['rules'] else _pmap(name, 'rule', c['rules'], True, defs)
    parts.extend(defs)
    hs = recognise_handler(c['strop_handler'])
    he = recognise_handler(c['enc_handler'])
    ws = 'None' if c['ws_char'] is None else 'Some %s' % _cstr(c['ws_char'])
    parts.append(
        'Definition cfg_%s : strop_cfg := {|\n'
        '  sc_reserved := %s;\n'
        '  sc_patterns :=\n    %s;\n'
        '  sc_rules :=\n    %s;\n'
        '  sc_prefix := %s; (* %s *)\n'
        '  sc_suffix := %s; (* %s *)\n'
        '  sc_enc_prefix := %s; (* %s *)\n'
        '  sc_ws_char := %s;\n'
        '  sc_collapse := %s;\n'
        '  sc_strop_handler := %s; (* %s *)\n'
        '  sc_enc_handler := %s; (* %s *)\n'
        '  sc_reverify := %s;\n'
        '  sc_full_check := %s\n|}.\n'
        % (name, res_name, pm, rm, _cstr(c['prefix']), _comment(repr(c['prefix'])), _cstr(c['suffix']), _comment(repr(c['suffix'])),
           _cstr(c['enc_prefix']), _comment(repr(c['enc_prefix'])), ws, 'true' if c['collapse'] else 'false',
           hs, _comment(str((c['strop_handler'] or {}).get('qualname'))), he, _comment(str((c['enc_handler'] or {}).get('qualname'))),
           'true' if reverify else 'false', 'true' if full else 'false'))


def gen_strop() -> typing.Tuple[bool, str]:
    head = gen.HEADER % SRC_DESC
    try:
        text = build_text(dump_config())
    except (FailClosed, KeyError, TypeError, ValueError, OSError, SyntaxError) as ex:
        msg = str(ex) if isinstance(ex, FailClosed) else repr(ex)
        gen.write_if_changed(OUT, head + '(* translator failed closed: %s *)\n' % _comment(msg))
        return False, 'T1 (stropping configuration) failed closed: %s' % msg
    gen.write_if_changed(OUT, text)
    return True, 'ok'


# ---------------------------------------------------------------------------------------------------
# shape pin of the methods around the pipeline that are hand-modelled in Gen/Strop.v (one shape each)
# ---------------------------------------------------------------------------------------------------
PINNED = [('src/nunavut/lang/_common.py', 'TokenEncoder.__init__'),
          ('src/nunavut/lang/_common.py', 'TokenEncoder._encoding_filter'),
          ('src/nunavut/lang/_common.py', 'TokenEncoder._matches'),
          ('src/nunavut/lang/_common.py', 'TokenEncoder._encode'),
          ('src/nunavut/lang/_common.py', 'TokenEncoder._strop_by_keyword'),
          ('src/nunavut/lang/_common.py', 'TokenEncoder._strop_by_pattern'),
          ('src/nunavut/lang/_common.py', 'TokenEncoder._do_for_type_and_all'),
          ('src/nunavut/lang/_common.py', 'TokenEncoder.encode_character'),
          ('src/nunavut/lang/_common.py', 'TokenEncoder._get_map_of_type_to_lists_of_patterns'),
          ('src/nunavut/lang/_language.py', 'Language.filter_short_reference_name'),
          ('src/nunavut/lang/c/__init__.py', 'Language._token_encoder'),
          ('src/nunavut/lang/cpp/__init__.py', 'Language._token_encoder'),
          ('src/nunavut/lang/py/__init__.py', 'Language._token_encoder')]


def pin_strop_methods() -> typing.Tuple[bool, str]:
    from . import shape_pin
    return shape_pin.check_pin('strop_methods', PINNED)


GENERATORS = {'strop': gen_strop, 'pin_strop_methods': pin_strop_methods}
