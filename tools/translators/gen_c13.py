"""C13 translators -> coq/theories/Generated/Gen_C13.v

T2 (code): `DefaultValue.assign_to_if_not_default` and the body of `deep_update`
(src/nunavut/_utilities.py) are translated statement by statement from the Python `ast` into
Gallina over the dict primitives of Gen/ConfigBase.v.  Supported subset (anything else fails
closed): one mutable dict variable (the first parameter) threaded through the statements;
`target[key] = e`, `target = e`, `return e`, `if`/`else` on a pure test, `for k, v in
x.items():` as a fold over the items, a call statement to an already translated function that
mutates its first argument, and `try: if c: return e / except KeyError: pass` where `c` and
`e` may read `target[key]` (KeyError = None in an option monad, `and`/`or` short-circuit).
The recursive call of deep_update is translated as a call of a function parameter `rec`
(open recursion); Gen/ConfigThm.v proves that the structurally recursive hand model
Config.du satisfies the translated equation.

T1 (data): the `defaults` groups and `options` of nunavut.lang.cpp in properties.yaml, the
option group documented for the C++ standard shorthands in docs/languages.rst, the class
constants Language.WKCV_*, and the way ArgparseRunner._create_language_context turns CLI
arguments into builder calls (which values are wrapped in DefaultValue).
"""
from __future__ import annotations

import ast
import os
import re
import typing

from . import gen
from .pyfun_tr import Unsupported, find_function

OUT = os.path.join(gen.GEN_DIR, 'Gen_C13.v')
HEAD = (gen.HEADER % 'src/nunavut/_utilities.py, lang/properties.yaml, lang/_language.py, lang/cpp/__init__.py, lang/__init__.py, cli/runners.py, docs/languages.rst'
        + 'From Verif Require Import ConfigBase.\nOpen Scope N_scope.\n\n')

PRELUDE = '''(* KeyError monad used inside `try: ... except KeyError: pass` *)
Definition kbind {A B : Type} (x : option A) (f : A -> option B) : option B :=
  match x with Some a => f a | None => None end.
'''


def coq_str(s: str) -> str:
    note = (' (*%s*)' % s) if re.fullmatch(r'[\w+.<>:-]+', s) else ''
    return '([%s]%%N : list N)%s' % ('; '.join(str(ord(c)) for c in s), note)


# ---------------------------------------------------------------------------------------------
# T2: imperative single-dict subset
# ---------------------------------------------------------------------------------------------

class DictTr:
    """env: python name -> (gallina term, type) with type in {'cv', 'key'}.  `mut` is the python name of the
    mutable dict variable; its current Gallina name is env[mut][0]."""

    def __init__(self, fname: str, mut: str, known_mutators: typing.Dict[str, str], rec_name: typing.Optional[str]):
        self.fname = fname
        self.mut = mut
        self.known_mutators = known_mutators   # unparsed callee -> gallina function returning (target', result)
        self.rec_name = rec_name
        self.n = 0
        self.copies: typing.List[str] = []   # which copy functions the translated body calls

    def fresh(self, base: str) -> str:
        self.n += 1
        return '%s_%d' % (base, self.n)

    # ---- pure expressions (cannot raise) -------------------------------------------------------
    def pexpr(self, e: ast.expr, env) -> typing.Tuple[str, str]:
        if isinstance(e, ast.Name):
            if e.id not in env:
                raise Unsupported('free name %s' % e.id)
            return env[e.id]
        if isinstance(e, ast.Dict) and not e.keys:
            return '(Node [])', 'cv'
        if isinstance(e, ast.Call):
            f = ast.unparse(e.func)
            if f == 'isinstance' and len(e.args) == 2:
                v, tv = self.pexpr(e.args[0], env)
                return self._isinstance(v, tv, e.args[1]), 'bool'
            if f == 'cast' and len(e.args) == 2:
                return self.pexpr(e.args[1], env)
            if f == 'copy.deepcopy' and len(e.args) == 1 and not e.keywords:     # (the shallow copy.copy of F-CFG-ALIAS is rejected)
                v, tv = self.pexpr(e.args[0], env)
                self._want(tv, 'cv')
                self.copies.append(f)
                return '(cv_deepcopy %s)' % v, 'cv'
            if self.rec_name is not None and f == self.fname and len(e.args) == 2 and not e.keywords:
                a, ta = self.pexpr(e.args[0], env)
                b, tb = self.pexpr(e.args[1], env)
                self._want(ta, 'cv')
                self._want(tb, 'cv')
                return '(%s %s %s)' % (self.rec_name, a, b), 'cv'
            if isinstance(e.func, ast.Attribute) and e.func.attr == 'get' and len(e.args) == 2 and not e.keywords:
                d, td = self.pexpr(e.func.value, env)
                k, tk = self.pexpr(e.args[0], env)
                dv, tdv = self.pexpr(e.args[1], env)
                self._want(td, 'cv')
                self._want(tk, 'key')
                self._want(tdv, 'cv')
                return '(cv_get_or %s %s %s)' % (d, k, dv), 'cv'
            raise Unsupported('call %s' % f)
        if isinstance(e, ast.IfExp):
            c, tc = self.pexpr(e.test, env)
            a, ta = self.pexpr(e.body, env)
            b, tb = self.pexpr(e.orelse, env)
            self._want(tc, 'bool')
            self._want(tb, ta)
            return '(if %s then %s else %s)' % (c, a, b), ta
        if isinstance(e, ast.UnaryOp) and isinstance(e.op, ast.Not):
            v, tv = self.pexpr(e.operand, env)
            self._want(tv, 'bool')
            return '(negb %s)' % v, 'bool'
        if isinstance(e, ast.BoolOp):
            parts = [self.pexpr(v, env) for v in e.values]
            for _, t in parts:
                self._want(t, 'bool')
            fn = 'andb' if isinstance(e.op, ast.And) else 'orb'
            r = parts[-1][0]
            for p, _ in reversed(parts[:-1]):
                r = '(%s %s %s)' % (fn, p, r)
            return r, 'bool'
        raise Unsupported('pure expression %s' % ast.unparse(e))

    @staticmethod
    def _want(t: str, want: str) -> None:
        if t != want:
            raise Unsupported('type %s where %s expected' % (t, want))

    def _isinstance(self, v: str, tv: str, cls: ast.expr) -> str:
        self._want(tv, 'cv')
        c = ast.unparse(cls)
        if c == 'DefaultValue':
            return '(is_default %s)' % v
        if c == 'collections.abc.Mapping':
            return '(is_mapping %s)' % v
        raise Unsupported('isinstance against %s' % c)

    # ---- expressions that may raise KeyError: Gallina type option T -------------------------------
    def oexpr(self, e: ast.expr, env) -> typing.Tuple[str, str]:
        if isinstance(e, ast.Subscript) and isinstance(e.ctx, ast.Load):
            d, td = self.pexpr(e.value, env)
            k, tk = self.pexpr(e.slice, env)
            self._want(td, 'cv')
            self._want(tk, 'key')
            return '(cv_getitem %s %s)' % (d, k), 'cv'
        if isinstance(e, ast.Call) and ast.unparse(e.func) == 'isinstance' and len(e.args) == 2:
            v, tv = self.oexpr(e.args[0], env)
            x = self.fresh('x')
            return '(kbind %s (fun %s => Some %s))' % (v, x, self._isinstance(x, tv, e.args[1])), 'bool'
        if isinstance(e, ast.UnaryOp) and isinstance(e.op, ast.Not):
            v, tv = self.oexpr(e.operand, env)
            self._want(tv, 'bool')
            x = self.fresh('x')
            return '(kbind %s (fun %s => Some (negb %s)))' % (v, x, x), 'bool'
        if isinstance(e, ast.BoolOp):
            parts = [self.oexpr(v, env) for v in e.values]
            for _, t in parts:
                self._want(t, 'bool')
            r = parts[-1][0]
            for p, _ in reversed(parts[:-1]):
                x = self.fresh('x')
                if isinstance(e.op, ast.And):   # short circuit: the right operand is not evaluated when the left is False
                    r = '(kbind %s (fun %s => if %s then %s else Some false))' % (p, x, x, r)
                else:
                    r = '(kbind %s (fun %s => if %s then Some true else %s))' % (p, x, x, r)
            return r, 'bool'
        v, tv = self.pexpr(e, env)
        return '(Some %s)' % v, tv

    # ---- statements --------------------------------------------------------------------------------
    # block(stmts, env, kont): Gallina term of the function's result type.  `kont(env)` is what happens when
    # control falls off the end of `stmts`; `ret(value_term, env)` builds the function result.
    def block(self, stmts: typing.List[ast.stmt], env, kont, ret) -> str:
        if not stmts:
            return kont(env)
        s, rest = stmts[0], list(stmts[1:])
        if isinstance(s, ast.Expr) and isinstance(s.value, ast.Constant) and isinstance(s.value.value, str):
            return self.block(rest, env, kont, ret)
        if isinstance(s, ast.Pass):
            return self.block(rest, env, kont, ret)
        if isinstance(s, ast.Return):
            if s.value is None:
                raise Unsupported('bare return')
            v, tv = self.pexpr(s.value, env)
            self._want(tv, 'cv')
            return ret(v, env)
        if isinstance(s, ast.Assign) and len(s.targets) == 1:
            t = s.targets[0]
            if isinstance(t, ast.Name) and t.id == self.mut:
                v, tv = self.pexpr(s.value, env)
                self._want(tv, 'cv')
                return self._rebind(v, env, lambda env2: self.block(rest, env2, kont, ret))
            if isinstance(t, ast.Subscript) and isinstance(t.value, ast.Name) and t.value.id == self.mut:
                k, tk = self.pexpr(t.slice, env)
                self._want(tk, 'key')
                v, tv = self.pexpr(s.value, env)
                self._want(tv, 'cv')
                return self._rebind('(cv_setitem %s %s %s)' % (env[self.mut][0], k, v), env,
                                    lambda env2: self.block(rest, env2, kont, ret))
            raise Unsupported('assignment target %s' % ast.unparse(t))
        if isinstance(s, ast.Expr) and isinstance(s.value, ast.Call):
            c = s.value
            f = ast.unparse(c.func)
            if f in self.known_mutators and c.args and isinstance(c.args[0], ast.Name) and c.args[0].id == self.mut and not c.keywords:
                args = []
                for a in c.args:
                    v, _ = self.pexpr(a, env)
                    args.append(v)
                return self._rebind('(fst (%s %s))' % (self.known_mutators[f], ' '.join(args)), env,
                                    lambda env2: self.block(rest, env2, kont, ret))
            raise Unsupported('call statement %s' % f)
        if isinstance(s, ast.If):
            c, tc = self.pexpr(s.test, env)
            self._want(tc, 'bool')
            return ('(if %s\n  then %s\n  else %s)'
                    % (c, self.block(list(s.body) + rest, env, kont, ret), self.block(list(s.orelse) + rest, env, kont, ret)))
        if isinstance(s, ast.For):
            if s.orelse:
                raise Unsupported('for/else')
            it = s.iter
            if not (isinstance(it, ast.Call) and isinstance(it.func, ast.Attribute) and it.func.attr == 'items' and not it.args
                    and isinstance(s.target, ast.Tuple) and len(s.target.elts) == 2
                    and all(isinstance(x, ast.Name) for x in s.target.elts)):
                raise Unsupported('for loop shape')
            src, ts = self.pexpr(it.func.value, env)
            self._want(ts, 'cv')
            if isinstance(it.func.value, ast.Name) and it.func.value.id == self.mut:
                raise Unsupported('iteration over the mutated dict')
            kn, vn = s.target.elts[0].id, s.target.elts[1].id  # type: ignore
            acc = self.fresh(self.mut)
            kv = self.fresh('kv')
            env_b = dict(env)
            env_b[self.mut] = (acc, 'cv')
            env_b[kn] = ('(fst %s)' % kv, 'key')
            env_b[vn] = ('(snd %s)' % kv, 'cv')

            def no_ret(_v, _env):
                raise Unsupported('return inside a for loop')
            body = self.block(list(s.body), env_b, lambda e2: e2[self.mut][0], no_ret)
            folded = '(fold_left (fun %s %s =>\n  %s) (cv_items %s) %s)' % (acc, kv, body, src, env[self.mut][0])
            return self._rebind(folded, env, lambda env2: self.block(rest, env2, kont, ret))
        if isinstance(s, ast.Try):
            if s.orelse or s.finalbody or len(s.handlers) != 1:
                raise Unsupported('try shape')
            h = s.handlers[0]
            if not (isinstance(h.type, ast.Name) and h.type.id == 'KeyError' and h.name is None
                    and all(isinstance(x, ast.Pass) for x in h.body)):
                raise Unsupported('except clause')
            # body: only `if c: return e` statements (no state change before a possible KeyError)
            k_rest = self.block(rest, env, kont, ret)
            rv = self.fresh('rest')
            term = rv
            for st in reversed(s.body):
                if not (isinstance(st, ast.If) and not st.orelse and len(st.body) == 1 and isinstance(st.body[0], ast.Return)
                        and st.body[0].value is not None):
                    raise Unsupported('statement inside try: %s' % type(st).__name__)
                c, tc = self.oexpr(st.test, env)
                self._want(tc, 'bool')
                r, tr = self.oexpr(st.body[0].value, env)
                self._want(tr, 'cv')
                x = self.fresh('r')
                # KeyError anywhere leaves the try through `except KeyError: pass`, i.e. continues with the rest
                term = ('(match %s with\n  | Some true => match %s with Some %s => %s | None => %s end\n  | Some false => %s\n  | None => %s\n  end)'
                        % (c, r, x, ret(x, env), rv, term, rv))
            return '(let %s := %s in\n  %s)' % (rv, k_rest, term)
        raise Unsupported('statement %s' % type(s).__name__)

    def _rebind(self, term: str, env, k) -> str:
        nm = self.fresh(self.mut)
        env2 = dict(env)
        env2[self.mut] = (nm, 'cv')
        return '(let %s := %s in\n  %s)' % (nm, term, k(env2))


def _params(fn: ast.FunctionDef, drop_first: bool) -> typing.List[str]:
    if fn.args.vararg or fn.args.kwarg or fn.args.kwonlyargs or fn.args.defaults:
        raise Unsupported('parameter list of %s' % fn.name)
    names = [a.arg for a in fn.args.args]
    return names[1:] if drop_first else names


def translate_assign(tree: ast.Module) -> str:
    fn = find_function(tree, 'DefaultValue', 'assign_to_if_not_default')
    if [ast.unparse(d) for d in fn.decorator_list] != ['classmethod']:
        raise Unsupported('decorators of assign_to_if_not_default')
    ps = _params(fn, True)
    if ps != ['target', 'key', 'value']:
        raise Unsupported('parameters of assign_to_if_not_default: %s' % ps)
    tr = DictTr('assign_to_if_not_default', 'target', {}, None)
    env = {'target': ('target', 'cv'), 'key': ('key', 'key'), 'value': ('value', 'cv')}

    def fall(_env):
        raise Unsupported('control reaches the end of assign_to_if_not_default')
    body = tr.block(list(fn.body), env, fall, lambda v, e: '(%s, %s)' % (e['target'][0], v))
    return ('(* DefaultValue.assign_to_if_not_default: (target dict after the call, returned value) *)\n'
            'Definition DefaultValue_assign_to_if_not_default (target : cv) (key : list N) (value : cv) : cv * cv :=\n  %s.' % body)


def translate_deep_update(tree: ast.Module) -> str:
    fn = find_function(tree, None, 'deep_update')
    if fn.decorator_list:
        raise Unsupported('decorators of deep_update')
    ps = _params(fn, False)
    if ps != ['target', 'source']:
        raise Unsupported('parameters of deep_update: %s' % ps)
    tr = DictTr('deep_update', 'target', {'DefaultValue.assign_to_if_not_default': 'DefaultValue_assign_to_if_not_default'}, 'rec')
    env = {'target': ('target', 'cv'), 'source': ('source', 'cv')}

    def fall(_env):
        raise Unsupported('control reaches the end of deep_update')
    body = tr.block(list(fn.body), env, fall, lambda v, e: v)
    else_branch = [ast.unparse(st) for st in ast.walk(fn) if isinstance(st, ast.Assign) and 'copy.deepcopy' in ast.unparse(st)]
    rebuilt = ['target = deep_update({}, copy.deepcopy(source)) if isinstance(source, collections.abc.Mapping) else copy.deepcopy(source)']
    if else_branch != rebuilt:       # (the plain deepcopy that kept shared sub-maps shared, F-CFG-ALIASMAP, is rejected)
        raise Unsupported('deep_update copies the source in an unknown way: %s' % else_branch)
    return ('(* deep_update with its recursive call abstracted as `rec` (open recursion) *)\n'
            'Definition deep_update_step (rec : cv -> cv -> cv) (target source : cv) : cv :=\n  %s.\n\n'
            '(* how a source mapping that replaces a non-mapping target value is copied: copy.deepcopy (true) or the shallow\n'
            '   copy.copy (false).  Value-wise both are the identity; the object-identity models of ConfigAlias.v take this flag. *)\n'
            'Definition deep_update_copies_deeply : bool := %s.\n\n'
            '(* is the deep copy rebuilt key by key (`deep_update({}, copy.deepcopy(source))`), so that sub-maps that are ONE object inside the\n'
            '   source (YAML anchors, one dict under two keys) become distinct objects in the target?  (F-CFG-ALIASMAP, fixed) *)\n'
            'Definition deep_update_rebuilds_copy : bool := %s.'
            % (body, 'true', 'true' if else_branch == rebuilt else 'false'))


# ---------------------------------------------------------------------------------------------
# T1: data
# ---------------------------------------------------------------------------------------------

def coq_atom(v) -> str:
    if v is None:
        return 'ANone'
    if isinstance(v, bool):
        return '(ABool %s)' % ('true' if v else 'false')
    if isinstance(v, int):
        return '(AInt (%d)%%Z)' % v
    if isinstance(v, str):
        return '(AStr %s)' % coq_str(v)
    raise Unsupported('option value %r is not None/bool/int/str' % (v,))


def coq_flat_dict(d: dict) -> str:
    items = []
    for k, v in d.items():
        if not isinstance(k, str):
            raise Unsupported('non-string key %r' % (k,))
        items.append('(%s, Leaf false %s)' % (coq_str(k), coq_atom(v)))
    return '[%s]' % ';\n     '.join(items)


def load_properties() -> dict:
    import yaml  # data only; the working tree's file, not an imported nunavut
    with open(os.path.join(gen.REPO, 'src/nunavut/lang/properties.yaml'), encoding='utf-8') as f:
        return yaml.safe_load(f)


def documented_shorthand_groups() -> typing.Dict[str, typing.Dict[str, typing.Any]]:
    """docs/languages.rst: `<name>.yaml` headings followed by a yaml code block under nunavut.lang.cpp/options"""
    import yaml
    text = gen.read_repo('docs/languages.rst')
    if not re.search(r'-std=c\+\+17-pmr or -std=cetl\+\+14-17 as short-hand', text):
        raise Unsupported('docs/languages.rst no longer documents the -std shorthands in the known form')
    out = {}
    for m in re.finditer(r'^(\S+)\.yaml\n"+\n\n\.\. code-block ?:: yaml\n\n((?:    .*\n|\n)+)', text, flags=re.M):
        doc = yaml.safe_load(m.group(2))
        try:
            out[m.group(1)] = dict(doc['nunavut.lang.cpp']['options'])
        except (KeyError, TypeError) as ex:
            raise Unsupported('documented shorthand %s has no nunavut.lang.cpp/options: %r' % (m.group(1), ex))
    if not out:
        raise Unsupported('no documented shorthand groups found in docs/languages.rst')
    return out


def wkcv_constants() -> typing.Dict[str, str]:
    tree = gen.parse_repo('src/nunavut/lang/_language.py')
    out = {}
    for n in tree.body:
        if isinstance(n, ast.ClassDef) and n.name == 'Language':
            for s in n.body:
                if (isinstance(s, ast.Assign) and len(s.targets) == 1 and isinstance(s.targets[0], ast.Name)
                        and s.targets[0].id.startswith('WKCV_') and isinstance(s.value, ast.Constant) and isinstance(s.value.value, str)):
                    out[s.targets[0].id] = s.value.value
    if 'WKCV_LANGUAGE_OPTIONS' not in out:
        raise Unsupported('Language.WKCV_LANGUAGE_OPTIONS not found')
    return out


def parser_table() -> typing.List[dict]:
    """every add_argument call of cli/__init__.py: option strings, dest, action, nargs, default (constants only; a default that is
    not a constant fails closed).  A dest defined by more than one call is dropped (ambiguous)."""
    tree = gen.parse_repo('src/nunavut/cli/__init__.py')
    rows: typing.Dict[str, typing.Optional[dict]] = {}
    for c in ast.walk(tree):
        if not (isinstance(c, ast.Call) and isinstance(c.func, ast.Attribute) and c.func.attr == 'add_argument'):
            continue
        flags = [a.value for a in c.args if isinstance(a, ast.Constant) and isinstance(a.value, str)]
        if len(flags) != len(c.args) or not flags:
            raise Unsupported('add_argument with non-constant option strings')
        kw = {k.arg: k.value for k in c.keywords}
        if 'dest' in kw:
            if not isinstance(kw['dest'], ast.Constant):
                raise Unsupported('non-constant dest')
            dest = kw['dest'].value
        else:
            longs = [f for f in flags if f.startswith('--')]
            dest = (longs[0] if longs else flags[0]).lstrip('-').replace('-', '_')

        def const(name):
            if name not in kw:
                return None
            if not isinstance(kw[name], ast.Constant):
                return ('expr', ast.unparse(kw[name]))       # rejected below if a dest the runner reads is concerned
            return kw[name].value
        row = {'flags': flags, 'dest': dest, 'action': const('action'), 'nargs': const('nargs') if 'nargs' in kw else None,
               'default': const('default')}
        rows[dest] = None if dest in rows else row
    return [r for r in rows.values() if r is not None]


def translate_cli(wk: typing.Dict[str, str]) -> str:
    """ArgparseRunner._create_language_context -> (a) the language_options dict as a function of the parsed
    arguments (`arg name` = Some atom when the argparse attribute is not None / a store_true flag is set),
    (b) the sequence of builder calls."""
    tree = gen.parse_repo('src/nunavut/cli/runners.py')
    fn = find_function(tree, 'ArgparseRunner', '_create_language_context')
    opts: typing.List[str] = []       # Gallina statements building language_options
    sources: typing.List[typing.Tuple[str, str]] = []   # (option key, argparse dest)
    used: typing.List[str] = []      # every argparse dest the function reads
    calls: typing.List[str] = []
    seen_builder = False
    cfg_seen = False

    def arg_of(e: ast.expr) -> str:
        if (isinstance(e, ast.Attribute) and isinstance(e.value, ast.Attribute) and e.value.attr == '_args'
                and isinstance(e.value.value, ast.Name) and e.value.value.id == 'self'):
            if e.attr not in used:
                used.append(e.attr)
            return e.attr
        raise Unsupported('not an argparse attribute: %s' % ast.unparse(e))

    def opt_key(t: ast.expr) -> str:
        if (isinstance(t, ast.Subscript) and isinstance(t.value, ast.Name) and t.value.id == 'language_options'
                and isinstance(t.slice, ast.Constant) and isinstance(t.slice.value, str)):
            return t.slice.value
        raise Unsupported('assignment target %s' % ast.unparse(t))

    def const_key(e: ast.expr) -> str:
        u = ast.unparse(e)
        if u.startswith('Language.WKCV_') and u[len('Language.'):] in wk:
            return wk[u[len('Language.'):]]
        if isinstance(e, ast.Constant) and isinstance(e.value, str):
            return e.value
        raise Unsupported('override key %s' % u)

    for s in fn.body:
        if isinstance(s, ast.Expr) and isinstance(s.value, ast.Constant):
            continue
        u = ast.unparse(s)
        if isinstance(s, ast.Assign) and u == 'language_options = {}':
            continue
        if isinstance(s, ast.Assign) and len(s.targets) == 1 and isinstance(s.targets[0], ast.Subscript):
            k = opt_key(s.targets[0])
            v = s.value
            # True if self._args.X else DefaultValue(False)
            if (isinstance(v, ast.IfExp) and isinstance(v.body, ast.Constant) and v.body.value is True
                    and ast.unparse(v.orelse) == 'DefaultValue(False)'):
                a = arg_of(v.test)
                sources.append((k, a))
                opts.append('let lo := dset %s (if cli_truthy (arg %s) then Leaf false (ABool true) else Leaf true (ABool false)) lo in'
                            % (coq_str(k), coq_str(a)))
                continue
            raise Unsupported('language option value %s' % ast.unparse(v))
        if isinstance(s, ast.If) and not s.orelse and len(s.body) == 1 and isinstance(s.body[0], ast.Assign) \
                and isinstance(s.body[0].targets[0], ast.Subscript) and ast.unparse(s.body[0].targets[0].value) == 'language_options':
            t = s.test
            if not (isinstance(t, ast.Compare) and len(t.ops) == 1 and isinstance(t.ops[0], ast.IsNot)
                    and isinstance(t.comparators[0], ast.Constant) and t.comparators[0].value is None):
                raise Unsupported('condition %s' % ast.unparse(t))
            a = arg_of(t.left)
            k = opt_key(s.body[0].targets[0])
            if arg_of(s.body[0].value) != a:
                raise Unsupported('value of %s' % k)
            sources.append((k, a))
            opts.append('let lo := match arg %s with Some a => dset %s (Leaf false a) lo | None => lo end in' % (coq_str(a), coq_str(k)))
            continue
        if isinstance(s, ast.If) and 'additional_config_files' in u:
            if u != ('if self._args.configuration is None:\n    additional_config_files = []\n'
                     'elif isinstance(self._args.configuration, pathlib.Path):\n    additional_config_files = [self._args.configuration]\n'
                     'else:\n    additional_config_files = self._args.configuration'):
                raise Unsupported('the configuration files are no longer passed on in command-line order')
            cfg_seen = True
            continue
        if u == 'target_language_name = self._args.target_language':
            continue
        if isinstance(s, ast.AnnAssign) and isinstance(s.target, ast.Name) and s.target.id == 'builder':
            if not ast.unparse(s.value).startswith('LanguageContextBuilder('):
                raise Unsupported('builder construction')
            seen_builder = True
            continue
        if isinstance(s, ast.Expr) and isinstance(s.value, ast.Call) and isinstance(s.value.func, ast.Attribute) \
                and isinstance(s.value.func.value, ast.Name) and s.value.func.value.id == 'builder':
            m = s.value.func.attr
            a = s.value.args
            if m == 'set_target_language' and ast.unparse(a[0]) == 'target_language_name':
                calls.append('CliSetLanguage')
            elif m == 'add_config_files' and ast.unparse(a[0]) == '*additional_config_files':
                calls.append('CliAddFiles')
            elif m == 'set_target_language_extension' and len(a) == 1:
                calls.append('CliOverrideArg %s %s' % (coq_str(wk['WKCV_DEFINITION_FILE_EXTENSION']), coq_str(arg_of(a[0]))))
            elif m == 'set_target_language_configuration_override' and len(a) == 2:
                k = const_key(a[0])
                if ast.unparse(a[1]) == 'language_options':
                    calls.append('CliOverrideOptions %s' % coq_str(k))
                else:
                    calls.append('CliOverrideArg %s %s' % (coq_str(k), coq_str(arg_of(a[1]))))
            else:
                raise Unsupported('builder call %s' % u)
            continue
        if isinstance(s, ast.Return) and ast.unparse(s.value) == 'builder.create()':
            calls.append('CliCreate')
            continue
        raise Unsupported('statement in _create_language_context: %s' % u.splitlines()[0])
    if not (seen_builder and cfg_seen and calls and calls[-1] == 'CliCreate'):
        raise Unsupported('_create_language_context shape')
    if 'target_language' not in used:
        used.append('target_language')
    table = {r['dest']: r for r in parser_table()}
    defaults = []
    for d in used:
        if d not in table:
            raise Unsupported('argparse attribute %s read by _create_language_context is not defined by exactly one add_argument call' % d)
        r = table[d]
        if r['action'] not in (None, 'store', 'store_true') or r['nargs'] is not None or isinstance(r['default'], tuple):
            raise Unsupported('argparse action/nargs/default of %s is outside the supported forms' % d)
        dv = False if (r['action'] == 'store_true' and r['default'] is None) else r['default']
        if dv is not None:
            defaults.append('(%s, %s)' % (coq_str(d), coq_atom(dv)))
    table_text = ('(* cli/__init__.py: what the parser stores for an option that is NOT given on the command line (dest -> default);\n'
                  '   a dest that is absent here defaults to None.  Every argparse attribute _create_language_context reads is covered. *)\n'
                  'Definition cli_arg_dests : list (list N) := [%s].\n'
                  'Definition cli_arg_defaults : list (list N * atom) := [%s].\n\n'
                  '(* the parsed Namespace as a function of what was literally given on the command line *)\n'
                  'Definition cli_args (given : list N -> option atom) (dest : list N) : option atom :=\n'
                  '  match given dest with Some a => Some a | None => dget dest cli_arg_defaults end.\n\n'
                  '(* which argparse dest feeds which language option *)\n'
                  'Definition cli_option_sources : list (list N * list N) := [%s].\n\n'
                  % ('; '.join(coq_str(d) for d in used), '; '.join(defaults),
                     '; '.join('(%s, %s)' % (coq_str(k), coq_str(a)) for k, a in sources)))
    return (table_text + '(* ArgparseRunner._create_language_context *)\n'
            'Definition cli_truthy (a : option atom) : bool :=\n'
            '  match a with Some (ABool b) => b | Some ANone => false | Some _ => true | None => false end.\n\n'
            'Definition cli_language_options (arg : list N -> option atom) : list (list N * cv) :=\n'
            '  let lo : list (list N * cv) := [] in\n  %s\n  lo.\n\n'
            'Inductive cli_call :=\n| CliSetLanguage\n| CliAddFiles\n| CliOverrideArg (key argname : list N)\n'
            '| CliOverrideOptions (key : list N)\n| CliCreate.\n\n'
            'Definition cli_calls : list cli_call :=\n  [%s].' % ('\n  '.join(opts), ';\n   '.join(calls)))



# ---------------------------------------------------------------------------------------------
# T2 (shape-pinned): cpp Language._validate_language_options
# ---------------------------------------------------------------------------------------------

def translate_cpp_validate() -> str:
    """The function is matched statement by statement against the five shapes it is made of (the option keys and the
    enum values are read from the source); any other statement, order or condition fails closed."""
    tree = gen.parse_repo('src/nunavut/lang/cpp/__init__.py')
    fn = find_function(tree, 'Language', '_validate_language_options')
    if _params(fn, True) != ['defaults', 'options'] or fn.decorator_list:
        raise Unsupported('signature of cpp _validate_language_options')
    body = [st for st in fn.body if not (isinstance(st, ast.Expr) and isinstance(st.value, ast.Constant))]
    if len(body) != 5:
        raise Unsupported('cpp _validate_language_options has %d statements, 5 expected' % len(body))

    def try_fetch(st: ast.stmt, rhs_re: str) -> typing.Tuple[str, str]:
        if not (isinstance(st, ast.Try) and len(st.body) == 1 and isinstance(st.body[0], ast.Assign) and len(st.handlers) == 1
                and not st.orelse and not st.finalbody and isinstance(st.handlers[0].type, ast.Name) and st.handlers[0].type.id == 'KeyError'
                and len(st.handlers[0].body) == 1 and isinstance(st.handlers[0].body[0], ast.Raise)
                and ast.unparse(st.handlers[0].body[0].exc).startswith('ValueError(')):
            raise Unsupported('try shape: %s' % ast.unparse(st).splitlines()[0])
        a = st.body[0]
        m = re.fullmatch(rhs_re, ast.unparse(a.value))
        if not (m and len(a.targets) == 1 and isinstance(a.targets[0], ast.Name)):
            raise Unsupported('fetch %s' % ast.unparse(a))
        return a.targets[0].id, m.group(1)

    std_var, k_std = try_fetch(body[0], r"options\['([\w-]+)'\]")
    st = body[1]
    if not (isinstance(st, ast.If) and not st.orelse and ast.unparse(st.test) == '%s in defaults' % std_var and len(st.body) == 1
            and ast.unparse(st.body[0]) == 'options.update(defaults[%s])' % std_var):
        raise Unsupported('group application: %s' % ast.unparse(st).splitlines()[0])
    cc_var, k_cc = try_fetch(body[2], r"ConstructorConvention\.from_string\(options\['([\w-]+)'\]\)")
    st = body[3]
    m = None
    if isinstance(st, ast.If) and not st.orelse and len(st.body) == 1 and isinstance(st.body[0], ast.Raise):
        m = re.fullmatch(re.escape(cc_var) + r" != ConstructorConvention\.DEFAULT and \('([\w-]+)' not in options or not options\['([\w-]+)'\]\)",
                         ast.unparse(st.test))
    if not m or m.group(1) != m.group(2):
        raise Unsupported('allocator check: %s' % ast.unparse(st).splitlines()[0])
    k_alloc = m.group(1)
    if ast.unparse(body[4]) != 'return options':
        raise Unsupported('return: %s' % ast.unparse(body[4]))

    # the enum and from_string
    enum = None
    for n in tree.body:
        if isinstance(n, ast.ClassDef) and n.name == 'ConstructorConvention':
            enum = n
    if enum is None:
        raise Unsupported('ConstructorConvention not found')
    values, default = [], None
    for n in enum.body:
        if isinstance(n, ast.Assign) and len(n.targets) == 1 and isinstance(n.targets[0], ast.Name) and isinstance(n.value, ast.Constant) \
                and isinstance(n.value.value, str):
            values.append(n.value.value)
            if n.targets[0].id == 'DEFAULT':
                default = n.value.value
    fs = find_function(tree, 'ConstructorConvention', 'from_string')
    fsb = [x for x in fs.body if not (isinstance(x, ast.Expr) and isinstance(x.value, ast.Constant))]
    want = ("for e in ConstructorConvention:\n    if s.lower().replace('_', '-') == e.value:\n        return e", "raise ValueError(")
    if not (len(fsb) == 2 and ast.unparse(fsb[0]) == want[0] and ast.unparse(fsb[1]).startswith(want[1])) or default is None:
        raise Unsupported('ConstructorConvention.from_string shape')
    for n in enum.body:   # __eq__/__ne__ overrides other than the known one would change `!=`
        if isinstance(n, ast.FunctionDef) and n.name == '__ne__':
            raise Unsupported('ConstructorConvention.__ne__ overridden')
    return ('(* nunavut.lang.cpp Language._validate_language_options (None = it raises) *)\n'
            'Definition cpp_key_std : list N := %s.\nDefinition cpp_key_ctor : list N := %s.\nDefinition cpp_key_alloc : list N := %s.\n'
            'Definition cpp_ctor_values : list (list N) := [%s].\nDefinition cpp_ctor_default : list N := %s.\n\n'
            '(* `if language_standard in defaults: options.update(defaults[language_standard])` *)\n'
            'Definition cpp_apply_group (defaults options : list (list N * cv)) (language_standard : cv) : option (list (list N * cv)) :=\n'
            '  match cv_str language_standard with\n'
            '  | Some k => match dget k defaults with\n'
            '              | Some (Node g) => Some (dupdate options g)\n'
            '              | Some (Leaf _ _) => None\n'
            '              | None => Some options\n'
            '              end\n'
            '  | None => Some options\n'
            '  end.\n\n'
            '(* ConstructorConvention.from_string *)\n'
            'Definition cpp_ctor_from_string (v : cv) : option (list N) :=\n'
            '  match v with\n'
            '  | Leaf false (AStr s) => if str_in (lower_dash s) cpp_ctor_values then Some (lower_dash s) else None\n'
            '  | _ => None\n'
            '  end.\n\n'
            'Definition cpp_validate_language_options (defaults options : list (list N * cv)) : option (list (list N * cv)) :=\n'
            '  match dget cpp_key_std options with\n'
            '  | None => None\n'
            '  | Some language_standard =>\n'
            '    match cpp_apply_group defaults options language_standard with\n'
            '    | None => None\n'
            '    | Some options =>\n'
            '      match dget cpp_key_ctor options with\n'
            '      | None => None\n'
            '      | Some cc =>\n'
            '        match cpp_ctor_from_string cc with\n'
            '        | None => None\n'
            '        | Some ctor_convention =>\n'
            '          if negb (str_eqb ctor_convention cpp_ctor_default)\n'
            '             && (negb (dmem cpp_key_alloc options)\n'
            '                 || negb (match dget cpp_key_alloc options with Some v => cv_truthy v | None => false end))\n'
            '          then None else Some options\n'
            '        end\n'
            '      end\n'
            '    end\n'
            '  end.'
            % (coq_str(k_std), coq_str(k_cc), coq_str(k_alloc), '; '.join(coq_str(v) for v in values), coq_str(default)))



# ---------------------------------------------------------------------------------------------
# T2 (shape-pinned): LanguageContextBuilder.create -- does a new context share the builder's LanguageConfig?
# ---------------------------------------------------------------------------------------------

STRIP_MARKERS = [
    'from nunavut._utilities import DefaultValue',
    'for key, value in mapping.items():\n    if isinstance(value, DefaultValue):\n        mapping[key] = value = value.value\n'
    '    if isinstance(value, dict):\n        _strip_default_markers(value)',
]
CREATE_DETACHED = [
    'target_language_name = self._resolve_target_language(self._target_language_name)',
    'self.config.update_section(LanguageClassLoader.to_language_module_name(target_language_name), self._target_language_config)',
    'detached = _detached_builder(self)',
    'target_language = detached._new_language_w_experimental_handling(target_language_name)',
    'return LanguageContext(detached.config, target_language, functools.partial(detached._new_language_map, target_language))',
]
DETACHED_BUILDER = [
    'import copy',
    'detached = LanguageContextBuilder(builder._include_experimental_languages)',
    'detached._target_language_name = builder._target_language_name',
    'detached._target_language_config = copy.deepcopy(builder._target_language_config)',
    'detached._ln_loader._config = copy.deepcopy(builder.config)',
    'return detached',
]
BUILDER_SETTERS = {
    'set_target_language_configuration_override': ['if value is not None:\n    self._target_language_config[key] = value', 'return self'],
    'add_config_files': ["for additional_path in additional_config_files:\n    with open(str(additional_path), 'r', encoding='utf-8') as additional_file:\n"
                         "        self.config.update_from_yaml_file(additional_file)", 'return self'],
}


def _stmts(fn: ast.FunctionDef) -> typing.List[str]:
    return [ast.unparse(st) for st in fn.body if not (isinstance(st, ast.Expr) and isinstance(st.value, ast.Constant))]


def translate_create() -> str:
    """create() is matched against the two shapes it is known in: the context shares the builder's LanguageConfig (pinned tree,
    F-CFG-REUSE) or gets deep copies of configuration and overrides (`_detached_builder`).  The two state-changing builder calls the
    hand model relies on are pinned as well.  Anything else fails closed."""
    tree = gen.parse_repo('src/nunavut/lang/__init__.py')
    for name, want in BUILDER_SETTERS.items():
        if _stmts(find_function(tree, 'LanguageContextBuilder', name)) != want:
            raise Unsupported('LanguageContextBuilder.%s has an unknown shape' % name)
    got = _stmts(find_function(tree, 'LanguageContextBuilder', 'create'))
    if got != CREATE_DETACHED:       # (the shape that shared the builder's LanguageConfig, F-CFG-REUSE, is rejected)
        raise Unsupported('LanguageContextBuilder.create has an unknown shape: %s' % ' | '.join(x.splitlines()[0] for x in got))
    helper = [n for n in tree.body if isinstance(n, ast.FunctionDef) and n.name == '_detached_builder']
    if len(helper) != 1 or _params(helper[0], False) != ['builder']:
        raise Unsupported('_detached_builder not found')
    detaches = True
    hs = _stmts(helper[0])
    if hs != DETACHED_BUILDER[:-1] + ['_strip_default_markers(detached._ln_loader._config.sections())', 'return detached']:
        raise Unsupported('_detached_builder has an unknown shape')     # (the shape without marker stripping, F-CFG-WRAPPER, is rejected)
    sm = [n for n in tree.body if isinstance(n, ast.FunctionDef) and n.name == '_strip_default_markers']
    if len(sm) != 1 or _stmts(sm[0]) != STRIP_MARKERS or _params(sm[0], False) != ['mapping']:
        raise Unsupported('_strip_default_markers has an unknown shape')
    strips = True
    return ('(* LanguageContextBuilder.create: true = the new context gets deep copies of the configuration and the overrides\n'
            '   (create leaves the builder unchanged); false = the context shares the builder\'s LanguageConfig, which create updates in place *)\n'
            'Definition create_detaches_config : bool := %s.\n\n'
            '(* does create() replace the DefaultValue markers of the copy by the plain values, at every depth, before the languages are\n'
            '   constructed (`_strip_default_markers`)?  (F-CFG-WRAPPER, fixed) *)\n'
            'Definition create_strips_default_markers : bool := %s.' % ('true' if detaches else 'false', 'true' if strips else 'false'))



# ---------------------------------------------------------------------------------------------
# shape pins: the configuration code the hand models of Gen/Config.v stand for, statement by statement
# ---------------------------------------------------------------------------------------------

PIN_FILE = os.path.join(os.path.dirname(os.path.abspath(__file__)), 'c13_pins.json')
PINNED = [
    ('src/nunavut/_utilities.py', None, 'no_default_value'),
    ('src/nunavut/lang/_config.py', 'LanguageConfig', '__init__'),
    ('src/nunavut/lang/_config.py', 'LanguageConfig', 'update'),
    ('src/nunavut/lang/_config.py', 'LanguageConfig', 'update_section'),
    ('src/nunavut/lang/_config.py', 'LanguageConfig', 'sections'),
    ('src/nunavut/lang/_config.py', 'LanguageConfig', 'update_from_yaml_string'),
    ('src/nunavut/lang/_config.py', 'LanguageConfig', 'update_from_yaml_file'),
    ('src/nunavut/lang/_config.py', 'LanguageConfig', 'set'),
    ('src/nunavut/lang/_config.py', 'LanguageConfig', 'add_section'),
    ('src/nunavut/lang/_config.py', 'LanguageConfig', '_get_config_value_raw'),
    ('src/nunavut/lang/_config.py', 'LanguageConfig', 'get_config_value'),
    ('src/nunavut/lang/_config.py', 'LanguageConfig', 'get_config_value_as_bool'),
    ('src/nunavut/lang/_config.py', 'LanguageConfig', 'get_config_value_as_dict'),
    ('src/nunavut/lang/_config.py', 'LanguageConfig', 'get_config_value_as_list'),
    ('src/nunavut/lang/_language.py', 'Language', '__init__'),
    ('src/nunavut/lang/_language.py', 'Language', '_validate_language_options'),
    ('src/nunavut/lang/_language.py', 'Language', 'get_option'),
    ('src/nunavut/lang/_language.py', 'Language', 'get_options'),
    ('src/nunavut/lang/_language.py', 'Language', 'get_config_value'),
    ('src/nunavut/lang/_language.py', 'Language', 'get_config_value_as_bool'),
    ('src/nunavut/lang/_language.py', 'Language', 'get_config_value_as_dict'),
    ('src/nunavut/lang/_language.py', 'Language', 'get_config_value_as_list'),
    ('src/nunavut/lang/_language.py', 'LanguageClassLoader', '_load_config'),
    ('src/nunavut/lang/_language.py', 'LanguageClassLoader', '__init__'),
    ('src/nunavut/lang/_language.py', 'LanguageClassLoader', 'config'),
    ('src/nunavut/lang/_language.py', 'LanguageClassLoader', 'new_language'),
    ('src/nunavut/lang/py/__init__.py', 'Language', '_validate_language_options'),
    ('src/nunavut/lang/__init__.py', 'LanguageContext', '__init__'),
    ('src/nunavut/lang/__init__.py', 'LanguageContext', 'get_target_language'),
    ('src/nunavut/lang/__init__.py', 'LanguageContext', 'get_supported_languages'),
    ('src/nunavut/lang/__init__.py', 'LanguageContext', 'config'),
    ('src/nunavut/lang/__init__.py', 'LanguageContextBuilder', '__init__'),
    ('src/nunavut/lang/__init__.py', 'LanguageContextBuilder', 'config'),
    ('src/nunavut/lang/__init__.py', 'LanguageContextBuilder', 'get_supported_language_names'),
    ('src/nunavut/lang/__init__.py', 'LanguageContextBuilder', 'set_target_language_extension'),
    ('src/nunavut/lang/__init__.py', 'LanguageContextBuilder', 'set_target_language'),
    ('src/nunavut/lang/__init__.py', 'LanguageContextBuilder', 'set_additional_config_files'),
    ('src/nunavut/lang/__init__.py', 'LanguageContextBuilder', '_new_language_w_experimental_handling'),
    ('src/nunavut/lang/__init__.py', 'LanguageContextBuilder', '_new_language_map'),
    ('src/nunavut/lang/__init__.py', 'LanguageContextBuilder', '_resolve_target_language'),
]


def _shape(fn: ast.FunctionDef) -> dict:
    return {'decorators': [ast.unparse(d) for d in fn.decorator_list],
            'params': [a.arg for a in fn.args.posonlyargs + fn.args.args + fn.args.kwonlyargs]
                      + (['*' + fn.args.vararg.arg] if fn.args.vararg else []) + (['**' + fn.args.kwarg.arg] if fn.args.kwarg else []),
            'defaults': [ast.unparse(d) for d in fn.args.defaults + [x for x in fn.args.kw_defaults if x is not None]],
            'body': _stmts(fn)}


def current_shapes() -> dict:
    out, trees = {}, {}
    for rel, cls, name in PINNED:
        if rel not in trees:
            trees[rel] = gen.parse_repo(rel)
        out['%s::%s%s' % (rel, cls + '.' if cls else '', name)] = _shape(find_function(trees[rel], cls, name))
    return out


def check_pins() -> str:
    import json
    with open(PIN_FILE, encoding='utf-8') as f:
        want = json.load(f)
    got = current_shapes()
    for k in want:
        if got.get(k) != want[k]:
            part = next((p for p in ('decorators', 'params', 'defaults', 'body') if got.get(k, {}).get(p) != want[k].get(p)), '?')
            raise Unsupported('%s no longer has the shape the model of Gen/Config.v stands for (%s differ)' % (k, part))
    empty_ok = all(want['src/nunavut/lang/_config.py::LanguageConfig.' + n]['body'][-1] == 'self.update(configuration if configuration is not None else {})'
                   for n in ('update_from_yaml_string', 'update_from_yaml_file'))
    conf = [r for r in parser_table() if r['dest'] == 'configuration']
    if len(conf) != 1 or conf[0]['nargs'] != '*' or conf[0]['action'] != 'extend' or conf[0]['default'] is not None:
        raise Unsupported('--configuration is no longer nargs="*" with action="extend" and default None')   # (plain store, F-CFG-REPEATC, is rejected)
    return ('(* an empty / comment-only yaml document (yaml gives None): true = it is the identity of the merge, false = update(None) raises\n'
            '   (F-CFG-EMPTYDOC, fixed; the pinned bodies say which) *)\n'
            'Definition yaml_empty_document_is_identity : bool := %s.\n\n'
            '(* a repeated --configuration option: true = the file lists accumulate in command-line order (action="extend"),\n'
            '   (F-CFG-REPEATC, fixed) *)\n'
            'Definition cli_configuration_accumulates : bool := %s.'
            % ('true' if empty_ok else 'false', 'true'))


def scan_mutable_defaults() -> None:
    """Class-level / module-level (or otherwise shared) objects must not be handed out as the default of a configuration getter, and no
    function of the configuration code may have a mutable display as a parameter default: such an object would be shared by every
    language and context of the process, and the validators write into the option maps they are given."""
    import glob
    getters = {'get_config_value_as_dict', 'get_config_value_as_list', 'get_config_value', 'get_config_value_as_bool',
               '_get_config_value_raw', 'get_option'}

    def fresh_ok(e, params) -> bool:
        if isinstance(e, ast.Constant):
            return True
        if isinstance(e, (ast.Dict, ast.List, ast.Set, ast.Tuple)):
            parts = list(getattr(e, 'elts', [])) + list(getattr(e, 'values', [])) + [k for k in getattr(e, 'keys', []) if k is not None]
            return all(fresh_ok(x, params) for x in parts)
        if isinstance(e, ast.Call) and isinstance(e.func, ast.Name) and e.func.id in ('dict', 'list', 'set') and not e.args and not e.keywords:
            return True
        if isinstance(e, ast.Name) and e.id in params:
            return True
        if isinstance(e, ast.Attribute) and ast.unparse(e) == 'self._UNSET':
            return True
        if isinstance(e, ast.IfExp):
            return fresh_ok(e.body, params) and fresh_ok(e.orelse, params)
        return False

    hits = []
    root = os.path.join(gen.REPO, 'src', 'nunavut')
    files = sorted(set(glob.glob(os.path.join(root, 'lang', '*.py')) + glob.glob(os.path.join(root, 'lang', '*', '__init__.py'))
                       + [os.path.join(root, '_utilities.py')]))
    for f in files:
        with open(f, encoding='utf-8') as fh:
            tree = ast.parse(fh.read())
        rel = os.path.relpath(f, gen.REPO)
        for fn in ast.walk(tree):
            if isinstance(fn, (ast.FunctionDef, ast.Lambda)):
                for d in list(fn.args.defaults) + [x for x in fn.args.kw_defaults if x is not None]:
                    if isinstance(d, (ast.Dict, ast.List, ast.Set)) or (isinstance(d, ast.Call) and isinstance(d.func, ast.Name)
                                                                         and d.func.id in ('dict', 'list', 'set')):
                        hits.append('%s:%d mutable parameter default %s' % (rel, d.lineno, ast.unparse(d)))
            if isinstance(fn, ast.FunctionDef):
                params = {x.arg for x in fn.args.args + fn.args.kwonlyargs}
                for c in ast.walk(fn):
                    if isinstance(c, ast.Call) and isinstance(c.func, ast.Attribute) and c.func.attr in getters:
                        on_config = 'config' in ast.unparse(c.func.value) or c.func.attr == '_get_config_value_raw'
                        pos = 2 if on_config else 1
                        cands = [kw.value for kw in c.keywords if kw.arg == 'default_value']
                        if len(c.args) > pos:
                            cands.append(c.args[pos])
                        for d in cands:
                            if not fresh_ok(d, params):
                                hits.append('%s:%d %s(..., default %s) hands out a shared object' % (rel, c.lineno, c.func.attr, ast.unparse(d)))
    if hits:
        raise Unsupported('shared mutable defaults reachable from option maps: ' + '; '.join(hits[:4]))



# ---------------------------------------------------------------------------------------------
# T2: the getters of LanguageConfig, statement by statement, into the exception monad cfg_result over pyv
# ---------------------------------------------------------------------------------------------

class GetTr:
    """Subset: `x = e`, `return e`, `if c: return e` / `if c: raise TypeError(...)` (no else), and
    `try: x = e | return e / except KeyError: if d is not self._UNSET: return d; raise`.
    Expressions: names, str/bool/None constants, self._UNSET, self._sections, a[b], `a if c else b`, str(x), bool(x), x.lower(),
    calls of already translated methods of self (positional or default_value= keyword).
    Conditions: `is None`, `is not None`, `is not self._UNSET`, ==, not, or, isinstance(x, list|dict|DefaultValue).
    Every expression is a term of type `cfg_result pyv`; sequencing is `rbind` (an exception skips the rest)."""

    def __init__(self, methods: typing.Dict[str, str]):
        self.methods = methods        # python method name -> gallina function (sections first)
        self.n = 0

    def fresh(self, b: str) -> str:
        self.n += 1
        return '%s_%d' % (b, self.n)

    def ex(self, e: ast.expr, env) -> str:
        if isinstance(e, ast.Name):
            if e.id not in env:
                raise Unsupported('free name %s' % e.id)
            return '(CfgOk %s)' % env[e.id]
        if isinstance(e, ast.Constant):
            v = e.value
            if isinstance(v, str):
                return '(CfgOk (PV (Leaf false (AStr %s))))' % coq_str(v)
            if v is None:
                return '(CfgOk (PV (Leaf false ANone)))'
            if isinstance(v, bool):
                return '(CfgOk (PV (Leaf false (ABool %s))))' % ('true' if v else 'false')
            raise Unsupported('constant %r' % (v,))
        if isinstance(e, ast.Attribute) and ast.unparse(e) == 'self._UNSET':
            return '(CfgOk PUnset)'
        if isinstance(e, ast.Attribute) and ast.unparse(e) == 'self._sections':
            return '(CfgOk (PV (Node sections)))'
        if isinstance(e, ast.Subscript):
            a, b = self.fresh('d'), self.fresh('k')
            return '(rbind %s (fun %s => rbind %s (fun %s => py_getitem %s %s)))' % (self.ex(e.value, env), a, self.ex(e.slice, env), b, a, b)
        if isinstance(e, ast.IfExp):
            c = self.fresh('c')
            return '(rbind %s (fun %s : bool => if %s then %s else %s))' % (self.cond(e.test, env), c, c, self.ex(e.body, env), self.ex(e.orelse, env))
        if isinstance(e, ast.Call):
            f = ast.unparse(e.func)
            if f in ('str', 'bool') and len(e.args) == 1 and not e.keywords:
                x = self.fresh('x')
                body = 'py_str_v %s' % x if f == 'str' else 'CfgOk (PV (Leaf false (ABool (py_truthy %s))))' % x
                return '(rbind %s (fun %s => %s))' % (self.ex(e.args[0], env), x, body)
            if isinstance(e.func, ast.Attribute) and e.func.attr == 'lower' and not e.args and not e.keywords:
                x = self.fresh('x')
                return '(rbind %s (fun %s => py_lower %s))' % (self.ex(e.func.value, env), x, x)
            if f.startswith('self.') and f[5:] in self.methods:
                args = list(e.args)
                for kw in e.keywords:
                    if kw.arg != 'default_value' or len(args) != 2:
                        raise Unsupported('keyword argument %s' % kw.arg)
                    args.append(kw.value)
                if len(args) != 3:
                    raise Unsupported('call %s with %d arguments' % (f, len(args)))
                names = [self.fresh('a') for _ in args]
                t = '%s sections %s' % (self.methods[f[5:]], ' '.join(names))
                for a, nm in reversed(list(zip(args, names))):
                    t = 'rbind %s (fun %s => %s)' % (self.ex(a, env), nm, t)
                return '(%s)' % t
            raise Unsupported('call %s' % f)
        raise Unsupported('expression %s' % ast.unparse(e))

    def cond(self, e: ast.expr, env) -> str:
        if isinstance(e, ast.Compare) and len(e.ops) == 1:
            op, l, r = e.ops[0], e.left, e.comparators[0]
            x = self.fresh('x')
            if isinstance(op, (ast.Is, ast.IsNot)):
                neg = isinstance(op, ast.IsNot)
                if isinstance(r, ast.Constant) and r.value is None:
                    t = 'py_is_none %s' % x
                elif ast.unparse(r) == 'self._UNSET':
                    t = 'py_is_unset %s' % x
                else:
                    raise Unsupported('identity test against %s' % ast.unparse(r))
                return '(rbind %s (fun %s => CfgOk (%s)))' % (self.ex(l, env), x, ('negb (%s)' % t) if neg else t)
            if isinstance(op, ast.Eq):
                y = self.fresh('y')
                return '(rbind %s (fun %s => rbind %s (fun %s => CfgOk (py_eq %s %s))))' % (self.ex(l, env), x, self.ex(r, env), y, x, y)
            raise Unsupported('comparison %s' % ast.unparse(e))
        if isinstance(e, ast.UnaryOp) and isinstance(e.op, ast.Not):
            x = self.fresh('x')
            return '(rbind %s (fun %s => CfgOk (negb (py_truthy %s))))' % (self.ex(e.operand, env), x, x)
        if isinstance(e, ast.BoolOp) and isinstance(e.op, ast.Or):
            t = self.cond(e.values[-1], env)
            for v in reversed(e.values[:-1]):
                c = self.fresh('c')
                t = '(rbind %s (fun %s : bool => if %s then CfgOk true else %s))' % (self.cond(v, env), c, c, t)
            return t
        if isinstance(e, ast.Call) and ast.unparse(e.func) == 'isinstance' and len(e.args) == 2:
            x = self.fresh('x')
            prim = {'list': 'py_is_list', 'dict': 'py_is_dict', 'DefaultValue': 'py_is_default'}.get(ast.unparse(e.args[1]))
            if prim is None:
                raise Unsupported('isinstance against %s' % ast.unparse(e.args[1]))
            return '(rbind %s (fun %s => CfgOk (%s %s)))' % (self.ex(e.args[0], env), x, prim, x)
        raise Unsupported('condition %s' % ast.unparse(e))

    def block(self, stmts: typing.List[ast.stmt], env) -> str:
        if not stmts:
            raise Unsupported('control reaches the end of the function')
        s, rest = stmts[0], stmts[1:]
        if isinstance(s, ast.Expr) and isinstance(s.value, ast.Constant):
            return self.block(rest, env)
        if isinstance(s, ast.Return) and s.value is not None:
            return self.ex(s.value, env)
        if isinstance(s, ast.Assign) and len(s.targets) == 1 and isinstance(s.targets[0], ast.Name):
            nm = self.fresh(s.targets[0].id)
            env2 = dict(env)
            env2[s.targets[0].id] = nm
            return '(rbind %s (fun %s =>\n  %s))' % (self.ex(s.value, env), nm, self.block(rest, env2))
        if isinstance(s, ast.If) and not s.orelse and len(s.body) == 1:
            c = self.fresh('c')
            b = s.body[0]
            if isinstance(b, ast.Return) and b.value is not None:
                then = self.ex(b.value, env)
            elif isinstance(b, ast.Raise) and ast.unparse(b.exc).startswith('TypeError('):
                then = 'CfgTypeError'
            else:
                raise Unsupported('if body %s' % ast.unparse(b).splitlines()[0])
            return '(rbind %s (fun %s : bool => if %s then %s else\n  %s))' % (self.cond(s.test, env), c, c, then, self.block(rest, env))
        if isinstance(s, ast.Try) and len(s.body) == 1 and len(s.handlers) == 1 and not s.orelse and not s.finalbody:
            h = s.handlers[0]
            if not (isinstance(h.type, ast.Name) and h.type.id == 'KeyError' and h.name is None and len(h.body) == 2
                    and isinstance(h.body[0], ast.If) and not h.body[0].orelse and len(h.body[0].body) == 1
                    and isinstance(h.body[0].body[0], ast.Return) and isinstance(h.body[1], ast.Raise) and h.body[1].exc is None):
                raise Unsupported('except clause')
            handler = '(rbind %s (fun c_h : bool => if c_h then %s else CfgKeyError))' % (self.cond(h.body[0].test, env),
                                                                                         self.ex(h.body[0].body[0].value, env))
            b = s.body[0]
            if isinstance(b, ast.Return) and b.value is not None:
                return ('(match %s with\n  | CfgKeyError => %s\n  | other => other\n  end)' % (self.ex(b.value, env), handler))
            if isinstance(b, ast.Assign) and len(b.targets) == 1 and isinstance(b.targets[0], ast.Name):
                nm = self.fresh(b.targets[0].id)
                env2 = dict(env)
                env2[b.targets[0].id] = nm
                return ('(match %s with\n  | CfgKeyError => %s\n  | CfgOk %s =>\n  %s\n  | CfgTypeError => CfgTypeError\n  | CfgUnmodelled => CfgUnmodelled\n  end)'
                        % (self.ex(b.value, env), handler, nm, self.block(rest, env2)))
            raise Unsupported('try body')
        raise Unsupported('statement %s' % ast.unparse(s).splitlines()[0])


def translate_getters() -> str:
    tree = gen.parse_repo('src/nunavut/lang/_config.py')
    ut = gen.parse_repo('src/nunavut/_utilities.py')
    # @no_default_value: wrapper(result) = result.value if isinstance(result, DefaultValue) else result
    nd = find_function(ut, None, 'no_default_value')
    want = ["def wrapper(*args: Any, **kwargs: Any) -> Any:\n    result = func(*args, **kwargs)\n    if isinstance(result, DefaultValue):\n"
            "        return result.value\n    return result", 'return wrapper']
    if _stmts(nd) != want:
        raise Unsupported('no_default_value has an unknown shape')
    out = ['(* @no_default_value *)\nDefinition no_default_value (r : cfg_result pyv) : cfg_result pyv :=\n'
           '  rbind r (fun result => if py_is_default result then CfgOk (py_default_value result) else CfgOk result).']
    methods: typing.Dict[str, str] = {}
    for name in ['_get_config_value_raw', 'get_config_value', 'get_config_value_as_bool', 'get_config_value_as_dict', 'get_config_value_as_list']:
        fn = find_function(tree, 'LanguageConfig', name)
        decos = [ast.unparse(d) for d in fn.decorator_list]
        if decos not in ([], ['no_default_value']):
            raise Unsupported('decorators of %s' % name)
        ps = [a.arg for a in fn.args.args]
        if ps != ['self', 'section_name', 'key', 'default_value'] or fn.args.vararg or fn.args.kwarg or fn.args.kwonlyargs:
            raise Unsupported('parameters of %s' % name)
        tr = GetTr(methods)
        env = {'section_name': 'section_name', 'key': 'key', 'default_value': 'default_value'}
        body = tr.block(list(fn.body), env)
        if decos:
            body = 'no_default_value %s' % body
        g = 'LanguageConfig_' + name
        out.append('(* LanguageConfig.%s *)\nDefinition %s (sections : list (list N * cv)) (section_name key default_value : pyv) : cfg_result pyv :=\n  %s.'
                   % (name, g, body))
        methods[name] = g
    return '\n\n'.join(out)


def gen_c13() -> typing.Tuple[bool, str]:
    try:
        ut = gen.parse_repo('src/nunavut/_utilities.py')
        parts = [PRELUDE]
        parts.append(translate_assign(ut))
        parts.append(translate_deep_update(ut))
        props = load_properties()
        cpp = props['nunavut.lang.cpp']
        wk = wkcv_constants()
        parts.append('Definition key_options : list N := %s.\nDefinition key_defaults : list N := %s.'
                     % (coq_str(wk['WKCV_LANGUAGE_OPTIONS']), coq_str(wk['WKCV_LANGUAGE_OPTION_DEFAULTS'])))
        groups = cpp.get(wk['WKCV_LANGUAGE_OPTION_DEFAULTS'], {})
        parts.append('(* nunavut.lang.cpp `defaults`: option groups selected by the value of `std` *)\n'
                     'Definition cpp_std_groups : list (list N * list (list N * cv)) :=\n  [%s].'
                     % ';\n   '.join('(%s,\n    %s)' % (coq_str(k), coq_flat_dict(v)) for k, v in groups.items()))
        parts.append('(* nunavut.lang.cpp built-in `options` *)\nDefinition cpp_builtin_options : list (list N * cv) :=\n    %s.'
                     % coq_flat_dict(cpp[wk['WKCV_LANGUAGE_OPTIONS']]))
        docs = documented_shorthand_groups()
        parts.append('(* docs/languages.rst: the option group each -std shorthand is documented to stand for, with values *)\n'
                     'Definition cpp_documented_groups : list (list N * list (list N * cv)) :=\n  [%s].'
                     % ';\n   '.join('(%s,\n    %s)' % (coq_str(k), coq_flat_dict(v)) for k, v in docs.items()))
        parts.append('(* docs/languages.rst: the option group each -std shorthand is documented to stand for (keys) *)\n'
                     'Definition cpp_documented_group_keys : list (list N * list (list N)) :=\n  [%s].'
                     % ';\n   '.join('(%s, [%s])' % (coq_str(k), '; '.join(coq_str(x) for x in v)) for k, v in docs.items()))
        parts.append(translate_cpp_validate())
        parts.append(translate_getters())
        parts.append(translate_create())
        parts.append(check_pins())
        scan_mutable_defaults()
        parts.append(translate_cli(wk))
    except (Unsupported, SyntaxError, OSError, KeyError, TypeError, ValueError) as ex:
        gen.write_if_changed(OUT, HEAD + '(* translator failed closed: %s *)\n' % str(ex).replace('*)', '* )'))
        return False, 'C13 translator failed closed: %s' % ex
    gen.write_if_changed(OUT, HEAD + '\n\n'.join(parts) + '\n')
    return True, 'ok'


GENERATORS = {'c13': gen_c13}


if __name__ == '__main__':   # development time: python -m tools.translators.gen_c13 --repin  (re-records the pinned shapes)
    import json
    import sys
    if sys.argv[1:] == ['--repin']:
        with open(PIN_FILE, 'w', encoding='utf-8') as _f:
            json.dump(current_shapes(), _f, indent=1, sort_keys=True)
            _f.write('\n')
        print('pinned %d functions' % len(PINNED))
