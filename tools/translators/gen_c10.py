"""T2-style translator for C10: nunavut.lang._common.UniqueNameGenerator (state, reset, __call__) and the
structure facts of CodeGenerator._generate_code that the generator-run model depends on.

Output: coq/theories/Generated/Gen_Uniq.v

The supported Python subset is deliberately tiny and pattern directed (two-level dict of counters reached through
an alias, try/except KeyError as the only control flow, one f-string).  Anything else fails closed.

    try:                                   let self_1 := match dict_get (attr self) key with
        m = self.attr[key]                                | Some _ => self
    except KeyError:                 ==>                  | None => {| attr := dict_set (attr self) key [] |}
        m = {}                                            end in
        self.attr[key] = m                 (* m is from here on an alias of (attr self)[key] in both branches *)

    try:                                   match dict_get (dict_sub (attr self_1) key) k with
        v = m[k]                           | Some v_2 => <stores, rest>
        <stores through m only>      ==>   | None => <handler, rest>
    except KeyError:                       end
        <handler>

    m[k] = e                         ==>   let self_3 := {| attr := dict_set (attr self) key (dict_set (dict_sub (attr self) key) k e) |} in
    return f"{a}{b}{n}{c}"           ==>   (self_n, a ++ b ++ dec_of_Z n ++ c)
"""
from __future__ import annotations

import ast
import re
import os
import typing

from . import gen
from .pyfun_tr import Unsupported, find_function

T_STR, T_INT = 'str', 'Z'


class _CallTr:
    def __init__(self, cls: str, attr: str):
        self.cls = cls
        self.attr = attr              # the dict-of-dicts attribute of self
        self.field = '%s_%s' % (cls, attr.lstrip('_'))
        self.fresh = 0
        self.alias_keys: typing.Set[str] = set()   # python names used as the key of a live alias

    def nm(self, base: str) -> str:
        self.fresh += 1
        return '%s_%d' % (base, self.fresh)

    # -- helpers on the AST -------------------------------------------------------------------
    def is_self_attr(self, e: ast.expr) -> bool:
        return (isinstance(e, ast.Attribute) and isinstance(e.value, ast.Name) and e.value.id == 'self'
                and e.attr == self.attr)

    @staticmethod
    def is_keyerror_handler(h: ast.ExceptHandler) -> bool:
        return isinstance(h.type, ast.Name) and h.type.id == 'KeyError' and h.name is None

    @staticmethod
    def has_load_subscript(stmts: typing.Sequence[ast.stmt]) -> bool:
        for s in stmts:
            for n in ast.walk(s):
                if isinstance(n, ast.Subscript) and isinstance(n.ctx, ast.Load):
                    return True
                if isinstance(n, (ast.Call, ast.Raise, ast.Try)):
                    return True
        return False

    # -- expressions (values only) ------------------------------------------------------------
    def expr(self, e: ast.expr, env) -> typing.Tuple[str, str]:
        if isinstance(e, ast.Constant) and isinstance(e.value, int) and not isinstance(e.value, bool):
            return '(%d)%%Z' % e.value, T_INT
        if isinstance(e, ast.Name):
            b = env.get(e.id)
            if b is None or b[0] != 'val':
                raise Unsupported('name %s is not a plain value here' % e.id)
            return b[1], b[2]
        if isinstance(e, ast.BinOp) and isinstance(e.op, (ast.Add, ast.Sub)):
            a, ta = self.expr(e.left, env)
            b, tb = self.expr(e.right, env)
            if ta == T_INT and tb == T_INT:
                return '(%s %s %s)' % ('Z.add' if isinstance(e.op, ast.Add) else 'Z.sub', a, b), T_INT
            raise Unsupported('arithmetic on %s, %s' % (ta, tb))
        raise Unsupported('expression %s' % type(e).__name__)

    def str_expr(self, e: ast.expr, env) -> str:
        v, t = self.expr(e, env)
        if t != T_STR:
            raise Unsupported('dict key of type %s' % t)
        return v

    def fstring(self, e: ast.JoinedStr, env) -> str:
        parts = []
        for v in e.values:
            if isinstance(v, ast.Constant) and isinstance(v.value, str):
                parts.append('([%s]%%N : str)' % '; '.join(str(ord(c)) for c in v.value))
            elif isinstance(v, ast.FormattedValue) and v.conversion == -1 and v.format_spec is None:
                x, t = self.expr(v.value, env)
                parts.append(x if t == T_STR else '(dec_of_Z %s)' % x)
            else:
                raise Unsupported('f-string part')
        return '(%s)' % ' ++ '.join(parts) if parts else '([] : str)'

    # -- state update ---------------------------------------------------------------------------
    def with_attr(self, selfv: str, newval: str) -> str:
        return '{| %s := %s |}' % (self.field, newval)

    def get_attr(self, selfv: str) -> str:
        return '(%s %s)' % (self.field, selfv)

    # -- statements -------------------------------------------------------------------------------
    def block(self, stmts: typing.List[ast.stmt], env, selfv: str) -> str:
        if not stmts:
            raise Unsupported('control reaches the end of the function without return')
        s, rest = stmts[0], stmts[1:]
        if isinstance(s, ast.Expr) and isinstance(s.value, ast.Constant) and isinstance(s.value.value, str):
            return self.block(rest, env, selfv)
        if isinstance(s, ast.Return):
            if isinstance(s.value, ast.JoinedStr):
                return '(%s, %s)' % (selfv, self.fstring(s.value, env))
            v, t = self.expr(s.value, env) if s.value is not None else (None, None)
            if t != T_STR:
                raise Unsupported('return of non-string')
            return '(%s, %s)' % (selfv, v)
        if isinstance(s, ast.Try):
            if s.orelse or s.finalbody or len(s.handlers) != 1 or not self.is_keyerror_handler(s.handlers[0]) or not s.body:
                raise Unsupported('try shape')
            h = s.handlers[0]
            first = s.body[0]
            if not (isinstance(first, ast.Assign) and len(first.targets) == 1 and isinstance(first.targets[0], ast.Name)
                    and isinstance(first.value, ast.Subscript)):
                raise Unsupported('try body must start with  name = dict[key]')
            tgt = first.targets[0].id
            sub = first.value
            # (1) alias creation
            if self.is_self_attr(sub.value):
                if len(s.body) != 1:
                    raise Unsupported('alias try body')
                key = self.str_expr(sub.slice, env)
                if not (len(h.body) == 2
                        and isinstance(h.body[0], ast.Assign) and len(h.body[0].targets) == 1
                        and isinstance(h.body[0].targets[0], ast.Name) and h.body[0].targets[0].id == tgt
                        and isinstance(h.body[0].value, ast.Dict) and not h.body[0].value.keys
                        and isinstance(h.body[1], ast.Assign) and len(h.body[1].targets) == 1
                        and isinstance(h.body[1].targets[0], ast.Subscript) and self.is_self_attr(h.body[1].targets[0].value)
                        and ast.dump(h.body[1].targets[0].slice) == ast.dump(sub.slice)
                        and isinstance(h.body[1].value, ast.Name) and h.body[1].value.id == tgt):
                    raise Unsupported('alias handler must be  m = {}; self.attr[key] = m')
                if any(b[0] == 'alias' for b in env.values()):
                    raise Unsupported('second alias')
                if not isinstance(sub.slice, ast.Name):
                    raise Unsupported('alias key must be a name')
                self.alias_keys.add(sub.slice.id)
                new = self.nm('self')
                env2 = dict(env)
                env2[tgt] = ('alias', key)
                a = self.get_attr(selfv)
                return ('(let %s := match dict_get %s %s with\n    | Some _ => %s\n    | None => %s\n    end in\n  %s)'
                        % (new, a, key, selfv, self.with_attr(selfv, '(dict_set %s %s [])' % (a, key)),
                           self.block(rest, env2, new)))
            # (2) lookup through the alias
            if isinstance(sub.value, ast.Name) and env.get(sub.value.id, ('',))[0] == 'alias':
                akey = env[sub.value.id][1]
                k = self.str_expr(sub.slice, env)
                if self.has_load_subscript(s.body[1:]):
                    raise Unsupported('only the first statement of a try body may raise')
                v = self.nm(tgt)
                env_some = dict(env)
                env_some[tgt] = ('val', v, T_INT)
                return ('(match dict_get (dict_sub %s %s) %s with\n  | Some %s => %s\n  | None => %s\n  end)'
                        % (self.get_attr(selfv), akey, k, v,
                           self.block(list(s.body[1:]) + rest, env_some, selfv),
                           self.block(list(h.body) + rest, env, selfv)))
            raise Unsupported('try over an unknown container')
        if isinstance(s, ast.Assign) and len(s.targets) == 1:
            t = s.targets[0]
            if isinstance(t, ast.Name):
                if t.id in self.alias_keys or env.get(t.id, ('',))[0] == 'alias':
                    raise Unsupported('re-assignment of an alias or of its key')
                v, tv = self.expr(s.value, env)
                n = self.nm(t.id)
                env2 = dict(env)
                env2[t.id] = ('val', n, tv)
                return '(let %s := %s in\n  %s)' % (n, v, self.block(rest, env2, selfv))
            if isinstance(t, ast.Subscript) and isinstance(t.value, ast.Name) and env.get(t.value.id, ('',))[0] == 'alias':
                akey = env[t.value.id][1]
                k = self.str_expr(t.slice, env)
                v, tv = self.expr(s.value, env)
                if tv != T_INT:
                    raise Unsupported('counter of type %s' % tv)
                a = self.get_attr(selfv)
                new = self.nm('self')
                upd = '(dict_set %s %s (dict_set (dict_sub %s %s) %s %s))' % (a, akey, a, akey, k, v)
                return '(let %s := %s in\n  %s)' % (new, self.with_attr(selfv, upd), self.block(rest, env, new))
            raise Unsupported('assignment target')
        raise Unsupported('statement %s' % type(s).__name__)


def _body_without_doc(fn: ast.FunctionDef) -> typing.List[ast.stmt]:
    return [s for s in fn.body if not (isinstance(s, ast.Expr) and isinstance(s.value, ast.Constant) and isinstance(s.value.value, str))]


def _is_classmethod(fn: ast.FunctionDef) -> bool:
    return len(fn.decorator_list) == 1 and isinstance(fn.decorator_list[0], ast.Name) and fn.decorator_list[0].id == 'classmethod'


def translate_uniq(tree: ast.Module) -> str:
    cls = 'UniqueNameGenerator'
    # __init__: exactly one attribute, an empty dict
    init = find_function(tree, cls, '__init__')
    body = _body_without_doc(init)
    if len(body) != 1:
        raise Unsupported('__init__ has %d statements' % len(body))
    st = body[0]
    tgt = st.target if isinstance(st, ast.AnnAssign) else (st.targets[0] if isinstance(st, ast.Assign) and len(st.targets) == 1 else None)
    if not (isinstance(tgt, ast.Attribute) and isinstance(tgt.value, ast.Name) and tgt.value.id == 'self'
            and isinstance(st.value, ast.Dict) and not st.value.keys):
        raise Unsupported('__init__ does not initialise one empty dict')
    attr = tgt.attr
    field = '%s_%s' % (cls, attr.lstrip('_'))
    # reset: cls._singleton = cls()
    reset = find_function(tree, cls, 'reset')
    rb = _body_without_doc(reset)
    if not (_is_classmethod(reset) and len(rb) == 1 and isinstance(rb[0], ast.Assign) and len(rb[0].targets) == 1
            and isinstance(rb[0].targets[0], ast.Attribute) and isinstance(rb[0].targets[0].value, ast.Name)
            and rb[0].targets[0].value.id == 'cls'
            and isinstance(rb[0].value, ast.Call) and isinstance(rb[0].value.func, ast.Name) and rb[0].value.func.id == 'cls'
            and not rb[0].value.args and not rb[0].value.keywords):
        raise Unsupported('reset is not  cls.<singleton> = cls()')
    singleton = rb[0].targets[0].attr
    # get_instance returns that singleton (or raises)
    gi = find_function(tree, cls, 'get_instance')
    rets = [n for n in ast.walk(gi) if isinstance(n, ast.Return)]
    if not (_is_classmethod(gi) and len(rets) == 1 and isinstance(rets[0].value, ast.Attribute)
            and isinstance(rets[0].value.value, ast.Name) and rets[0].value.value.id == 'cls' and rets[0].value.attr == singleton):
        raise Unsupported('get_instance does not return the singleton')
    # nothing else in the class assigns the singleton or the map
    for n in ast.walk([c for c in tree.body if isinstance(c, ast.ClassDef) and c.name == cls][0]):
        if isinstance(n, ast.FunctionDef) and n.name not in ('__init__', 'reset', 'get_instance', '__call__'):
            raise Unsupported('unexpected method %s' % n.name)
    call = find_function(tree, cls, '__call__')
    if call.decorator_list or call.args.vararg or call.args.kwarg or call.args.kwonlyargs or call.args.defaults:
        raise Unsupported('__call__ signature')
    params = [a.arg for a in call.args.args]
    if params[:1] != ['self'] or len(params) < 2:
        raise Unsupported('__call__ parameters')
    tr = _CallTr(cls, attr)
    env = {p: ('val', p, T_STR) for p in params[1:]}
    for a in call.args.args[1:]:
        if not (isinstance(a.annotation, ast.Name) and a.annotation.id == 'str'):
            raise Unsupported('parameter %s is not annotated str' % a.arg)
    body_coq = tr.block(list(call.body), env, 'self')
    ps = ' '.join('(%s : str)' % p for p in params[1:])
    return '\n\n'.join([
        'Record %s_state := { %s : dict (dict Z) }.' % (cls, field),
        '(* __init__ / reset(): the singleton is replaced by a new object with an empty map *)\n'
        'Definition %s_init : %s_state := {| %s := [] |}.' % (cls, cls, field),
        'Definition %s_call (self : %s_state) %s : (%s_state * str) :=\n  %s.' % (cls, cls, ps, cls, body_coq),
        '(* parameter order of __call__: %s *)' % ', '.join(params[1:]),
    ]), params[1:]


def _mentions(node: ast.AST, name: str) -> bool:
    return any(isinstance(n, ast.Name) and n.id == name for n in ast.walk(node))


def generate_code_facts(tree: ast.Module) -> typing.Dict[str, bool]:
    """Where in CodeGenerator._generate_code the unique-name generator is reset relative to the consumption of the
    (lazy) template generator, and whether the line post-processor objects come from the generator object."""
    fn = find_function(tree, 'CodeGenerator', '_generate_code')
    params = [a.arg for a in fn.args.args]
    if 'template_gen' not in params:
        raise Unsupported('_generate_code has no template_gen parameter')
    first_use = None
    reset_at = None
    for i, s in enumerate(fn.body):
        if (isinstance(s, ast.Expr) and isinstance(s.value, ast.Call) and isinstance(s.value.func, ast.Attribute)
                and s.value.func.attr == 'reset' and isinstance(s.value.func.value, ast.Name)
                and s.value.func.value.id == 'UniqueNameGenerator' and reset_at is None):
            reset_at = i
        if first_use is None and _mentions(s, 'template_gen'):
            first_use = i
    if first_use is None:
        raise Unsupported('_generate_code never consumes template_gen')
    resets = reset_at is not None and reset_at < first_use
    # the callers create the generator lazily: template.generate(...) and pass it on without iterating
    for cls, name in (('DSDLCodeGenerator', '_generate_type'), ('SupportGenerator', '_generate_header')):
        f = find_function(tree, cls, name)
        gens = [n for n in ast.walk(f) if isinstance(n, ast.Assign) and isinstance(n.value, ast.Call)
                and isinstance(n.value.func, ast.Attribute) and n.value.func.attr == 'generate']
        if len(gens) != 1 or any(isinstance(n, (ast.For, ast.While, ast.ListComp)) for n in ast.walk(f)):
            raise Unsupported('%s.%s does not create exactly one lazy template generator' % (cls, name))
        for n in ast.walk(f):
            if (isinstance(n, ast.Call) and isinstance(n.func, ast.Attribute) and n.func.attr == 'reset'):
                raise Unsupported('%s.%s resets something itself' % (cls, name))
    shares = False
    for n in ast.walk(fn):
        if (isinstance(n, ast.For) and isinstance(n.iter, ast.Attribute) and isinstance(n.iter.value, ast.Name)
                and n.iter.value.id == 'self' and n.iter.attr == '_post_processors'):
            shares = True
    # every line post-processor is told that a new file begins, before the template generator is consumed:
    #   for pp in self._post_processors: ... line_pps.append(_reset_line_pp(pp))
    resets_pps = False
    for i, st in enumerate(fn.body):
        if i >= first_use:
            break
        for n in ast.walk(st):
            if (isinstance(n, ast.For) and isinstance(n.iter, ast.Attribute) and n.iter.attr == '_post_processors'
                    and isinstance(n.target, ast.Name)):
                var = n.target.id
                for m in ast.walk(n):
                    if (isinstance(m, ast.Call) and isinstance(m.func, ast.Attribute) and m.func.attr == 'append'
                            and isinstance(m.func.value, ast.Name) and m.func.value.id == 'line_pps' and len(m.args) == 1
                            and isinstance(m.args[0], ast.Call) and isinstance(m.args[0].func, ast.Name)
                            and m.args[0].func.id == '_reset_line_pp' and len(m.args[0].args) == 1
                            and isinstance(m.args[0].args[0], ast.Name) and m.args[0].args[0].id == var):
                        resets_pps = True
    if resets_pps:
        resets_pps = _reset_line_pp_calls_reset(tree)
    return {'generate_code_resets_uniq': resets, 'generate_code_uses_generator_pps': shares,
            'generate_code_resets_line_pps': resets_pps}


def _reset_line_pp_calls_reset(tree: ast.Module) -> bool:
    """_reset_line_pp(line_pp):  reset = getattr(line_pp, "reset", None); if callable(reset): reset(); return line_pp"""
    fns = [n for n in tree.body if isinstance(n, ast.FunctionDef) and n.name == '_reset_line_pp']
    if len(fns) != 1 or len(fns[0].args.args) != 1:
        return False
    arg = fns[0].args.args[0].arg
    body = _body_without_doc(fns[0])
    if len(body) != 3:
        return False
    a, b, c = body
    ok_a = (isinstance(a, ast.Assign) and len(a.targets) == 1 and isinstance(a.targets[0], ast.Name)
            and isinstance(a.value, ast.Call) and isinstance(a.value.func, ast.Name) and a.value.func.id == 'getattr'
            and len(a.value.args) == 3 and isinstance(a.value.args[0], ast.Name) and a.value.args[0].id == arg
            and isinstance(a.value.args[1], ast.Constant) and a.value.args[1].value == 'reset')
    if not ok_a:
        return False
    r = a.targets[0].id
    ok_b = (isinstance(b, ast.If) and not b.orelse and isinstance(b.test, ast.Call) and isinstance(b.test.func, ast.Name)
            and b.test.func.id == 'callable' and len(b.test.args) == 1 and isinstance(b.test.args[0], ast.Name)
            and b.test.args[0].id == r and len(b.body) == 1 and isinstance(b.body[0], ast.Expr)
            and isinstance(b.body[0].value, ast.Call) and isinstance(b.body[0].value.func, ast.Name)
            and b.body[0].value.func.id == r and not b.body[0].value.args)
    ok_c = isinstance(c, ast.Return) and isinstance(c.value, ast.Name) and c.value.id == arg
    return ok_b and ok_c


def translate_lel_reset(pp_tree: ast.Module) -> typing.Optional[str]:
    """LimitEmptyLines.reset:  a sequence of  self.<state attribute> = <int literal>  -> record update of the translated state"""
    try:
        fn = find_function(pp_tree, 'LimitEmptyLines', 'reset')
    except Unsupported:
        return None
    if fn.decorator_list or [a.arg for a in fn.args.args] != ['self']:
        raise Unsupported('LimitEmptyLines.reset signature')
    fields = {'_max_empty_lines': None, '_empty_line_count': None}
    for st in _body_without_doc(fn):
        if not (isinstance(st, ast.Assign) and len(st.targets) == 1 and isinstance(st.targets[0], ast.Attribute)
                and isinstance(st.targets[0].value, ast.Name) and st.targets[0].value.id == 'self'
                and st.targets[0].attr in fields and isinstance(st.value, ast.Constant) and isinstance(st.value.value, int)
                and not isinstance(st.value.value, bool)):
            raise Unsupported('LimitEmptyLines.reset body')
        fields[st.targets[0].attr] = st.value.value
    def val(attr):
        f = 'LimitEmptyLines_%s' % attr.lstrip('_')
        return '%s := %s' % (f, ('(%d)%%Z' % fields[attr]) if fields[attr] is not None else '(%s self)' % f)
    return ('Definition LimitEmptyLines_reset (self : LimitEmptyLines_state) : LimitEmptyLines_state :=\n  {| %s; %s |}.'
            % (val('_max_empty_lines'), val('_empty_line_count')))


def gen_uniq() -> typing.Tuple[bool, str]:
    out_path = os.path.join(gen.GEN_DIR, 'Gen_Uniq.v')
    head = (gen.HEADER % 'src/nunavut/lang/_common.py (UniqueNameGenerator), src/nunavut/jinja/__init__.py (_generate_code)'
            + 'From Verif Require Import GenStateDict Gen_LinePP.\nOpen Scope Z_scope.\n\n')
    try:
        common = gen.parse_repo('src/nunavut/lang/_common.py')
        jj = gen.parse_repo('src/nunavut/jinja/__init__.py')
        text, params = translate_uniq(common)
        if params != ['key', 'base_token', 'prefix', 'suffix']:
            raise Unsupported('__call__ parameters are %s' % params)
        facts = generate_code_facts(jj)
        note = ''
        try:
            lel_reset = translate_lel_reset(gen.parse_repo('src/nunavut/_postprocessors.py'))
        except Unsupported as ex:      # fail closed for this function only: the rest of the model still builds
            lel_reset, note = None, 'T2 failed closed on LimitEmptyLines.reset: %s' % ex
        if lel_reset is None:
            facts['generate_code_resets_line_pps'] = False
            lel_reset = '(* LimitEmptyLines.reset: %s *)' % (note or 'no such method')
        facts_coq = '\n'.join('Definition %s : bool := %s.' % (k, 'true' if v else 'false') for k, v in sorted(facts.items()))
    except (Unsupported, SyntaxError, OSError, IndexError) as ex:
        gen.write_if_changed(out_path, head + '(* translator failed closed: %s *)\n' % str(ex).replace('*)', '* )'))
        return False, 'T2 failed closed on UniqueNameGenerator/_generate_code: %s' % ex
    gen.write_if_changed(out_path, head + text + '\n\n(* LimitEmptyLines.reset (called through _reset_line_pp) *)\n' + lel_reset
                         + '\n\n(* structure of CodeGenerator._generate_code *)\n' + facts_coq + '\n')
    if note:
        return False, '%s (%s)' % (note, ', '.join('%s=%s' % kv for kv in sorted(facts.items())))
    return True, 'ok (%s)' % ', '.join('%s=%s' % kv for kv in sorted(facts.items()))


GENERATORS = {'uniq': gen_uniq}


# =====================================================================================================================
# Inventory of memoisation / mutable process state in src/nunavut (C10): Generated/Gen_Sites.v
# =====================================================================================================================
SCAN_EXCLUDE = ('jinja/jinja2/', 'jinja/markupsafe/')      # the bundled third-party engine is C19's subject
VALUE_ANNOTATIONS = {'str', 'int', 'bool', 'float', 'bytes'}
MUTATORS = {'append', 'extend', 'insert', 'add', 'update', 'setdefault', 'pop', 'popitem', 'clear', 'remove', 'discard',
            'appendleft', 'sort', 'reverse', '__setitem__', '__delitem__'}
CONTAINER_CALLS = {'dict', 'list', 'set', 'defaultdict', 'OrderedDict', 'deque', 'Counter', 'bytearray'}


def _coq_str(s: str) -> str:
    return '([%s]%%N : str) (* %s *)' % ('; '.join(str(ord(c)) for c in s), s.replace('*)', '* )'))


def _deco_name(d: ast.expr) -> str:
    if isinstance(d, ast.Call):
        d = d.func
    if isinstance(d, ast.Attribute):
        return d.attr
    if isinstance(d, ast.Name):
        return d.id
    return '?'


def _is_container_value(v: typing.Optional[ast.expr]) -> bool:
    if v is None:
        return False
    if isinstance(v, (ast.Dict, ast.List, ast.Set, ast.ListComp, ast.DictComp, ast.SetComp)):
        return True
    if isinstance(v, ast.Call):
        f = v.func
        n = f.attr if isinstance(f, ast.Attribute) else (f.id if isinstance(f, ast.Name) else '')
        return n in CONTAINER_CALLS
    return False


def _annotation_kind(a: typing.Optional[ast.expr]) -> str:
    """value = compared by value and immutable; object = compared through a user-defined __eq__/__hash__ or identity"""
    if a is None:
        return 'PObject'
    if isinstance(a, ast.Constant) and isinstance(a.value, str):
        try:
            a = ast.parse(a.value, mode='eval').body
        except SyntaxError:
            return 'PObject'
    if isinstance(a, ast.Name) and a.id in VALUE_ANNOTATIONS:
        return 'PValue'
    if isinstance(a, ast.Subscript):     # Optional[str], typing.Optional[int]
        base = a.value.attr if isinstance(a.value, ast.Attribute) else (a.value.id if isinstance(a.value, ast.Name) else '')
        if base == 'Optional':
            return _annotation_kind(a.slice)
    return 'PObject'


def _mutated_names(tree: ast.AST) -> typing.Set[str]:
    """names (module or class level containers) that some code of the module stores into / calls a mutator on"""
    out: typing.Set[str] = set()

    def root(e):
        while isinstance(e, (ast.Attribute, ast.Subscript)):
            if isinstance(e, ast.Attribute) and isinstance(e.value, ast.Name) and e.value.id in ('self', 'cls'):
                return e.attr
            e = e.value
        return e.id if isinstance(e, ast.Name) else None

    for n in ast.walk(tree):
        if isinstance(n, (ast.Assign, ast.AugAssign, ast.AnnAssign, ast.Delete)):
            tgts = n.targets if isinstance(n, (ast.Assign, ast.Delete)) else [n.target]
            for t in tgts:
                if isinstance(t, ast.Subscript) or isinstance(n, ast.AugAssign):
                    r = root(t)
                    if r:
                        out.add(r)
        if isinstance(n, ast.Call) and isinstance(n.func, ast.Attribute) and n.func.attr in MUTATORS:
            r = root(n.func.value)
            if r:
                out.add(r)
    return out


def _function_pure(fn: ast.FunctionDef, module_safe: typing.Set[str]) -> bool:
    """every free name of the body is a parameter, a local, a builtin or a module-level import/def/class/constant"""
    import builtins
    local = {a.arg for a in fn.args.args + fn.args.kwonlyargs}
    for n in ast.walk(fn):
        if isinstance(n, (ast.Global, ast.Nonlocal)):
            return False
        if isinstance(n, ast.Name) and isinstance(n.ctx, ast.Store):
            local.add(n.id)
    for n in ast.walk(fn):
        if isinstance(n, ast.Name) and isinstance(n.ctx, ast.Load):
            if n.id not in local and n.id not in module_safe and not hasattr(builtins, n.id):
                return False
    return True


def _mark_value_mutations(trees, sites: typing.List[dict]) -> None:
    """A memo hands the SAME object to every caller: an attribute store, item store, augmented assignment, setattr or mutator
    call on an object obtained from a memoised callable / cached property / instance memo changes what later callers get.
    Retrieval forms recognised:  x = f(..) | x = obj.f(..) | f(..)<.attr..>  for memoised f;  x = obj.<cached property>;
    x = self.<memo>[k].  (Storing INTO an instance memo is the memo's own operation and is not counted.)"""
    by_simple: typing.Dict[str, typing.List[dict]] = {}
    for st in sites:
        if st['kind'] in ('KLruMethod', 'KLruFunction', 'KCachedProp', 'KInstanceMemo'):
            by_simple.setdefault(st['name'].split('.')[-1], []).append(st)
    calls = {n for n, ss in by_simple.items() if any(x['kind'] in ('KLruMethod', 'KLruFunction') for x in ss)}
    props = {n for n, ss in by_simple.items() if any(x['kind'] == 'KCachedProp' for x in ss)}
    memos = {n for n, ss in by_simple.items() if any(x['kind'] == 'KInstanceMemo' for x in ss)}

    def retrieval(e: ast.expr) -> typing.Optional[str]:
        """simple name of the memo this expression reads its value from (None if it is not such a read)"""
        if isinstance(e, ast.Call):
            f = e.func
            n = f.attr if isinstance(f, ast.Attribute) else (f.id if isinstance(f, ast.Name) else None)
            return n if n in calls else None
        if isinstance(e, ast.Attribute) and e.attr in props:
            return e.attr
        if isinstance(e, ast.Subscript) and isinstance(e.value, ast.Attribute) and e.value.attr in memos:
            return e.value.attr
        return None

    def hit(name: str, rel: str, fn: str, what: str) -> None:
        for st in by_simple.get(name, []):
            st['value_mutated'] = True
            st['mutated_at'].append('%s %s: %s' % (rel, fn, what))

    for rel, tree in trees:
        for fn in [n for n in ast.walk(tree) if isinstance(n, (ast.FunctionDef, ast.AsyncFunctionDef))]:
            bound: typing.Dict[str, str] = {}
            for n in ast.walk(fn):
                if isinstance(n, (ast.Assign, ast.AnnAssign)) and n.value is not None:
                    r = retrieval(n.value)
                    tg = n.targets if isinstance(n, ast.Assign) else [n.target]
                    if r:
                        for t in tg:
                            if isinstance(t, ast.Name):
                                bound[t.id] = r
                if isinstance(n, ast.With):
                    for it in n.items:
                        r = retrieval(it.context_expr)
                        if r and isinstance(it.optional_vars, ast.Name):
                            bound[it.optional_vars.id] = r

            def source(e: ast.expr) -> typing.Optional[str]:
                """memo whose value the object designated by e is (e: the object being written through)"""
                r = retrieval(e)
                if r:
                    return r
                if isinstance(e, ast.Name):
                    return bound.get(e.id)
                if isinstance(e, (ast.Attribute, ast.Subscript)):
                    return source(e.value)
                return None

            for n in ast.walk(fn):
                if isinstance(n, (ast.Assign, ast.AugAssign, ast.AnnAssign, ast.Delete)):
                    tg = n.targets if isinstance(n, (ast.Assign, ast.Delete)) else [n.target]
                    for t in tg:
                        if isinstance(t, (ast.Attribute, ast.Subscript)):
                            if isinstance(t, ast.Subscript) and isinstance(t.value, ast.Attribute) and t.value.attr in memos \
                                    and retrieval(t) == t.value.attr:
                                continue          # self._memo[k] = v : filling the memo
                            src = source(t.value)
                            if src:
                                hit(src, rel, fn.name, 'store to ' + ast.unparse(t))
                if isinstance(n, ast.Call):
                    f = n.func
                    if isinstance(f, ast.Attribute) and f.attr in MUTATORS:
                        src = source(f.value)
                        if src:
                            hit(src, rel, fn.name, 'call ' + ast.unparse(f))
                    if isinstance(f, ast.Name) and f.id in ('setattr', 'delattr') and n.args:
                        src = source(n.args[0])
                        if src:
                            hit(src, rel, fn.name, ast.unparse(n)[:60])


def scan_sites() -> typing.List[dict]:
    root = os.path.join(gen.REPO, 'src', 'nunavut')
    sites: typing.List[dict] = []
    eq_classes: typing.Set[str] = set()
    trees = []
    for d, _, names in sorted(os.walk(root)):
        for n in sorted(names):
            if not n.endswith('.py'):
                continue
            rel = os.path.relpath(os.path.join(d, n), root).replace(os.sep, '/')
            if rel.startswith(SCAN_EXCLUDE):
                continue
            tree = ast.parse(open(os.path.join(d, n), encoding='utf-8').read(), filename=rel)
            trees.append((rel, tree))
            for c in ast.walk(tree):
                if isinstance(c, ast.ClassDef) and any(isinstance(f, ast.FunctionDef) and f.name in ('__eq__', '__hash__') for f in c.body):
                    eq_classes.add(c.name)
    for rel, tree in trees:
        mutated = _mutated_names(tree)
        module_safe: typing.Set[str] = set()
        for st in tree.body:
            if isinstance(st, (ast.Import, ast.ImportFrom)):
                module_safe.update((a.asname or a.name).split('.')[0] for a in st.names)
            elif isinstance(st, (ast.FunctionDef, ast.ClassDef)):
                module_safe.add(st.name)
            elif isinstance(st, (ast.Assign, ast.AnnAssign)):
                tg = st.targets if isinstance(st, ast.Assign) else [st.target]
                if not _is_container_value(st.value):
                    module_safe.update(t.id for t in tg if isinstance(t, ast.Name))

        def add(name, kind, params=(), flag=False, key='', value_mutable=False):
            sites.append({'file': rel, 'name': name, 'kind': kind, 'params': list(params), 'flag': bool(flag), 'key': key,
                          'value_mutable': bool(value_mutable), 'value_mutated': False, 'mutated_at': []})

        def visit_fn(fn: ast.FunctionDef, cls: typing.Optional[ast.ClassDef]):
            decos = [_deco_name(x) for x in fn.decorator_list]
            qual = (cls.name + '.' if cls else '') + fn.name
            if any(x in ('lru_cache', 'cache') for x in decos):
                if fn.args.vararg or fn.args.kwarg:
                    raise Unsupported('%s: memoised function with *args/**kwargs' % qual)
                params = []
                args = fn.args.args + fn.args.kwonlyargs
                is_method = cls is not None and not any(x in ('staticmethod', 'classmethod') for x in decos)
                for i, a in enumerate(args):
                    if i == 0 and is_method:
                        bases = {b.id if isinstance(b, ast.Name) else getattr(b, 'attr', '') for b in cls.bases}
                        params.append((a.arg, 'PSelfByEq' if (cls.name in eq_classes or bases & eq_classes) else 'PSelfIdentity'))
                    else:
                        params.append((a.arg, _annotation_kind(a.annotation)))
                vm = _annotation_kind(fn.returns) != 'PValue'
                if is_method:
                    add(qual, 'KLruMethod', params, value_mutable=vm)
                else:
                    add(qual, 'KLruFunction', params, flag=_function_pure(fn, module_safe), value_mutable=vm)
            if 'cached_property' in decos:
                add(qual, 'KCachedProp', value_mutable=_annotation_kind(fn.returns) != 'PValue')
            for n in ast.walk(fn):
                if isinstance(n, ast.Global):
                    for g in n.names:
                        add(qual + ':' + g, 'KModuleGlobal')
                # self.<...cache/memo...> = <container>
                if isinstance(n, (ast.Assign, ast.AnnAssign)):
                    tg = n.targets if isinstance(n, ast.Assign) else [n.target]
                    for t in tg:
                        if (isinstance(t, ast.Attribute) and isinstance(t.value, ast.Name) and t.value.id == 'self'
                                and ('cache' in t.attr.lower() or 'memo' in t.attr.lower()) and _is_container_value(n.value)):
                            keys = sorted({ast.unparse(s.slice) for s in ast.walk(cls or tree) if isinstance(s, ast.Subscript)
                                           and isinstance(s.value, ast.Attribute) and s.value.attr == t.attr})
                            add((cls.name + '.' if cls else '') + t.attr, 'KInstanceMemo', key=' | '.join(keys))
                        # cls.<attr> = ...   (class-level singleton)
                        if (isinstance(t, ast.Attribute) and isinstance(t.value, ast.Name) and cls is not None
                                and (t.value.id == 'cls' or t.value.id == cls.name)):
                            add(cls.name + '.' + t.attr, 'KClassSingleton')
                # if self.X is None: self.X = ...
                if (isinstance(n, ast.If) and isinstance(n.test, ast.Compare) and len(n.test.ops) == 1
                        and isinstance(n.test.ops[0], ast.Is) and isinstance(n.test.left, ast.Attribute)
                        and isinstance(n.test.left.value, ast.Name) and n.test.left.value.id == 'self'
                        and isinstance(n.test.comparators[0], ast.Constant) and n.test.comparators[0].value is None):
                    attr = n.test.left.attr
                    if any(isinstance(m, (ast.Assign, ast.AnnAssign)) and any(
                            isinstance(t, ast.Attribute) and isinstance(t.value, ast.Name) and t.value.id == 'self' and t.attr == attr
                            for t in (m.targets if isinstance(m, ast.Assign) else [m.target])) for b in n.body for m in ast.walk(b)):
                        add((cls.name + '.' if cls else '') + attr, 'KInstanceLazy')

        for st in tree.body:
            if isinstance(st, ast.FunctionDef):
                visit_fn(st, None)
            elif isinstance(st, ast.ClassDef):
                for m in ast.walk(st):
                    if isinstance(m, ast.FunctionDef):
                        visit_fn(m, st)
                for b in st.body:
                    if isinstance(b, (ast.Assign, ast.AnnAssign)) and _is_container_value(b.value):
                        for t in (b.targets if isinstance(b, ast.Assign) else [b.target]):
                            if isinstance(t, ast.Name):
                                add(st.name + '.' + t.id, 'KClassContainer', flag=t.id in mutated)
            elif isinstance(st, (ast.Assign, ast.AnnAssign)) and _is_container_value(st.value):
                for t in (st.targets if isinstance(st, ast.Assign) else [st.target]):
                    if isinstance(t, ast.Name) and t.id != '__all__':
                        add(t.id, 'KModuleContainer', flag=t.id in mutated)
    _mark_value_mutations(trees, sites)
    # de-duplicate (a lazy field may be tested in several methods)
    seen, out = set(), []
    for s in sites:
        k = (s['file'], s['name'], s['kind'])
        if k not in seen:
            seen.add(k)
            out.append(s)
    return out


def uniq_filters() -> typing.List[dict]:
    """every template filter that hands out unique names: language, filter name, the constant arguments it passes to the
    generator, and how the filter is registered (a plain filter is constant-folded by Jinja at template compile time)"""
    out = []
    root = os.path.join(gen.REPO, 'src', 'nunavut', 'lang')
    for lang in sorted(os.listdir(root)):
        p = os.path.join(root, lang, '__init__.py')
        if not os.path.isfile(p) or lang.startswith('_'):
            continue
        tree = ast.parse(open(p, encoding='utf-8').read())
        for fn in tree.body:
            if not isinstance(fn, ast.FunctionDef):
                continue
            for n in ast.walk(fn):
                if (isinstance(n, ast.Call) and isinstance(n.func, ast.Call) and isinstance(n.func.func, ast.Attribute)
                        and n.func.func.attr == 'get_instance' and isinstance(n.func.func.value, ast.Name)
                        and n.func.func.value.id == 'UniqueNameGenerator'):
                    if len(n.args) != 4 or n.keywords or not all(isinstance(n.args[i], ast.Constant) and isinstance(n.args[i].value, str)
                                                                  for i in (0, 2, 3)):
                        raise Unsupported('%s.%s: unique-name call with non-literal key/prefix/suffix' % (lang, fn.name))
                    if not fn.name.startswith('filter_'):
                        raise Unsupported('%s.%s: unique names handed out by a non-filter' % (lang, fn.name))
                    decos = [_deco_name(d) for d in fn.decorator_list]
                    # the re-binding form of a decorator:  f = template_volatile_filter(f)  at module level, after the def
                    for st in tree.body:
                        if (isinstance(st, ast.Assign) and len(st.targets) == 1 and isinstance(st.targets[0], ast.Name)
                                and st.targets[0].id == fn.name and isinstance(st.value, ast.Call) and len(st.value.args) == 1
                                and not st.value.keywords and isinstance(st.value.args[0], ast.Name) and st.value.args[0].id == fn.name
                                and st.lineno > fn.lineno):
                            decos.append(_deco_name(st.value.func))
                        elif (isinstance(st, (ast.Assign, ast.AnnAssign)) and getattr(st, 'lineno', 0) > fn.lineno
                              and any(isinstance(t, ast.Name) and t.id == fn.name
                                      for t in (st.targets if isinstance(st, ast.Assign) else [st.target]))):
                            raise Unsupported('%s.%s is re-bound at module level in a form the scanner does not know' % (lang, fn.name))
                    reg = ('volatile' if 'template_volatile_filter' in decos else 'context' if 'template_context_filter' in decos
                           else 'environment' if 'template_environment_filter' in decos else 'language' if 'template_language_filter' in decos
                           else 'plain')
                    out.append({'lang': lang, 'filter': fn.name[len('filter_'):], 'key': n.args[0].value, 'prefix': n.args[2].value,
                                'suffix': n.args[3].value, 'registration': reg})
    return out


def scan_lexer_key() -> typing.Tuple[typing.List[str], typing.List[str]]:
    """The bundled engine keeps ONE process-wide cache of Lexer objects (jinja2/lexer.py _lexer_cache) shared by all environments.
    Returns (attributes of the environment that make up the cache key in get_lexer, attributes of the environment that
    Lexer.__init__ reads).  Fails closed on any other shape of get_lexer."""
    tree = gen.parse_repo('src/nunavut/jinja/jinja2/lexer.py')
    gl = [f for f in tree.body if isinstance(f, ast.FunctionDef) and f.name == 'get_lexer']
    lx = [c for c in tree.body if isinstance(c, ast.ClassDef) and c.name == 'Lexer']
    if len(gl) != 1 or len(lx) != 1 or len(gl[0].args.args) != 1:
        raise Unsupported('jinja2/lexer.py: get_lexer / Lexer not found')
    env = gl[0].args.args[0].arg
    key_assign = [st for st in gl[0].body if isinstance(st, ast.Assign) and len(st.targets) == 1
                  and isinstance(st.targets[0], ast.Name) and st.targets[0].id == 'key']
    if len(key_assign) != 1 or not isinstance(key_assign[0].value, ast.Tuple):
        raise Unsupported('jinja2/lexer.py get_lexer: the cache key is not a tuple display of environment attributes')
    key = []
    for e in key_assign[0].value.elts:
        if not (isinstance(e, ast.Attribute) and isinstance(e.value, ast.Name) and e.value.id == env):
            raise Unsupported('jinja2/lexer.py get_lexer: key component %s' % ast.unparse(e))
        key.append(e.attr)
    uses = [n for n in ast.walk(gl[0]) if isinstance(n, ast.Subscript) and isinstance(n.value, ast.Name) and n.value.id == '_lexer_cache']
    gets = [n for n in ast.walk(gl[0]) if isinstance(n, ast.Call) and isinstance(n.func, ast.Attribute) and n.func.attr == 'get'
            and isinstance(n.func.value, ast.Name) and n.func.value.id == '_lexer_cache']
    if not uses or not gets or any(not (isinstance(u.slice, ast.Name) and u.slice.id == 'key') for u in uses) \
            or any(not (len(g.args) == 1 and isinstance(g.args[0], ast.Name) and g.args[0].id == 'key') for g in gets):
        raise Unsupported('jinja2/lexer.py get_lexer: _lexer_cache is not read and written under `key`')
    init = [f for f in lx[0].body if isinstance(f, ast.FunctionDef) and f.name == '__init__']
    if len(init) != 1 or len(init[0].args.args) != 2:
        raise Unsupported('jinja2/lexer.py Lexer.__init__ signature')
    envp = init[0].args.args[1].arg
    reads = sorted({n.attr for n in ast.walk(init[0]) if isinstance(n, ast.Attribute) and isinstance(n.value, ast.Name) and n.value.id == envp})
    for n in ast.walk(init[0]):          # the environment handed on or kept would defeat the scan
        if isinstance(n, ast.Name) and n.id == envp and isinstance(n.ctx, ast.Load):
            pass
    for f in lx[0].body:                 # no other method may look at an environment
        if isinstance(f, ast.FunctionDef) and f.name != '__init__':
            if any(isinstance(n, ast.Attribute) and n.attr == 'environment' for n in ast.walk(f)):
                raise Unsupported('jinja2/lexer.py Lexer.%s reads an environment' % f.name)
    return key, reads


def scan_template_toplevel() -> typing.List[dict]:
    """Every packaged template that is the target of a context-less {% import %}/{% from %} (Jinja evaluates it ONCE per environment
    and keeps the module): each top-level {% set %} (outside macro / call / set-block bodies) with whether its right-hand side
    creates a mutable object -- namespace(...), a list/dict display, dict(...)/list(...)/set(...) -- and every top-level {% do %}."""
    out: typing.List[dict] = []
    troot = os.path.join(gen.REPO, 'src', 'nunavut', 'lang')
    imp = re.compile(r'{%-?\s*(?:import|from)\s+[\'"]([^\'"]+)[\'"]([^%]*)%}')
    for d, _, fns in sorted(os.walk(troot)):
        j2 = sorted(n for n in fns if n.endswith('.j2'))
        texts = {n: open(os.path.join(d, n), encoding='utf-8').read() for n in j2}
        targets = set()
        for n, t in texts.items():
            for name, rest in imp.findall(t):
                if 'with context' not in rest:
                    targets.add(name)
        for n in sorted(targets & set(j2)):
            t = re.sub(r'{#.*?#}', '', texts[n], flags=re.S)
            for blk in ('macro', 'call', 'filter'):
                t = re.sub(r'{%%-?\s*%s\b.*?{%%-?\s*end%s\s*-?%%}' % (blk, blk), '', t, flags=re.S)
            t = re.sub(r'{%-?\s*set\s+[\w.]+\s*-?%}.*?{%-?\s*endset\s*-?%}', '', t, flags=re.S)      # block assignment: a string
            rel = os.path.relpath(os.path.join(d, n), os.path.join(gen.REPO, 'src', 'nunavut')).replace(os.sep, '/')
            for m in re.finditer(r'{%-?\s*(set|do)\s+(.*?)-?%}', t, flags=re.S):
                kind, body = m.group(1), ' '.join(m.group(2).split())
                rhs = body.split('=', 1)[1] if (kind == 'set' and '=' in body) else body
                mutable = kind == 'do' or bool(re.search(r'namespace\s*\(|\[|\{|\b(dict|list|set|cycler|joiner)\s*\(', rhs))
                out.append({'file': rel, 'stmt': (kind + ' ' + body)[:80], 'mutable': mutable})
            if not any(x['file'] == rel for x in out):
                out.append({'file': rel, 'stmt': '(no top-level set)', 'mutable': False})
    return out


def classified_function_digests(stores, wreads) -> typing.List[typing.Tuple[str, str, str]]:
    """sha256 (first 16 hex digits) of the shape_pin-normalised body of every function that has a render-phase store or a wide
    read: the hand classifications of GenStateSites.v were made for THESE bodies"""
    import hashlib
    from . import shape_pin
    fns = sorted({(x['file'], x['fn']) for x in stores if x['phase'] == 'SRender'}
                 | {(x['file'], x['where']) for x in wreads if x['kind'] == 'WPython'})
    res = []
    for f, q in fns:
        try:
            dump = shape_pin.normalized_dump('src/nunavut/' + f, q)
            res.append((f, q, hashlib.sha256(dump.encode()).hexdigest()[:16]))
        except Exception as ex:  # noqa
            # a name defined more than once in its scope (property getter + setter): digest of all its definitions, in order
            try:
                tree = gen.parse_repo('src/nunavut/' + f)
                node: ast.AST = tree
                parts = q.split('.')
                for part in parts[:-1]:
                    node = [c for c in ast.iter_child_nodes(node) if isinstance(c, (ast.ClassDef, ast.FunctionDef)) and c.name == part][0]
                defs = [c for c in ast.iter_child_nodes(node) if isinstance(c, (ast.FunctionDef, ast.AsyncFunctionDef)) and c.name == parts[-1]]
                if len(defs) < 2:
                    raise
                text = ''
                for dfn in defs:
                    body = [st for st in dfn.body if not (isinstance(st, ast.Expr) and isinstance(st.value, ast.Constant)
                                                          and isinstance(st.value.value, str))]
                    text += '|' + ','.join(_deco_name(x) for x in dfn.decorator_list) + ':' + ''.join(ast.dump(st) for st in body)
                res.append((f, q, hashlib.sha256(text.encode()).hexdigest()[:16]))
            except Exception:  # noqa  (cannot be pinned: the digest names the reason, which is not in the reviewed list)
                res.append((f, q, 'unpinnable: %s' % type(ex).__name__))
    return res


def gen_sites() -> typing.Tuple[bool, str]:
    out_path = os.path.join(gen.GEN_DIR, 'Gen_Sites.v')
    head = (gen.HEADER % 'src/nunavut/**/*.py (memoisation and mutable process state; bundled jinja2/markupsafe excluded), lang/*/__init__.py (unique-name filters)'
            + 'From Verif Require Import GenStateSites.\nOpen Scope N_scope.\n\n')
    try:
        sites = scan_sites()
        filters = uniq_filters()
    except (Unsupported, SyntaxError, OSError) as ex:
        gen.write_if_changed(out_path, head + '(* scanner failed closed: %s *)\n' % str(ex).replace('*)', '* )'))
        return False, 'state-site scanner failed closed: %s' % ex
    try:
        resets = generate_code_facts(gen.parse_repo('src/nunavut/jinja/__init__.py')).get('generate_code_resets_uniq', False)
    except (Unsupported, SyntaxError, OSError, IndexError):
        resets = False
    for s in sites:      # a class-level singleton is tolerable only if _generate_code replaces it at the start of every file
        if s['kind'] == 'KClassSingleton':
            s['flag'] = bool(resets) and s['name'] == 'UniqueNameGenerator._singleton'
    rows = []
    for s in sites:
        ps = '; '.join('(%s, %s)' % (_coq_str(n), k) for n, k in s['params'])
        rows.append('  {| s_file := %s;\n     s_name := %s;\n     s_kind := %s; s_params := [%s]; s_flag := %s;\n     s_key := %s;\n'
                    '     s_value_mutable := %s; s_value_mutated := %s%s |}'
                    % (_coq_str(s['file']), _coq_str(s['name']), s['kind'], ps, 'true' if s['flag'] else 'false', _coq_str(s['key']),
                       'true' if s['value_mutable'] else 'false', 'true' if s['value_mutated'] else 'false',
                       (' (* %s *)' % '; '.join(s['mutated_at'])[:200].replace('*)', '* )')) if s['mutated_at'] else ''))
    frows = ['  {| f_lang := %s; f_filter := %s; f_key := %s; f_prefix := %s; f_suffix := %s; f_reg := %s |}'
             % (_coq_str(f['lang']), _coq_str(f['filter']), _coq_str(f['key']), _coq_str(f['prefix']), _coq_str(f['suffix']),
                'R' + f['registration'].capitalize()) for f in filters]
    try:
        stores = scan_stores()
    except (Unsupported, SyntaxError, OSError) as ex:
        gen.write_if_changed(out_path, head + '(* store scanner failed closed: %s *)\n' % str(ex).replace('*)', '* )'))
        return False, 'store scanner failed closed: %s' % ex
    try:
        mobjs = scan_module_objects()
        ekws = scan_env_kwargs()
    except (Unsupported, SyntaxError, OSError) as ex:
        gen.write_if_changed(out_path, head + '(* module-object scanner failed closed: %s *)\n' % str(ex).replace('*)', '* )'))
        return False, 'module-object / Environment-argument scanner failed closed: %s' % ex
    mrows = ['  {| mo_file := %s;\n     mo_name := %s; mo_kind := %s;\n     mo_made_by := %s; mo_mutated := %s;\n     mo_escapes := [%s] |}'
             % (_coq_str(x['file']), _coq_str(x['name']), x['vkind'], _coq_str(x['made_by']), 'true' if x['mutated'] else 'false',
                '; '.join(_coq_str(e) for e in x['escapes'])) for x in mobjs]
    erows = ['  {| ek_file := %s; ek_where := %s;\n     ek_kw := %s; ek_vkind := %s |}'
             % (_coq_str(x['file']), _coq_str(x['where']), _coq_str(x['kw']), x['vkind']) for x in ekws]
    try:
        lkey, lreads = scan_lexer_key()
    except (Unsupported, SyntaxError, OSError) as ex:
        gen.write_if_changed(out_path, head + '(* lexer-key scanner failed closed: %s *)\n' % str(ex).replace('*)', '* )'))
        return False, 'lexer-key scanner failed closed: %s' % ex
    try:
        wreads = scan_wide_reads()
    except (Unsupported, SyntaxError, OSError) as ex:
        gen.write_if_changed(out_path, head + '(* wide-read scanner failed closed: %s *)\n' % str(ex).replace('*)', '* )'))
        return False, 'wide-read scanner failed closed: %s' % ex
    wrows = ['  {| w_file := %s;\n     w_where := %s;\n     w_name := %s; w_kind := %s |}'
             % (_coq_str(x['file']), _coq_str(x['where']), _coq_str(x['name']), x['kind']) for x in wreads]
    try:
        tops = scan_template_toplevel()
    except (Unsupported, SyntaxError, OSError) as ex:
        gen.write_if_changed(out_path, head + '(* template scanner failed closed: %s *)\n' % str(ex).replace('*)', '* )'))
        return False, 'template top-level scanner failed closed: %s' % ex
    digs = classified_function_digests(stores, wreads)
    trows = ['  (%s, %s, %s)' % (_coq_str(x['file']), _coq_str(x['stmt']), 'true' if x['mutable'] else 'false') for x in tops]
    drows = ['  (%s, %s, %s)' % (_coq_str(a), _coq_str(b), _coq_str(c)) for a, b, c in digs]
    srows = ['  {| st_file := %s;\n     st_fn := %s;\n     st_target := %s; st_root := %s; st_phase := %s |}'
             % (_coq_str(x['file']), _coq_str(x['fn']), _coq_str(x['target']), x['root'], x['phase']) for x in stores]
    text = ('(* bundled jinja2/lexer.py: the process-wide _lexer_cache *)\n'
            'Definition g_lexer_key : list str :=\n [' + ';\n  '.join(_coq_str(x) for x in lkey) + '].\n'
            'Definition g_lexer_reads : list str :=\n [' + ';\n  '.join(_coq_str(x) for x in lreads) + '].\n\n'
            '(* top level of every packaged template that is imported without context: (file, statement, creates a mutable object) *)\n'
            'Definition g_tpl_toplevel : list (str * str * bool) :=\n [\n' + ';\n'.join(trows) + '\n ].\n\n'
            '(* shape digests of the functions whose stores / wide reads are classified by hand *)\n'
            'Definition g_fn_digests : list (str * str * str) :=\n [\n' + ';\n'.join(drows) + '\n ].\n\n'
            'Definition g_wide_reads : list wread :=\n [\n' + ';\n'.join(wrows) + '\n ].\n\n'
            'Definition g_modobjs : list modobj :=\n [\n' + ';\n'.join(mrows) + '\n ].\n\n'
            'Definition g_env_kwargs : list envkw :=\n [\n' + ';\n'.join(erows) + '\n ].\n\n'
            'Definition g_stores : list store :=\n [\n' + ';\n'.join(srows) + '\n ].\n\n'
            'Definition g_sites : list site :=\n [\n' + ';\n'.join(rows) + '\n ].\n\n'
            'Definition g_uniq_filters : list uniq_filter :=\n [\n' + ';\n'.join(frows) + '\n ].\n')
    gen.write_if_changed(out_path, head + text)
    return True, ('ok (%d memo sites, %d stores on long-lived objects of which %d in the render phase, %d module/class-level objects, '
                  '%d jinja2 Environment arguments, %d unique-name filters)') % (
        len(sites), len(stores), sum(1 for x in stores if x['phase'] == 'SRender'), len(mobjs), len(ekws), len(filters))


GENERATORS['sites'] = gen_sites


# =====================================================================================================================
# Inventory BY EFFECT (C10): every store on an object that outlives a file -- attribute store, item store, augmented
# assignment, del, setattr/delattr, mutating method call -- on self / cls / a module global / a closed-over variable (or on
# a local alias of something reached from them), in any function other than __init__, in every module of src/nunavut
# except the bundled jinja2/markupsafe.  Each store is tagged with the PHASE of its function: SRender if the function is
# reachable (name-based call graph, over-approximate) from generate_all / the line post-processors' __call__ / any template
# filter, test or uses-query, SSetup otherwise.
# =====================================================================================================================
STORE_MUTATORS = MUTATORS | {'popleft', 'rotate', 'write', 'writelines', 'seek', 'truncate'}
RENDER_ROOT_NAMES = {'generate_all', '__call__'}
TEMPLATE_REACHABLE_CLASSES = {'Namespace', 'LanguageTemplateNamespace', 'Dependencies', 'LanguageContext', 'LanguageConfig',
                              'IncludeGenerator', 'TokenEncoder', 'DependencyBuilder'}
RENDER_ROOT_PREFIXES = ('filter_', 'is_', 'uses_')


def _path_of(e: ast.expr, alias: typing.Dict[str, str]) -> typing.Tuple[typing.Optional[str], str]:
    """(root name, dotted path without subscript indices) of the object designated by e"""
    parts: typing.List[str] = []
    while True:
        if isinstance(e, ast.Attribute):
            parts.append('.' + e.attr)
            e = e.value
        elif isinstance(e, ast.Subscript):
            parts.append('[]')
            e = e.value
        elif isinstance(e, ast.Call) and isinstance(e.func, ast.Attribute):
            parts.append('.%s()' % e.func.attr)
            e = e.func.value
        else:
            break
    if not isinstance(e, ast.Name):
        return None, ''
    root = e.id
    tail = ''.join(reversed(parts))
    if root in alias:
        return alias[root].split('.')[0].split('[')[0], alias[root] + tail
    return root, root + tail


def _collect_functions():
    """(every function of src/nunavut with its enclosing-scope names and module globals, indices of the render-phase ones)"""
    root_dir = os.path.join(gen.REPO, 'src', 'nunavut')
    mods = []
    for d, _, names in sorted(os.walk(root_dir)):
        for n in sorted(names):
            rel = os.path.relpath(os.path.join(d, n), root_dir).replace(os.sep, '/')
            if n.endswith('.py') and not rel.startswith(SCAN_EXCLUDE):
                mods.append((rel, ast.parse(open(os.path.join(d, n), encoding='utf-8').read(), filename=rel)))
    # ---- functions, name-based call graph, render-phase reachability
    funcs: typing.List[typing.Tuple[str, str, ast.FunctionDef, typing.Set[str], typing.Set[str]]] = []

    def collect(rel, body, prefix, encl, mod_globals):
        for st in body:
            if isinstance(st, ast.ClassDef):
                collect(rel, st.body, prefix + st.name + '.', encl, mod_globals)
            elif isinstance(st, (ast.FunctionDef, ast.AsyncFunctionDef)):
                funcs.append((rel, prefix + st.name, st, set(encl), mod_globals))
                inner = {n.id for n in ast.walk(st) if isinstance(n, ast.Name) and isinstance(n.ctx, ast.Store)}
                inner |= {a.arg for a in st.args.args + st.args.kwonlyargs}
                nested = [x for x in st.body if isinstance(x, (ast.FunctionDef, ast.AsyncFunctionDef, ast.ClassDef))]
                for x in ast.walk(st):
                    if x is not st and isinstance(x, (ast.FunctionDef, ast.AsyncFunctionDef)) and x not in nested:
                        nested.append(x)
                collect(rel, nested, prefix + st.name + '.', encl | inner, mod_globals)

    for rel, tree in mods:
        mg = {t.id for st in tree.body if isinstance(st, (ast.Assign, ast.AnnAssign))
              for t in (st.targets if isinstance(st, ast.Assign) else [st.target]) if isinstance(t, ast.Name)}
        collect(rel, tree.body, '', set(), mg)
    seen_q = set()
    uniq_funcs = []
    for f in funcs:
        if (f[0], f[1], f[2].lineno) not in seen_q:
            seen_q.add((f[0], f[1], f[2].lineno))
            uniq_funcs.append(f)
    funcs = uniq_funcs
    by_name: typing.Dict[str, typing.List[int]] = {}
    for i, f in enumerate(funcs):
        by_name.setdefault(f[2].name, []).append(i)
    calls: typing.List[typing.Set[str]] = []
    for f in funcs:
        cs = set()
        for n in ast.walk(f[2]):
            if isinstance(n, ast.Call):
                g = n.func
                cs.add(g.attr if isinstance(g, ast.Attribute) else (g.id if isinstance(g, ast.Name) else ''))
            elif isinstance(n, ast.Attribute):
                cs.add(n.attr)            # properties (getters and setters) are calls too
        calls.append(cs)
    render: typing.Set[int] = set()
    todo = [i for i, f in enumerate(funcs) if f[2].name in RENDER_ROOT_NAMES or f[2].name.startswith(RENDER_ROOT_PREFIXES)]
    # objects a TEMPLATE can reach directly (T and what hangs off it, the `ln`/`options`/`nunavut` globals): every public method or
    # property of their classes is callable from a template without any Python caller
    for i, f in enumerate(funcs):
        cls_name = f[1].split('.')[0] if '.' in f[1] else ''
        if (cls_name.endswith('Language') or cls_name in TEMPLATE_REACHABLE_CLASSES) and f[1].count('.') == 1 \
                and not f[2].name.startswith('_'):
            todo.append(i)
    while todo:
        i = todo.pop()
        if i in render:
            continue
        render.add(i)
        for c in calls[i]:
            for j in by_name.get(c, []):
                if j not in render and funcs[j][2].name != '__init__':
                    todo.append(j)
    return funcs, render


def scan_stores() -> typing.List[dict]:
    funcs, render = _collect_functions()
    # ---- stores
    out: typing.List[dict] = []
    for i, (rel, qual, fn, encl, mod_globals) in enumerate(funcs):
        if fn.name == '__init__':
            continue
        own = [n for n in ast.walk(fn)]
        nested_nodes = set()
        for n in own:
            if n is not fn and isinstance(n, (ast.FunctionDef, ast.AsyncFunctionDef)):
                nested_nodes.update(id(x) for x in ast.walk(n) if x is not n)
        params = {a.arg for a in fn.args.args + fn.args.kwonlyargs}
        locs = {n.id for n in own if isinstance(n, ast.Name) and isinstance(n.ctx, ast.Store) and id(n) not in nested_nodes}
        declared_global = {g for n in own if isinstance(n, (ast.Global, ast.Nonlocal)) for g in n.names}
        alias: typing.Dict[str, str] = {}
        for n in own:       # local = <expression reached from self / cls / a global / a closed-over variable>
            if isinstance(n, (ast.Assign, ast.AnnAssign)) and n.value is not None and id(n) not in nested_nodes:
                r, path = _path_of(n.value, {})
                if r is None:
                    continue
                long_lived = r in ('self', 'cls') or (r not in locs and r not in params and (r in encl or r in mod_globals))
                # (the result of a call on a long-lived object may be -- or expose -- part of that object: aliased too, except
                # for constructors of fresh containers)
                fresh = isinstance(n.value, ast.Call) and _callee_name(n.value.func) in COPYING_CALLS
                if long_lived and not fresh:
                    for t in (n.targets if isinstance(n, ast.Assign) else [n.target]):
                        if isinstance(t, ast.Name):
                            alias[t.id] = path
        # loop variables, `with` targets and comprehension variables ranging over / bound to something long-lived
        binders: typing.List[typing.Tuple[ast.expr, ast.expr]] = []
        for n in own:
            if id(n) in nested_nodes:
                continue
            if isinstance(n, (ast.For, ast.AsyncFor)):
                binders.append((n.target, n.iter))
            elif isinstance(n, ast.comprehension):
                binders.append((n.target, n.iter))
            elif isinstance(n, (ast.With, ast.AsyncWith)):
                binders.extend((it.optional_vars, it.context_expr) for it in n.items if it.optional_vars is not None)
        for tgt, src in binders:
            e = src
            while isinstance(e, ast.Call) and _callee_name(e.func) in ('enumerate', 'reversed', 'sorted', 'list', 'iter', 'zip', 'items',
                                                                          'values', 'keys') and (e.args or isinstance(e.func, ast.Attribute)):
                e = e.args[0] if e.args else e.func.value
            r, path = _path_of(e, alias)
            if r is None:
                continue
            if r in ('self', 'cls') or (r not in locs and r not in params and (r in encl or r in mod_globals)) or r in alias:
                for t in ast.walk(tgt):
                    if isinstance(t, ast.Name):
                        alias[t.id] = path + '[]'

        def root_kind(r: typing.Optional[str]) -> typing.Optional[str]:
            if r is None:
                return None
            if r == 'self':
                return 'RSelf'
            if r == 'cls':
                return 'RCls'
            if r in declared_global:
                return 'RGlobal'
            if r in locs or r in params:
                return None
            if r in encl:
                return 'RClosure'
            if r in mod_globals:
                return 'RGlobal'
            return None

        def add(e: ast.expr, suffix: str = ''):
            r, path = _path_of(e, alias)
            k = root_kind(r)
            if k:
                out.append({'file': rel, 'fn': qual, 'target': path + suffix, 'root': k,
                            'phase': 'SRender' if i in render else 'SSetup'})

        for n in own:
            if id(n) in nested_nodes:
                continue
            if isinstance(n, (ast.Assign, ast.AugAssign, ast.AnnAssign, ast.Delete)):
                for t in (n.targets if isinstance(n, (ast.Assign, ast.Delete)) else [n.target]):
                    if isinstance(t, (ast.Attribute, ast.Subscript)):
                        add(t)
                    elif isinstance(t, ast.Name) and t.id in declared_global:
                        out.append({'file': rel, 'fn': qual, 'target': t.id, 'root': 'RGlobal',
                                    'phase': 'SRender' if i in render else 'SSetup'})
            elif isinstance(n, ast.Call):
                f = n.func
                if isinstance(f, ast.Attribute) and f.attr in STORE_MUTATORS:
                    add(f.value, '.%s()' % f.attr)
                elif isinstance(f, ast.Name) and f.id in ('setattr', 'delattr') and n.args:
                    nm = n.args[1].value if len(n.args) > 1 and isinstance(n.args[1], ast.Constant) else '*'
                    add(n.args[0], '.<%s %s>' % (f.id, nm))
                elif isinstance(f, ast.Name) and f.id == 'next' and n.args:          # advancing an iterator / counter
                    add(n.args[0], '.<next>')
                elif isinstance(f, ast.Attribute) and f.attr in ('send', '__next__', 'throw', 'seed', 'shuffle'):
                    add(f.value, '.%s()' % f.attr)
    out.extend(_param_mutations(funcs))
    seen, res = set(), []
    for s in out:
        k = (s['file'], s['fn'], s['target'])
        if k not in seen:
            seen.add(k)
            res.append(s)
    return res


COPYING_CALLS = {'list', 'dict', 'set', 'tuple', 'frozenset', 'sorted', 'copy', 'deepcopy', 'OrderedDict', 'deque', 'str', 'join'}


def _param_mutations(funcs) -> typing.List[dict]:
    """In-place mutation of an object the CALLER owns, in any function INCLUDING __init__: `+=`/`|=`/..., item store, del, mutator
    call on a parameter (other than self/cls), on a local alias of a parameter, or on a self attribute that was bound to a
    parameter in the same function -- `x = p`, `x = p or []`, `x = p if c else d` alias p; `list(p)`, `p.copy()`, `p + q`,
    `[*p]`, a comprehension do not.  The object may be shared (a class-level list passed by reference): phase SRender, so the
    store has to be classified by hand whatever the function is."""
    res: typing.List[dict] = []

    def may_be(e: ast.expr, names: typing.Set[str]) -> typing.Optional[str]:
        """the parameter/alias name e may evaluate to (identity, not a copy)"""
        if isinstance(e, ast.Name) and e.id in names:
            return e.id
        if isinstance(e, ast.BoolOp):
            for v in e.values:
                r = may_be(v, names)
                if r:
                    return r
        if isinstance(e, ast.IfExp):
            return may_be(e.body, names) or may_be(e.orelse, names)
        if isinstance(e, ast.NamedExpr):
            return may_be(e.value, names)
        return None

    for rel, qual, fn, _encl, _mg in funcs:
        params = {a.arg: a for a in fn.args.args + fn.args.kwonlyargs + ([fn.args.vararg] if fn.args.vararg else [])
                  + ([fn.args.kwarg] if fn.args.kwarg else []) if a.arg not in ('self', 'cls')}
        shared = {n for n, a in params.items() if _annotation_kind(a.annotation) != 'PValue'}
        if not shared:
            continue
        origin: typing.Dict[str, str] = {n: n for n in shared}          # local name -> parameter it may be
        self_attr: typing.Dict[str, str] = {}                            # self attribute -> parameter it may be
        body_nodes = list(ast.walk(fn))
        for _ in range(2):                                               # aliases of aliases
            for n in body_nodes:
                if isinstance(n, (ast.Assign, ast.AnnAssign)) and n.value is not None:
                    r = may_be(n.value, set(origin))
                    for t in (n.targets if isinstance(n, ast.Assign) else [n.target]):
                        if isinstance(t, ast.Name):
                            if r:
                                origin[t.id] = origin[r]
                        elif r and isinstance(t, ast.Attribute) and isinstance(t.value, ast.Name) and t.value.id == 'self':
                            self_attr[t.attr] = origin[r]

        def owner(e: ast.expr) -> typing.Optional[typing.Tuple[str, str]]:
            if isinstance(e, ast.Name) and e.id in origin:
                return origin[e.id], e.id
            if isinstance(e, ast.Attribute) and isinstance(e.value, ast.Name) and e.value.id == 'self' and e.attr in self_attr:
                return self_attr[e.attr], 'self.' + e.attr
            return None

        def add(e: ast.expr, how: str):
            o = owner(e)
            if o:
                res.append({'file': rel, 'fn': qual, 'target': '<param %s> via %s%s' % (o[0], o[1], how), 'root': 'RParam',
                            'phase': 'SRender'})

        for n in body_nodes:
            if isinstance(n, ast.AugAssign):
                add(n.target, ' ' + type(n.op).__name__ + '=')
                if isinstance(n.target, ast.Subscript):
                    add(n.target.value, '[] ' + type(n.op).__name__ + '=')
            elif isinstance(n, (ast.Assign, ast.AnnAssign, ast.Delete)):
                for t in (n.targets if isinstance(n, (ast.Assign, ast.Delete)) else [n.target]):
                    if isinstance(t, ast.Subscript):
                        add(t.value, '[]')
                    elif isinstance(t, ast.Attribute) and not (isinstance(t.value, ast.Name) and t.value.id == 'self'):
                        add(t.value, '.' + t.attr)
            elif isinstance(n, ast.Call) and isinstance(n.func, ast.Attribute) and n.func.attr in STORE_MUTATORS:
                add(n.func.value, '.%s()' % n.func.attr)
    return res


# =====================================================================================================================
# Module-level / class-level OBJECTS (C10): every name bound at module or class scope of src/nunavut to something that is not
# evidently immutable -- a dict/list/set literal or comprehension, or the result of ANY call that is not in the allow-list of
# immutable constructors (so an instance of a class defined anywhere, a cache object, a compiled-template store ...) -- with
# everything functions (including __init__) do with it: mutated?, passed to which callees / stored where (escapes), only read?
# Plus: every keyword argument handed to the bundled jinja2 Environment constructor, with where its value comes from.
# =====================================================================================================================
IMMUTABLE_CONSTRUCTORS = {
    'TypeVar', 'NewType', 'namedtuple', 'NamedTuple', 'frozenset', 'tuple', 'str', 'int', 'float', 'bool', 'bytes', 'compile',
    'getLogger', 'Path', 'PurePath', 'PurePosixPath', 'PosixPath', 'property', 'cast', 'join', 'dirname', 'abspath', 'format',
    'Version', 'parse', 'object', 'getenv', 'get_distribution', 'version', 'auto', 'Callable', 'Union', 'Optional'}
READ_ONLY_CALLEES = {
    'isinstance', 'issubclass', 'len', 'sorted', 'set', 'list', 'dict', 'tuple', 'frozenset', 'any', 'all', 'enumerate', 'zip', 'map',
    'filter', 'min', 'max', 'sum', 'iter', 'next', 'reversed', 'repr', 'str', 'join', 'format', 'get', 'items', 'keys', 'values',
    'copy', 'deepcopy', 'index', 'count', 'startswith', 'endswith', 'issubset', 'issuperset', 'union', 'intersection', 'difference',
    'isdisjoint', 'debug', 'info', 'warning', 'error', 'print', 'id', 'hash', 'bool', 'getattr', 'hasattr', 'match', 'search',
    'fullmatch', 'sub', 'split', 'findall', 'finditer', 'type'}
ENV_KWARGS_ALLOWED = {'loader', 'extensions', 'autoescape', 'undefined', 'keep_trailing_newline', 'lstrip_blocks', 'trim_blocks',
                      'auto_reload', 'cache_size'}


def _callee_name(f: ast.expr) -> str:
    return f.attr if isinstance(f, ast.Attribute) else (f.id if isinstance(f, ast.Name) else '?')


def scan_module_objects() -> typing.List[dict]:
    root_dir = os.path.join(gen.REPO, 'src', 'nunavut')
    out: typing.List[dict] = []
    for d, _, names in sorted(os.walk(root_dir)):
        for n in sorted(names):
            rel = os.path.relpath(os.path.join(d, n), root_dir).replace(os.sep, '/')
            if not n.endswith('.py') or rel.startswith(SCAN_EXCLUDE):
                continue
            tree = ast.parse(open(os.path.join(d, n), encoding='utf-8').read(), filename=rel)
            objs: typing.Dict[str, dict] = {}

            def consider(prefix: str, st: ast.stmt):
                if not isinstance(st, (ast.Assign, ast.AnnAssign)) or st.value is None:
                    return
                v = st.value
                if _is_container_value(v) and not (isinstance(v, ast.Call)):
                    kind = 'VLiteral'
                    what = type(v).__name__
                elif isinstance(v, ast.Call):
                    cn = _callee_name(v.func)
                    if cn in IMMUTABLE_CONSTRUCTORS:
                        return
                    kind = 'VContainerCall' if cn in CONTAINER_CALLS else 'VInstance'
                    what = cn
                else:
                    return
                for t in (st.targets if isinstance(st, ast.Assign) else [st.target]):
                    if isinstance(t, ast.Name) and t.id != '__all__':
                        objs[prefix + t.id] = {'file': rel, 'name': prefix + t.id, 'simple': t.id, 'vkind': kind, 'made_by': what,
                                      'mutated': False, 'escapes': [], 'readers': 0}

            for st in tree.body:
                consider('', st)
                if isinstance(st, ast.ClassDef):
                    for b in st.body:
                        consider(st.name + '.', b)
            if not objs:
                continue
            mutated = _mutated_names(tree)
            # uses inside functions (including __init__) and at module level after the binding
            parents: typing.Dict[int, ast.AST] = {}
            for node in ast.walk(tree):
                for ch in ast.iter_child_nodes(node):
                    parents[id(ch)] = node
            for node in ast.walk(tree):
                nm = None
                simple = {x['simple'] for x in objs.values()}
                if isinstance(node, ast.Name) and isinstance(node.ctx, ast.Load) and node.id in simple:
                    nm = node.id
                elif isinstance(node, ast.Attribute) and isinstance(node.ctx, ast.Load) and node.attr in simple \
                        and isinstance(node.value, ast.Name):
                    nm = node.attr
                if nm is None:
                    continue
                par = parents.get(id(node))
                for o in [x for x in objs.values() if x['simple'] == nm]:
                    o['readers'] += 1
                    if isinstance(par, ast.Call) and node in par.args:
                        cn = _callee_name(par.func)
                        if cn not in READ_ONLY_CALLEES:
                            o['escapes'].append('arg of ' + cn)
                    elif isinstance(par, ast.keyword):
                        gp = parents.get(id(par))
                        cn = _callee_name(gp.func) if isinstance(gp, ast.Call) else '?'
                        if cn not in READ_ONLY_CALLEES:
                            o['escapes'].append('%s= of %s' % (par.arg, cn))
                    elif isinstance(par, ast.Return):
                        o['escapes'].append('returned')
                    elif isinstance(par, (ast.Assign, ast.AnnAssign)) and par.value is node:
                        tg = par.targets if isinstance(par, ast.Assign) else [par.target]
                        if any(isinstance(t, (ast.Attribute, ast.Subscript)) for t in tg):
                            o['escapes'].append('stored in ' + ast.unparse(tg[0])[:40])
                        elif any(isinstance(t, ast.Name) for t in tg):
                            o['escapes'].append('aliased as ' + ast.unparse(tg[0])[:40])
            for o in objs.values():
                o['mutated'] = o['simple'] in mutated
                out.append(o)
    return out


def scan_env_kwargs() -> typing.List[dict]:
    """keyword arguments of every call of the bundled jinja2 Environment constructor made by src/nunavut: super().__init__(..)
    inside a class that derives from Environment, and direct Environment(..) / SandboxedEnvironment(..) calls"""
    root_dir = os.path.join(gen.REPO, 'src', 'nunavut')
    out: typing.List[dict] = []
    for d, _, names in sorted(os.walk(root_dir)):
        for n in sorted(names):
            rel = os.path.relpath(os.path.join(d, n), root_dir).replace(os.sep, '/')
            if not n.endswith('.py') or rel.startswith(SCAN_EXCLUDE):
                continue
            tree = ast.parse(open(os.path.join(d, n), encoding='utf-8').read(), filename=rel)
            imported = set()
            assigned = set()
            for st in tree.body:
                if isinstance(st, (ast.Import, ast.ImportFrom)):
                    imported.update((a.asname or a.name).split('.')[0] for a in st.names)
                elif isinstance(st, (ast.FunctionDef, ast.ClassDef)):
                    imported.add(st.name)
                elif isinstance(st, (ast.Assign, ast.AnnAssign)):
                    for t in (st.targets if isinstance(st, ast.Assign) else [st.target]):
                        if isinstance(t, ast.Name):
                            assigned.add(t.id)

            def value_kind(v: ast.expr, params: typing.Set[str]) -> str:
                if isinstance(v, ast.Constant):
                    return 'EConst'
                if isinstance(v, ast.Name):
                    if v.id in params:
                        return 'EParam'
                    if v.id in assigned:
                        return 'EGlobal'
                    if v.id in imported:
                        return 'EImported'
                    return 'EOther'
                if isinstance(v, ast.Call):
                    return 'EFresh' if all(value_kind(a, params) in ('EConst', 'EParam', 'EImported', 'EFresh')
                                           for a in list(v.args) + [k.value for k in v.keywords]) else 'EOther'
                if isinstance(v, (ast.Tuple, ast.List)):
                    return 'EFresh' if all(value_kind(a, params) in ('EConst', 'EParam', 'EImported', 'EFresh') for a in v.elts) else 'EOther'
                return 'EOther'

            for cls in [c for c in ast.walk(tree) if isinstance(c, ast.ClassDef)]:
                is_env = any((isinstance(b, ast.Name) and b.id.endswith('Environment')) or
                             (isinstance(b, ast.Attribute) and b.attr.endswith('Environment')) for b in cls.bases)
                for fn in [f for f in cls.body if isinstance(f, ast.FunctionDef)]:
                    params = {a.arg for a in fn.args.args + fn.args.kwonlyargs}
                    for c in ast.walk(fn):
                        if not isinstance(c, ast.Call):
                            continue
                        f = c.func
                        sup = (isinstance(f, ast.Attribute) and f.attr == '__init__' and isinstance(f.value, ast.Call)
                               and isinstance(f.value.func, ast.Name) and f.value.func.id == 'super')
                        direct = _callee_name(f) in ('Environment', 'SandboxedEnvironment', 'NativeEnvironment')
                        if (sup and is_env) or direct:
                            if c.args or any(k.arg is None for k in c.keywords):
                                raise Unsupported('%s %s.%s: Environment constructed with positional or ** arguments' % (rel, cls.name, fn.name))
                            for k in c.keywords:
                                out.append({'file': rel, 'where': cls.name + '.' + fn.name, 'kw': k.arg, 'vkind': value_kind(k.value, params)})
            for fn in [f for f in tree.body if isinstance(f, ast.FunctionDef)]:
                params = {a.arg for a in fn.args.args + fn.args.kwonlyargs}
                for c in ast.walk(fn):
                    if isinstance(c, ast.Call) and _callee_name(c.func) in ('Environment', 'SandboxedEnvironment', 'NativeEnvironment'):
                        if c.args or any(k.arg is None for k in c.keywords):
                            raise Unsupported('%s %s: Environment constructed with positional or ** arguments' % (rel, fn.name))
                        for k in c.keywords:
                            out.append({'file': rel, 'where': fn.name, 'kw': k.arg, 'vkind': value_kind(k.value, params)})
    return out


# =====================================================================================================================
# READS that span more than a type and its dependency closure (C10, the sibling clause): every use, in render-phase Python code and
# in every template, of the Namespace API (regenerated: the public names of class Namespace) and of the other handles on "the whole
# run" (the generator's namespace attribute, environment globals, the language context).
# =====================================================================================================================
WIDE_EXTRA = {'namespace', '_namespace', 'globals', 'get_supported_languages', 'get_language_context', 'language_context',
              'get_dependency_builder', 'get_includes'}


def wide_names() -> typing.List[str]:
    tree = gen.parse_repo('src/nunavut/_namespace.py')
    cls = [c for c in tree.body if isinstance(c, ast.ClassDef) and c.name == 'Namespace']
    if len(cls) != 1:
        raise Unsupported('_namespace.py: class Namespace not found')
    names = {f.name for f in cls[0].body if isinstance(f, (ast.FunctionDef, ast.AsyncFunctionDef)) and not f.name.startswith('_')}
    names |= {'_parent', '_nested_namespaces', '_data_type_to_outputs'}
    try:        # names a Namespace shares with every pydsdl composite type (full_name, attributes, ...) say nothing about siblings
        import pydsdl  # pylint: disable=import-outside-toplevel
        names = {n for n in names if not hasattr(pydsdl.CompositeType, n)}
    except ImportError as ex:
        raise Unsupported('pydsdl is needed to separate the Namespace API from the type API: %r' % (ex,))
    return sorted(names | WIDE_EXTRA)


def scan_wide_reads() -> typing.List[dict]:
    names = set(wide_names())
    out: typing.List[dict] = []
    funcs, render = _collect_functions()
    for i, (rel, qual, fn, _e, _g) in enumerate(funcs):
        if i not in render:
            continue
        nested = set()
        for n in ast.walk(fn):
            if n is not fn and isinstance(n, (ast.FunctionDef, ast.AsyncFunctionDef)):
                nested.update(id(x) for x in ast.walk(n))
        for n in ast.walk(fn):
            if id(n) in nested:
                continue
            if isinstance(n, ast.Attribute) and n.attr in names:
                out.append({'file': rel, 'where': qual, 'name': n.attr, 'kind': 'WPython'})
    troot = os.path.join(gen.REPO, 'src', 'nunavut', 'lang')
    pat = re.compile(r'(?:\.|\|\s*)(%s)\b' % '|'.join(sorted(re.escape(x) for x in names)))
    ref = re.compile(r'{%-?\s*(?:include|import|from|extends)\s+[\'"]([^\'"]+)[\'"]')
    for d, _, fns in sorted(os.walk(troot)):
        j2 = sorted(n for n in fns if n.endswith('.j2'))
        if not j2:
            continue
        texts = {n: open(os.path.join(d, n), encoding='utf-8').read() for n in j2}
        for n, t in texts.items():
            if re.search(r'{%-?\s*(?:include|import|from|extends)\s+[^\'"\s]', t):
                raise Unsupported('%s: template reference that is not a string literal' % n)
        # templates a TYPE file can be made of: everything reachable (include/import/from/extends) from a template that the lookup
        # can select for a type, i.e. every template named after a class other than Namespace
        graph = {n: set(ref.findall(t)) & set(j2) for n, t in texts.items()}
        helpers = {m for n in j2 for m in graph[n]}
        type_roots = [n for n in j2 if n not in helpers and n != 'Namespace.j2'] if os.path.basename(d) == 'templates' else list(j2)
        reach, todo = set(), list(type_roots)
        while todo:
            x = todo.pop()
            if x not in reach:
                reach.add(x)
                todo.extend(graph[x])
        for n in j2:
            rel = os.path.relpath(os.path.join(d, n), os.path.join(gen.REPO, 'src', 'nunavut')).replace(os.sep, '/')
            for m in sorted(set(pat.findall(texts[n]))):
                out.append({'file': rel, 'where': 'template of type files' if n in reach else 'template of namespace files only',
                            'name': m, 'kind': 'WTemplateType' if n in reach else 'WTemplateNamespaceOnly'})
    seen, res = set(), []
    for x in out:
        k = (x['file'], x['where'], x['name'])
        if k not in seen:
            seen.add(k)
            res.append(x)
    return res
