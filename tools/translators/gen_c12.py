"""C12 translator: renders the overwrite gate, SetFileMode and the order of file-system relevant calls of the per-file
writers of /repo into Gallina (coq/theories/Generated/Gen_Regen.v).  Fail closed: anything outside the recognised
subset produces a stub and (False, reason).

Translated (shallow, into the fs monad of Gen/RegenBase.v):
    CodeGenerator._handle_overwrite            -> handle_overwrite
    SetFileMode.__call__                       -> SetFileMode_call
Rendered as skeletons (list of guarded actions, interpreted by Gen/Regen.v):
    CodeGenerator._generate_code, SupportGenerator._copy_header, _copy_header_using_line_pps, _generate_header,
    DSDLCodeGenerator._generate_type
Structural facts:
    SupportGenerator.generate_all dispatch (.j2 -> _generate_header, else _copy_header), DSDLCodeGenerator.generate_all,
    ArgparseRunner._generate phase order and argument plumbing, _build_post_processor_list_from_args order.
"""
from __future__ import annotations

import ast
import os
import typing

from . import gen
from .pyfun_tr import Unsupported, find_function

OUT = os.path.join(gen.GEN_DIR, 'Gen_Regen.v')
SRC_J = 'src/nunavut/jinja/__init__.py'
SRC_P = 'src/nunavut/_postprocessors.py'
SRC_R = 'src/nunavut/cli/runners.py'

# names whose call touches the file system (or reaches code that does): each occurrence must be recognised
FS_NAMES = {'chmod', 'lchmod', 'mkdir', 'makedirs', 'unlink', 'rename', 'replace', 'rmdir', 'touch', 'write_text', 'write_bytes',
            'copy', 'copy2', 'copyfile', 'copymode', 'copystat', 'copytree', 'move', 'rmtree', 'remove', 'chown', 'open',
            'symlink_to', 'link_to', 'hardlink_to', 'truncate', 'utime', 'umask', 'system', 'run', 'Popen', 'check_call',
            '_handle_overwrite', '_generate_code', '_copy_header', '_copy_header_using_line_pps', '_generate_header',
            '_generate_type'}


STAT_BITS = {'S_IRUSR': 0o400, 'S_IWUSR': 0o200, 'S_IXUSR': 0o100, 'S_IRGRP': 0o040, 'S_IWGRP': 0o020, 'S_IXGRP': 0o010,
             'S_IROTH': 0o004, 'S_IWOTH': 0o002, 'S_IXOTH': 0o001, 'S_IRWXU': 0o700, 'S_IRWXG': 0o070, 'S_IRWXO': 0o007}


# Every call inside the scanned functions must be CLASSIFIED: either file-system relevant (FS_NAMES: then it has to be
# recognised by the skeleton/gate translators) or on this list of callees known not to touch the output tree.  Anything
# else (link, symlink, read_text, fchmod, sendfile, tempfile, a new helper, ...) makes the translator fail closed.
HARMLESS = {'Path', 'PermissionError', 'IsADirectoryError', 'ValueError', '_generate_with_line_buffer', '_reset_line_pp', 'append',
            'debug', 'info', 'warning', 'endswith', 'exists', 'is_dir', 'is_file', 'is_symlink', 'stat', 'file_pp', 'line_pp',
            'filter_type_to_template', 'format', 'generate', 'get_support_module', 'get_support_output_folder',
            'get_target_language', 'get_template', 'get_templates', 'isinstance', 'len', 'provider', 'reset', 'str', 'type',
            'update_nunavut_globals', 'utcnow', 'with_suffix', 'write',
            # module-level helpers of jinja/__init__.py, reviewed (and scanned themselves, see SCANNED): they only touch Python
            # objects (the Jinja template cache, the line post-processors' counters), never the output tree
            '_forget_imported_template_modules', 'getattr', 'setattr', 'list', 'values', 'callable'}
SCANNED = [(SRC_J, 'CodeGenerator', '_handle_overwrite'), (SRC_J, 'CodeGenerator', '_generate_code'),
           (SRC_J, 'SupportGenerator', '_copy_header'), (SRC_J, 'SupportGenerator', '_copy_header_using_line_pps'),
           (SRC_J, 'SupportGenerator', '_generate_header'), (SRC_J, 'DSDLCodeGenerator', '_generate_type'),
           (SRC_J, 'SupportGenerator', 'generate_all'), (SRC_J, 'DSDLCodeGenerator', 'generate_all'),
           (SRC_P, 'SetFileMode', '__call__'),
           (SRC_J, None, '_forget_imported_template_modules'), (SRC_J, None, '_reset_line_pp')]


def check_all_calls_classified(trees: dict) -> None:
    for src, cls, name in SCANNED:
        fn = find_function(trees[src], cls, name)
        for n in ast.walk(fn):
            if isinstance(n, ast.Call):
                c = _callee(n)
                if c not in FS_NAMES and c not in HARMLESS:
                    raise Unsupported('unclassified call %r in %s.%s (neither file-system relevant nor known harmless)' % (c or ast.unparse(n.func)[:40], cls, name))
            if isinstance(n, (ast.Import, ast.ImportFrom)) and not (isinstance(n, ast.ImportFrom) and n.module and n.module.endswith('_common')):
                raise Unsupported('import inside %s.%s' % (cls, name))


def _callee(c: ast.Call) -> str:
    f = c.func
    if isinstance(f, ast.Attribute):
        return f.attr
    if isinstance(f, ast.Name):
        return f.id
    return ''


def _fs_calls(node: ast.AST) -> typing.List[ast.Call]:
    return [n for n in ast.walk(node) if isinstance(n, ast.Call) and _callee(n) in FS_NAMES]


def _is_name(e: ast.AST, name: str) -> bool:
    return isinstance(e, ast.Name) and e.id == name


def _is_self_call(c: ast.AST, meth: str) -> bool:
    return (isinstance(c, ast.Call) and isinstance(c.func, ast.Attribute) and c.func.attr == meth
            and _is_name(c.func.value, 'self'))


def _str_of(e: ast.AST, name: str) -> bool:
    """str(<name>)"""
    return isinstance(e, ast.Call) and _is_name(e.func, 'str') and len(e.args) == 1 and _is_name(e.args[0], name)


# ---------------------------------------------------------------------------------------------
# shallow translation of the two small fs functions
# ---------------------------------------------------------------------------------------------
class FsTr:
    def __init__(self, path_param: str, bools: typing.Sequence[str], self_ints: typing.Dict[str, str]):
        self.path = path_param
        self.bools = set(bools)
        self.self_ints = self_ints
        self.n = 0

    def fresh(self) -> str:
        self.n += 1
        return 's%d' % self.n

    def bexpr(self, e: ast.expr, s: str) -> str:
        if isinstance(e, ast.Name) and e.id in self.bools:
            return e.id
        if isinstance(e, ast.UnaryOp) and isinstance(e.op, ast.Not):
            return '(negb %s)' % self.bexpr(e.operand, s)
        if isinstance(e, ast.BoolOp) and isinstance(e.op, (ast.And, ast.Or)) and len(e.values) >= 2:
            # Python's short-circuit and/or over side-effect-free boolean operands
            op = 'andb' if isinstance(e.op, ast.And) else 'orb'
            out = self.bexpr(e.values[-1], s)
            for v in reversed(e.values[:-1]):
                out = '(%s %s %s)' % (op, self.bexpr(v, s), out)
            return out
        if (isinstance(e, ast.Call) and isinstance(e.func, ast.Attribute) and e.func.attr == 'exists'
                and _is_name(e.func.value, self.path) and not e.args and not e.keywords):
            return '(fs_exists_at e %s (resolve e %s))' % (s, self.path)
        if (isinstance(e, ast.Call) and isinstance(e.func, ast.Attribute) and e.func.attr == 'is_symlink'
                and _is_name(e.func.value, self.path) and not e.args and not e.keywords):
            return '(is_symlink e %s)' % self.path          # lstat: does not follow
        if (isinstance(e, ast.Call) and isinstance(e.func, ast.Attribute) and e.func.attr == 'is_file'
                and _is_name(e.func.value, self.path) and not e.args and not e.keywords):
            return '(fs_is_file e %s (resolve e %s))' % (s, self.path)
        if (isinstance(e, ast.Call) and isinstance(e.func, ast.Attribute) and e.func.attr == 'is_dir'
                and _is_name(e.func.value, self.path) and not e.args and not e.keywords):
            return '(fs_is_dir %s (resolve e %s))' % (s, self.path)
        raise Unsupported('boolean expression %s' % ast.dump(e)[:120])

    def nexpr(self, e: ast.expr, s: str) -> str:
        if isinstance(e, ast.Constant) and isinstance(e.value, int) and not isinstance(e.value, bool) and e.value >= 0:
            return '%d' % e.value
        if isinstance(e, ast.BinOp) and isinstance(e.op, ast.BitOr):
            return '(N.lor %s %s)' % (self.nexpr(e.left, s), self.nexpr(e.right, s))
        if isinstance(e, ast.BinOp) and isinstance(e.op, ast.BitAnd):
            return '(N.land %s %s)' % (self.nexpr(e.left, s), self.nexpr(e.right, s))
        if (isinstance(e, ast.Attribute) and e.attr == 'st_mode' and isinstance(e.value, ast.Call)
                and isinstance(e.value.func, ast.Attribute) and e.value.func.attr == 'stat'
                and _is_name(e.value.func.value, self.path) and not e.value.args and not e.value.keywords):
            return '(fs_st_mode %s (resolve e %s))' % (s, self.path)
        if isinstance(e, ast.Attribute) and _is_name(e.value, 'stat') and e.attr in STAT_BITS:
            return '%d' % STAT_BITS[e.attr]
        if isinstance(e, ast.Attribute) and _is_name(e.value, 'self') and e.attr in self.self_ints:
            return self.self_ints[e.attr]
        raise Unsupported('integer expression %s' % ast.dump(e)[:120])

    def stmt(self, st: ast.stmt, s: str) -> str:
        if isinstance(st, ast.If):
            return '(if %s then %s else %s)' % (self.bexpr(st.test, s), self.block(st.body, s), self.block(st.orelse, s))
        if isinstance(st, ast.Raise):
            exc = st.exc
            if isinstance(exc, ast.Call) and _is_name(exc.func, 'PermissionError'):
                return '(%s, Err EExists)' % s
            if isinstance(exc, ast.Call) and _is_name(exc.func, 'IsADirectoryError'):
                return '(%s, Err EIsDir)' % s
            raise Unsupported('raise of something other than PermissionError / IsADirectoryError')
        if isinstance(st, ast.Expr) and isinstance(st.value, ast.Call):
            c = st.value
            if (isinstance(c.func, ast.Attribute) and c.func.attr == 'chmod' and _is_name(c.func.value, self.path)
                    and len(c.args) == 1 and not c.keywords):
                return '(fs_chmod e %s (resolve e %s) %s)' % (s, self.path, self.nexpr(c.args[0], s))
            if isinstance(c.func, ast.Attribute) and isinstance(c.func.value, ast.Name) and c.func.value.id == 'logger' and not _fs_calls(c):
                return '(%s, Ok)' % s
        if isinstance(st, ast.Pass):
            return '(%s, Ok)' % s
        if isinstance(st, ast.Expr) and isinstance(st.value, ast.Constant) and isinstance(st.value.value, str):
            return '(%s, Ok)' % s  # docstring
        raise Unsupported('statement %s' % ast.dump(st)[:160])

    def block(self, stmts: typing.Sequence[ast.stmt], s: str) -> str:
        if not stmts:
            return '(%s, Ok)' % s
        head = self.stmt(stmts[0], s)
        if len(stmts) == 1:
            return head
        s2 = self.fresh()
        return '(bind %s (fun %s => %s))' % (head, s2, self.block(stmts[1:], s2))


def tr_handle_overwrite(tree: ast.Module) -> str:
    fn = find_function(tree, 'CodeGenerator', '_handle_overwrite')
    names = [a.arg for a in fn.args.args]
    if names != ['self', 'output_path', 'allow_overwrite']:
        raise Unsupported('_handle_overwrite signature %r' % names)
    body = FsTr('output_path', ['allow_overwrite'], {}).block(fn.body, 's')
    return ('Definition handle_overwrite (e : env) (s : fs) (output_path : path) (allow_overwrite : bool) : fs * result :=\n  %s.' % body)


def tr_setfilemode(tree: ast.Module) -> str:
    init = find_function(tree, 'SetFileMode', '__init__')
    ok = (len(init.body) >= 1 and isinstance(init.body[-1], ast.Assign) and len(init.body[-1].targets) == 1
          and isinstance(init.body[-1].targets[0], ast.Attribute) and init.body[-1].targets[0].attr == '_file_mode'
          and _is_name(init.body[-1].value, 'file_mode')
          and all(isinstance(x, ast.Expr) and isinstance(x.value, ast.Constant) for x in init.body[:-1]))
    if not ok:
        raise Unsupported('SetFileMode.__init__ is not `self._file_mode = file_mode`')
    fn = find_function(tree, 'SetFileMode', '__call__')
    names = [a.arg for a in fn.args.args]
    if names != ['self', 'generated']:
        raise Unsupported('SetFileMode.__call__ signature %r' % names)
    if not fn.body or not isinstance(fn.body[-1], ast.Return) or not _is_name(fn.body[-1].value, 'generated'):
        raise Unsupported('SetFileMode.__call__ does not end with `return generated`')
    body = FsTr('generated', [], {'_file_mode': 'file_mode'}).block(fn.body[:-1], 's')
    return ('Definition SetFileMode_call (e : env) (s : fs) (file_mode : N) (generated : path) : (fs * result) * path :=\n'
            '  (%s, generated).' % body)


def tr_external_program(tree: ast.Module) -> str:
    """ExternalProgramEditInPlace.__call__: runs `command_line + [str(generated)]` (through sys.executable for a .py program)
    and returns the same path.  What the program does to the file is a parameter of the model (PPExternal f)."""
    fn = find_function(tree, 'ExternalProgramEditInPlace', '__call__')
    body = [st for st in fn.body if not (isinstance(st, ast.Expr) and isinstance(st.value, ast.Constant))]
    want = ("run_args = self._command_line + [str(generated)]\n"
            "if len(run_args) > 0 and str(run_args[0]).endswith('.py'):\n"
            "    run_args = [sys.executable] + run_args\n"
            "subprocess_run(run_args, check=self._check)\n"
            "return generated")
    got = '\n'.join(ast.unparse(st) for st in body)
    if got != want:
        raise Unsupported('ExternalProgramEditInPlace.__call__ changed: %s' % got[:300])
    return ('Definition ExternalProgram_call (e : env) (s : fs) (f : N -> N) (generated : path) : (fs * result) * path :=\n'
            '  ((fs_edit e s (resolve e generated) f), generated).')


# ---------------------------------------------------------------------------------------------
# skeletons
# ---------------------------------------------------------------------------------------------
def _guard_of(test: ast.expr) -> typing.Optional[typing.Tuple[str, str]]:
    """returns (guard when true, guard when false) for the recognised conditions"""
    if isinstance(test, ast.UnaryOp) and isinstance(test.op, ast.Not) and _is_name(test.operand, 'is_dryrun'):
        return 'GNotDryrun', ''
    if (isinstance(test, ast.Compare) and len(test.ops) == 1 and isinstance(test.left, ast.Call) and _is_name(test.left.func, 'len')
            and len(test.left.args) == 1 and _is_name(test.left.args[0], 'line_pps')
            and isinstance(test.comparators[0], ast.Constant) and test.comparators[0].value == 0):
        if isinstance(test.ops[0], ast.Eq):
            return 'GNoLinePPs', 'GHasLinePPs'
        if isinstance(test.ops[0], ast.Gt):
            return 'GHasLinePPs', 'GNoLinePPs'
    return None


class SkelTr:
    def __init__(self, path_param: str):
        self.path = path_param
        self.out: typing.List[typing.Tuple[typing.Tuple[str, ...], str]] = []

    def emit(self, guards: typing.Tuple[str, ...], act: str) -> None:
        self.out.append((guards, act))

    def stmt(self, st: ast.stmt, guards: typing.Tuple[str, ...]) -> None:
        calls = _fs_calls(st)
        if not calls:
            if any(isinstance(n, (ast.Return, ast.Break, ast.Continue)) for n in ast.walk(st)) and not isinstance(st, ast.For):
                raise Unsupported('early exit in %s' % type(st).__name__)
            return  # no file-system relevant call inside: irrelevant to the skeleton
        p = self.path
        if isinstance(st, ast.Expr) and isinstance(st.value, ast.Call) and len(calls) == 1 and calls[0] is st.value:
            c = st.value
            if _is_self_call(c, '_handle_overwrite') and len(c.args) == 2 and _is_name(c.args[0], p) and _is_name(c.args[1], 'allow_overwrite') and not c.keywords:
                return self.emit(guards, 'AHandleOverwrite')
            if (isinstance(c.func, ast.Attribute) and c.func.attr == 'mkdir' and isinstance(c.func.value, ast.Attribute)
                    and c.func.value.attr == 'parent' and _is_name(c.func.value.value, p) and not c.args
                    and sorted((k.arg, getattr(k.value, 'value', None)) for k in c.keywords) == [('exist_ok', True), ('parents', True)]):
                return self.emit(guards, 'AMkdirParents')
            if (isinstance(c.func, ast.Attribute) and c.func.attr == 'copy' and _is_name(c.func.value, 'shutil') and len(c.args) == 2
                    and _str_of(c.args[0], 'resource') and _str_of(c.args[1], p) and not c.keywords):
                return self.emit(guards, 'AShutilCopy')
            if (_is_self_call(c, '_generate_code') and len(c.args) == 4 and _is_name(c.args[0], p) and _is_name(c.args[3], 'allow_overwrite')
                    and not c.keywords):
                return self.emit(guards, 'ACallGenerateCode')
            if (_is_self_call(c, '_copy_header_using_line_pps') and len(c.args) == 3 and _is_name(c.args[0], 'resource')
                    and _is_name(c.args[1], p) and _is_name(c.args[2], 'line_pps') and not c.keywords):
                return self.emit(guards, 'ACallCopyLinePPs')
            raise Unsupported('unrecognised file-system call %s' % ast.dump(c)[:160])
        if isinstance(st, ast.With) and len(st.items) == 1 and isinstance(st.items[0].context_expr, ast.Call):
            c = st.items[0].context_expr
            if _is_name(c.func, 'open') and len(c.args) >= 2 and isinstance(c.args[1], ast.Constant):
                mode = c.args[1].value
                inner = [x for s2 in st.body for x in _fs_calls(s2)]
                if mode == 'w' and _str_of(c.args[0], p):
                    self.emit(guards, 'AOpenWrite')
                    # inside the with-block only reads of other files may occur
                    for s2 in st.body:
                        self.with_body(s2)
                    return
                raise Unsupported('open(%s, %r)' % (ast.dump(c.args[0])[:60], mode) + (' with %d inner calls' % len(inner)))
        raise Unsupported('statement with file-system calls: %s' % ast.dump(st)[:160])

    def with_body(self, st: ast.stmt) -> None:
        """inside `with open(target, "w")`: allow nested read-only opens and anything without fs calls"""
        for c in _fs_calls(st):
            ok = (_is_name(c.func, 'open') and len(c.args) >= 2 and isinstance(c.args[1], ast.Constant) and c.args[1].value == 'r'
                  and _str_of(c.args[0], 'resource'))
            if not ok:
                raise Unsupported('file-system call inside the write block: %s' % ast.dump(c)[:120])


def skel_of(tree: ast.Module, cls: str, name: str, path_param: str, expect_params: typing.Sequence[str]) -> str:
    fn = find_function(tree, cls, name)
    names = [a.arg for a in fn.args.args]
    if names != list(expect_params):
        raise Unsupported('%s.%s signature %r' % (cls, name, names))
    # the file post-processor loop is a for statement without fs names: recognise it explicitly first
    tr = SkelTr(path_param)
    body = list(fn.body)
    for i, st in enumerate(body):
        last = i == len(body) - 1
        if isinstance(st, ast.Return):
            if not last or _fs_calls(st):
                raise Unsupported('%s: return before the end' % name)
            continue
        _skel_stmt(tr, st, ())
    items = ['([%s], %s)' % ('; '.join(g), a) for g, a in tr.out]
    return '[%s]' % '; '.join(items)


def _is_filepp_loop(st: ast.stmt) -> bool:
    return isinstance(st, ast.For) and _is_name(st.iter, 'file_pps')


def _skel_stmt(tr: SkelTr, st: ast.stmt, guards: typing.Tuple[str, ...]) -> None:
    """like SkelTr.stmt but also sees the file_pps loop (which contains no FS_NAMES call) at any guard depth"""
    if _is_filepp_loop(st):
        p = tr.path
        ok = (isinstance(st.target, ast.Name) and len(st.body) == 1 and not st.orelse and isinstance(st.body[0], ast.Assign)
              and len(st.body[0].targets) == 1 and _is_name(st.body[0].targets[0], p) and isinstance(st.body[0].value, ast.Call)
              and _is_name(st.body[0].value.func, st.target.id) and len(st.body[0].value.args) == 1
              and _is_name(st.body[0].value.args[0], p) and not st.body[0].value.keywords)
        if not ok:
            raise Unsupported('file post-processor loop has an unexpected shape')
        tr.emit(guards, 'AFilePPs')
        return
    if isinstance(st, ast.If) and (_fs_calls(st) or any(_is_filepp_loop(n) for n in ast.walk(st))):
        g = _guard_of(st.test)
        if g is None:
            raise Unsupported('condition around file-system calls: %s' % ast.dump(st.test)[:120])
        for s2 in st.body:
            if isinstance(s2, ast.Return):
                raise Unsupported('return inside a guard')
            _skel_stmt(tr, s2, guards + (g[0],))
        if st.orelse:
            if not g[1]:
                raise Unsupported('else branch of a dry-run guard')
            for s2 in st.orelse:
                if isinstance(s2, ast.Return):
                    raise Unsupported('return inside a guard')
                _skel_stmt(tr, s2, guards + (g[1],))
        return
    tr.stmt(st, guards)


# ---------------------------------------------------------------------------------------------
# structural facts
# ---------------------------------------------------------------------------------------------
def check_support_dispatch(tree: ast.Module) -> None:
    fn = find_function(tree, 'SupportGenerator', 'generate_all')
    loops = [n for n in fn.body if isinstance(n, ast.For) and _fs_calls(n)]
    others = [n for n in fn.body if not isinstance(n, ast.For) and _fs_calls(n)]
    if len(loops) != 1 or others:
        raise Unsupported('SupportGenerator.generate_all: expected exactly one loop that writes files')
    loop = loops[0]
    ifs = [n for n in loop.body if isinstance(n, ast.If) and _fs_calls(n)]
    rest = [n for n in loop.body if not isinstance(n, ast.If) and _fs_calls(n)]
    if len(ifs) != 1 or rest:
        raise Unsupported('SupportGenerator.generate_all: loop body shape')
    t = ifs[0].test
    if not (isinstance(t, ast.Compare) and isinstance(t.ops[0], ast.Eq) and isinstance(t.left, ast.Attribute) and t.left.attr == 'suffix'
            and _is_name(t.left.value, 'resource') and _is_name(t.comparators[0], 'TEMPLATE_SUFFIX')):
        raise Unsupported('SupportGenerator.generate_all: dispatch test')

    def the_call(body, meth, nargs):
        cs = [c for s in body for c in _fs_calls(s)]
        if len(cs) != 1 or not _is_self_call(cs[0], meth) or len(cs[0].args) != nargs or cs[0].keywords:
            raise Unsupported('SupportGenerator.generate_all: expected a single self.%s(...)' % meth)
        a = cs[0].args
        if not (_is_name(a[0], 'resource') and _is_name(a[1], 'target') and _is_name(a[2], 'is_dryrun') and _is_name(a[3], 'allow_overwrite')):
            raise Unsupported('SupportGenerator.generate_all: arguments of %s' % meth)
        if nargs == 6 and not (_is_name(a[4], 'line_pps') and _is_name(a[5], 'file_pps')):
            raise Unsupported('SupportGenerator.generate_all: post-processor arguments of %s' % meth)
    the_call(ifs[0].body, '_generate_header', 4)
    the_call(ifs[0].orelse, '_copy_header', 6)


def check_type_loop(tree: ast.Module) -> None:
    fn = find_function(tree, 'DSDLCodeGenerator', 'generate_all')
    cs = _fs_calls(fn)
    if len(cs) != 1 or not _is_self_call(cs[0], '_generate_type') or len(cs[0].args) != 4:
        raise Unsupported('DSDLCodeGenerator.generate_all: expected one self._generate_type(...)')
    a = cs[0].args
    if not (_is_name(a[1], 'output_path') and _is_name(a[2], 'is_dryrun') and _is_name(a[3], 'allow_overwrite')):
        raise Unsupported('DSDLCodeGenerator.generate_all: arguments of _generate_type')


def cli_phases(tree: ast.Module) -> str:
    fn = find_function(tree, 'ArgparseRunner', '_generate')
    phases = []
    for st in fn.body:
        if isinstance(st, ast.Expr) and isinstance(st.value, ast.Constant):
            continue
        if not isinstance(st, ast.If) or st.orelse or len(st.body) != 1 or not isinstance(st.body[0], ast.Expr):
            raise Unsupported('ArgparseRunner._generate: statement shape')
        c = st.body[0].value
        if not (isinstance(c, ast.Call) and isinstance(c.func, ast.Attribute) and c.func.attr == 'generate_all'):
            raise Unsupported('ArgparseRunner._generate: not a generate_all call')
        who = c.func.value
        kw = {k.arg: ast.unparse(k.value) for k in c.keywords}
        if c.args or kw.get('is_dryrun') != 'self._args.dry_run' or kw.get('allow_overwrite') != 'not self._args.no_overwrite':
            raise Unsupported('ArgparseRunner._generate: is_dryrun/allow_overwrite plumbing changed: %r' % kw)
        test = ast.unparse(st.test)
        if ast.unparse(who) == 'self._support_generator' and test == 'self._should_generate_support()':
            phases.append('PhSupport')
        elif ast.unparse(who) == 'self._generator' and test in ("self._args.generate_support != 'only'", 'self._args.generate_support != "only"'):
            phases.append('PhTypes')
        else:
            raise Unsupported('ArgparseRunner._generate: unexpected phase %s under %s' % (ast.unparse(who), test))
    return '[%s]' % '; '.join(phases)


def cli_pp_list(tree: ast.Module) -> str:
    fn = find_function(tree, 'ArgparseRunner', '_build_post_processor_list_from_args')
    kinds = {'TrimTrailingWhitespace': 'KTrim', 'LimitEmptyLines': 'KLimit', 'SetFileMode': 'KSetFileMode'}
    out = []

    def append_of(st: ast.stmt) -> typing.Optional[str]:
        if not (isinstance(st, ast.Expr) and isinstance(st.value, ast.Call) and isinstance(st.value.func, ast.Attribute)
                and st.value.func.attr == 'append' and _is_name(st.value.func.value, 'post_processors') and len(st.value.args) == 1):
            return None
        a = st.value.args[0]
        if isinstance(a, ast.Call) and isinstance(a.func, ast.Name) and a.func.id in kinds:
            if a.func.id == 'SetFileMode' and ast.unparse(a) != 'SetFileMode(self._args.file_mode)':
                raise Unsupported('SetFileMode argument is not self._args.file_mode')
            return kinds[a.func.id]
        if _is_self_call(a, '_build_ext_program_postprocessor'):
            return 'KExtProgram'
        raise Unsupported('unknown post-processor %s' % ast.unparse(a))

    body = [st for st in fn.body if not (isinstance(st, ast.Expr) and isinstance(st.value, ast.Constant))]
    if not body or not isinstance(body[-1], ast.Return) or not _is_name(body[-1].value, 'post_processors'):
        raise Unsupported('_build_post_processor_list_from_args does not end with `return post_processors`')
    for st in body[:-1]:
        if isinstance(st, ast.AnnAssign) and _is_name(st.target, 'post_processors') and isinstance(st.value, ast.List) and not st.value.elts:
            continue
        if isinstance(st, ast.Assign) and _is_name(st.targets[0], 'post_processors') and isinstance(st.value, ast.List) and not st.value.elts:
            continue
        k = append_of(st)
        if k is not None:
            out.append('(true, %s)' % k)
            continue
        if isinstance(st, ast.If) and not st.orelse and len(st.body) == 1:
            k = append_of(st.body[0])
            if k is not None:
                out.append('(false, %s)' % k)
                continue
        raise Unsupported('_build_post_processor_list_from_args: statement %s' % ast.unparse(st)[:100])
    return '[%s]' % '; '.join(out)


def tr_should_generate_support(tree: ast.Module) -> str:
    """ArgparseRunner._should_generate_support -> should_generate_support : gsmode -> bool -> bool"""
    fn = find_function(tree, 'ArgparseRunner', '_should_generate_support')
    body = [st for st in fn.body if not (isinstance(st, ast.Expr) and isinstance(st.value, ast.Constant))]
    want = ("if self._args.generate_support == 'as-needed':\n"
            "    return self._args.omit_serialization_support is None or not self._args.omit_serialization_support\n"
            "return bool(self._args.generate_support in ('always', 'only'))")
    got = '\n'.join(ast.unparse(st) for st in body)
    if got != want:
        raise Unsupported('_should_generate_support changed: %s' % got[:200])
    # omit_serialization_support is a store_true flag: never None
    cli = gen.read_repo('src/nunavut/cli/__init__.py')
    tree2 = ast.parse(cli)
    ok = False
    choices = None
    for n in ast.walk(tree2):
        if isinstance(n, ast.Call) and isinstance(n.func, ast.Attribute) and n.func.attr == 'add_argument' and n.args:
            a0 = n.args[0]
            if isinstance(a0, ast.Constant) and a0.value == '--omit-serialization-support':
                ok = any(k.arg == 'action' and getattr(k.value, 'value', None) == 'store_true' for k in n.keywords)
            if isinstance(a0, ast.Constant) and a0.value == '--generate-support':
                for k in n.keywords:
                    if k.arg == 'choices':
                        choices = sorted(ast.literal_eval(k.value))
    if not ok:
        raise Unsupported('--omit-serialization-support is not a store_true flag')
    if choices != ['always', 'as-needed', 'never', 'only']:
        raise Unsupported('--generate-support choices changed: %r' % (choices,))
    return ('Definition should_generate_support (gs : gsmode) (omit : bool) : bool :=\n'
            '  match gs with GSAsNeeded => (false || negb omit) | GSAlways | GSOnly => true | GSNever => false end.')


def tr_support_selection(tree: ast.Module) -> str:
    """SupportGenerator.get_templates: serialization support unless omitted, then type support"""
    fn = find_function(tree, 'SupportGenerator', 'get_templates')
    body = [st for st in fn.body if not (isinstance(st, ast.Expr) and isinstance(st.value, ast.Constant))]
    want = ("files = []\n"
            "if not omit_serialization_support:\n"
            "    for resource in self._get_templates_by_support_type(ResourceType.SERIALIZATION_SUPPORT):\n"
            "        files.append(resource)\n"
            "for resource in self._get_templates_by_support_type(ResourceType.TYPE_SUPPORT):\n"
            "    files.append(resource)\n"
            "return files")
    got = '\n'.join(ast.unparse(st) for st in body)
    if got != want:
        raise Unsupported('SupportGenerator.get_templates changed: %s' % got[:300])
    ga = find_function(tree, 'SupportGenerator', 'generate_all')
    loops = [n for n in ga.body if isinstance(n, ast.For) and _fs_calls(n)]
    if len(loops) != 1 or ast.unparse(loops[0].iter) != 'self.get_templates(omit_serialization_support)':
        raise Unsupported('SupportGenerator.generate_all does not iterate self.get_templates(omit_serialization_support)')
    return ('Definition support_selection {A : Type} (omit : bool) (ser typ : list A) : list A :=\n'
            '  (if negb omit then ser else []) ++ typ.')


def fix_state_flags() -> str:
    """which of C12's findings are recorded as FIXED (known_findings.d/C12.json): for those the regenerated gate is OBLIGED
    to refuse the corresponding entries (Properties/C12.v *_guard): a revert of the fix then breaks the build"""
    import json
    try:
        doc = json.load(open(os.path.join(gen.VERIF, 'known_findings.d', 'C12.json')))
    except OSError:
        doc = {'findings': []}
    st = {e['id']: e.get('status') for e in doc['findings']}
    out = []
    for fid, name in (('F-COPY-INTO-DIR', 'fixed_directory_refusal'), ('F-SYMLINK-TARGET', 'fixed_symlink_refusal'),
                      ('F-NONREGULAR-TARGET', 'fixed_nonregular_refusal')):
        out.append('Definition %s : bool := %s.   (* %s: %s *)' % (name, 'true' if st.get(fid) == 'fixed' else 'false', fid, st.get(fid)))
    return '\n'.join(out)


HEAD = (gen.HEADER % ', '.join([SRC_J, SRC_P, SRC_R])
        + 'From Coq Require Import NArith List Bool.\nFrom Verif Require Import RegenBase.\nImport ListNotations.\nOpen Scope N_scope.\n\n')


def gen_regen() -> typing.Tuple[bool, str]:
    try:
        jj = gen.parse_repo(SRC_J)
        pp = gen.parse_repo(SRC_P)
        rr = gen.parse_repo(SRC_R)
        check_all_calls_classified({SRC_J: jj, SRC_P: pp})
        parts = [tr_handle_overwrite(jj), tr_setfilemode(pp), tr_external_program(pp)]
        parts.append('Definition generate_code_skel : skel :=\n  %s.' % skel_of(
            jj, 'CodeGenerator', '_generate_code', 'output_path', ['self', 'output_path', 'template', 'template_gen', 'allow_overwrite']))
        parts.append('Definition copy_header_using_line_pps_skel : skel :=\n  %s.' % skel_of(
            jj, 'SupportGenerator', '_copy_header_using_line_pps', 'target', ['self', 'resource', 'target', 'line_pps']))
        parts.append('Definition copy_header_skel : skel :=\n  %s.' % skel_of(
            jj, 'SupportGenerator', '_copy_header', 'target', ['self', 'resource', 'target', 'is_dryrun', 'allow_overwrite', 'line_pps', 'file_pps']))
        parts.append('Definition generate_header_skel : skel :=\n  %s.' % skel_of(
            jj, 'SupportGenerator', '_generate_header', 'output_path', ['self', 'template_path', 'output_path', 'is_dryrun', 'allow_overwrite']))
        parts.append('Definition generate_type_skel : skel :=\n  %s.' % skel_of(
            jj, 'DSDLCodeGenerator', '_generate_type', 'output_path', ['self', 'input_type', 'output_path', 'is_dryrun', 'allow_overwrite']))
        check_support_dispatch(jj)
        check_type_loop(jj)
        parts.append('(* SupportGenerator.generate_all: `.j2` resources go to _generate_header, all others to _copy_header;\n'
                     '   DSDLCodeGenerator.generate_all: every (type, path) goes to _generate_type  -- checked structurally *)\n'
                     'Definition dispatch_checked : bool := true.')
        parts.append('Definition cli_generate_phases : list phase :=\n  %s.' % cli_phases(rr))
        parts.append('(* the guards of the two phases in ArgparseRunner._generate *)\n'
                     'Definition generates_types (gs : gsmode) : bool := match gs with GSOnly => false | _ => true end.')
        parts.append(tr_should_generate_support(rr))
        parts.append(tr_support_selection(jj))
        parts.append('Definition cli_pp_list : list (bool * ppclass) :=\n  %s.' % cli_pp_list(rr))
        parts.append(fix_state_flags())
    except (Unsupported, SyntaxError, OSError, AttributeError, IndexError) as ex:
        gen.write_if_changed(OUT, HEAD + '(* translator failed closed: %s *)\n' % str(ex).replace('*)', '* )').replace('(*', '( *'))
        return False, 'C12 translator failed closed: %s' % ex
    gen.write_if_changed(OUT, HEAD + '\n\n'.join(parts) + '\n')
    return True, 'ok'


GENERATORS = {'regen': gen_regen}
