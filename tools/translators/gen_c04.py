"""C04 translator -> coq/theories/Generated/Gen_C04.v

A small fail-closed scanner of the (de)serialization templates.  It does not translate code; it reads the STRUCTURAL facts the
hand-written model Codec/WalkerSafe.v relies on and emits them as booleans the theorems of Properties/C04.v are stated about:

  order facts (check textually precedes the accesses it protects, inside one macro, Jinja comments removed)
    c_ser_up_front_first        _serialize_impl: the `8*capacity < max` test and its TOO_SMALL return precede `offset_bits = 0U` and
                                every `_serialize_any`
    c_ser_check_guard_is_override  the #ifndef <T>_DISABLE_SERIALIZATION_BUFFER_CHECK_ around that test is emitted only under
                                `options.enable_override_variable_array_capacity`
    c_ser_len_check_first       _serialize_variable_length_array: `.count > capacity` -> BAD_ARRAY_LENGTH precedes the prefix store,
                                nunavutCopyBits and the element loop
    c_des_len_check_first       _deserialize_variable_length_array: prefix read, then `.count > capacity` -> BAD_ARRAY_LENGTH,
                                then nunavutGetBits / the element loop
    c_des_header_check_first    _deserialize_composite: `size > remaining` -> BAD_DELIMITER_HEADER precedes the nested call
    c_des_tag_chain_closed      _deserialize_impl / _serialize_impl: the union if/else-if chain ends in `else return BAD_UNION_TAG`
    c_len_check_is_dsdl_capacity  both length checks compare against `{{ t.capacity }}` (the DSDL capacity literal) while the
                                storage is `elements[<T>_<f>_ARRAY_CAPACITY_]` (definitions.j2) -- the two differ under the override
    c_len_check_storage         (the other recognised shape) under `options.enable_override_variable_array_capacity` both checks
                                compare against `sizeof(x.elements) / sizeof(x.elements[0])` (non-boolean elements), else the literal
    c_ser_guarded               a `_guard` macro (emits `if ((offset_bits + n) > (capacity_bytes * 8U)) return TOO_SMALL` iff the
                                override option is set) is called before every raw store / memmove / memset / nunavutCopyBits /
                                header reservation, and the nested size is clamped to the remaining capacity; false = no such macro
    c_des_ptr_clamped           _deserialize_composite passes `&buffer[nunavutChooseMin(offset_bits / 8U, capacity_bytes)]`
                                (false = the older `&buffer[offset_bits / 8U]`)
    c_des_remaining_live        the `remaining` the delimiter header is compared with is the template-level expression that reads
                                `offset_bits` where it is used (after the header has been read), not a C variable computed earlier
    c_getbits_zero_from_floor   nunavutGetBits zero-fills from `sat_bits / 8U` (so no stale destination bit survives)
    cpp_vla_clear_first         C++ _deserialize_variable_length_array: size check, `.clear()`, `.reserve(`, loop with push_back
    union_destroy_unfiltered    _fields_as_union.j2 destroy_current(): loop over `composite_type.fields_except_padding` WITHOUT a
                                loop filter, `if field is not PrimitiveType` inside, compares `tag_ == {{ loop.index0 }}`
    union_emplace_destroy_first emplace(): destroy_current(); do_emplace; tag_ = I  in this order
Anything that cannot be located (macro missing, marker missing or ambiguous) makes the translator fail closed.
"""
from __future__ import annotations

import os
import re
import typing

from . import gen
from . import gen_c04_seq as seqs

OUT = os.path.join(gen.GEN_DIR, 'Gen_C04.v')
C_SER = 'src/nunavut/lang/c/templates/serialization.j2'
C_DES = 'src/nunavut/lang/c/templates/deserialization.j2'
C_DEF = 'src/nunavut/lang/c/templates/definitions.j2'
C_SUP = 'src/nunavut/lang/c/support/serialization.j2'
CPP_DES = 'src/nunavut/lang/cpp/templates/deserialization.j2'
CPP_UNION = 'src/nunavut/lang/cpp/templates/_fields_as_union.j2'
SOURCES = ', '.join([C_SER, C_DES, C_DEF, C_SUP, CPP_DES, CPP_UNION])


Closed = seqs.Closed


def strip_comments(text: str) -> str:
    return re.sub(r'\{#.*?#\}', '', text, flags=re.S)


def macro(text: str, name: str) -> str:
    ms = list(re.finditer(r'\{%-?\s*macro\s+' + re.escape(name) + r'\s*\(', text))
    if len(ms) != 1:
        raise Closed('macro %s: %d definitions' % (name, len(ms)))
    start = ms[0].end()
    e = re.search(r'\{%-?\s*endmacro\s*-?%\}', text[start:])
    if not e:
        raise Closed('macro %s: no endmacro' % name)
    return text[start:start + e.start()]


def pos(body: str, pat: str, what: str, first: bool = True) -> int:
    ms = list(re.finditer(pat, body))
    if not ms:
        raise Closed('marker not found: ' + what)
    return ms[0].start() if first else ms[-1].start()


def all_pos(body: str, pat: str) -> typing.List[int]:
    return [m.start() for m in re.finditer(pat, body)]


def before(body: str, a: str, bs: typing.Sequence[str], what: str, need_all: bool = True) -> bool:
    """the LAST occurrence of a precedes the FIRST occurrence of every b (each b must occur unless need_all is False)"""
    pa = pos(body, a, what + ': ' + a, first=False)
    for b in bs:
        ps = all_pos(body, b)
        if not ps:
            if need_all:
                raise Closed('marker not found: %s: %s' % (what, b))
            continue
        if not pa < ps[0]:
            return False
    return True


def facts() -> typing.Dict[str, bool]:
    f: typing.Dict[str, bool] = {}
    ser = strip_comments(gen.read_repo(C_SER))
    des = strip_comments(gen.read_repo(C_DES))
    dfn = strip_comments(gen.read_repo(C_DEF))
    sup = strip_comments(gen.read_repo(C_SUP))
    cdes = strip_comments(gen.read_repo(CPP_DES))
    uni = strip_comments(gen.read_repo(CPP_UNION))

    # --- C serialization: up-front check
    impl = macro(ser, '_serialize_impl')
    chk = r'capacity_bytes\)\s*<\s*\{\{\s*t\.inner_type\.bit_length_set\.max\s*\}\}'
    ret = r'return\s+-NUNAVUT_ERROR_SERIALIZATION_BUFFER_TOO_SMALL'
    f['c_ser_up_front_first'] = (pos(impl, chk, 'up-front test') < pos(impl, ret, 'TOO_SMALL return')
                                 and before(impl, ret, [r'offset_bits\s*=\s*0U', r'_serialize_any\s*\(', r'_serialize_integer\s*\('],
                                            '_serialize_impl'))
    guards = all_pos(impl, r'#ifndef\s+\{\{\s*t\s*\|\s*full_reference_name\s*\}\}_DISABLE_SERIALIZATION_BUFFER_CHECK_')
    if len(guards) != 1:
        raise Closed('_serialize_impl: %d DISABLE_SERIALIZATION_BUFFER_CHECK_ guards' % len(guards))
    head = impl[:guards[0]]
    opens = all_pos(head, r'\{%-?\s*if\s+options\.enable_override_variable_array_capacity\s*-?%\}')
    closes = all_pos(head, r'\{%-?\s*endif\s*-?%\}')
    f['c_ser_check_guard_is_override'] = len(opens) == 1 and len(closes) == 0
    f['c_ser_tag_chain_closed'] = before(impl, r'\{%-?\s*endfor\s*-?%\}\s*else\s*\{\s*return\s+-NUNAVUT_ERROR_REPRESENTATION_BAD_UNION_TAG',
                                         [r'\{%-?\s*else\s*-?%\}\s*\{%-?\s*assert\s+False'], '_serialize_impl union chain')

    # --- C serialization: variable-length array
    vla = macro(ser, '_serialize_variable_length_array')
    lchk = r'\.count\s*>\s*(?:\{\{\s*t\.capacity\s*\}\}|\{\{\s*_storage_capacity\(t,\s*reference\)\s*\}\}|\(sizeof\()'
    lchk_lit = r'\.count\s*>\s*\{\{\s*t\.capacity\s*\}\}'
    f['c_ser_len_check_first'] = (pos(vla, lchk, 'ser length test') < pos(vla, r'return\s+-NUNAVUT_ERROR_REPRESENTATION_BAD_ARRAY_LENGTH', 'BAD_ARRAY_LENGTH')
                                  and before(vla, r'return\s+-NUNAVUT_ERROR_REPRESENTATION_BAD_ARRAY_LENGTH',
                                             [r'_serialize_integer\s*\(', r'nunavutCopyBits\s*\(', r'for\s*\(size_t', r'_serialize_any\s*\('],
                                             '_serialize_variable_length_array'))

    # --- C serialization: run-time guards of the unchecked stores (second recognised shape)
    raw_store = r'buffer\[[^\]]*\]\s*=|memmove\s*\(|memset\s*\(|nunavutCopyBits\s*\('
    gcall = r'\{\{\s*_guard\('
    if re.search(r'macro\s+_guard\s*\(', ser):
        g = macro(ser, '_guard')
        ok_g = (len(all_pos(g, r'\{%-?\s*if\s+options\.enable_override_variable_array_capacity\s*-?%\}')) == 1
                and len(all_pos(g, r'if\s*\(\(offset_bits\s*\+\s*\{\{\s*n_bits\s*\}\}\)\s*>\s*\(capacity_bytes\s*\*\s*8U\)\)')) == 1
                and pos(g, r'if\s*\(\(offset_bits', 'guard test') < pos(g, r'return\s+-NUNAVUT_ERROR_SERIALIZATION_BUFFER_TOO_SMALL', 'guard return'))
        for name in ('_serialize_void', '_serialize_boolean', '_serialize_integer', '_serialize_float'):
            b = macro(ser, name)
            ok_g = ok_g and len(all_pos(b, gcall)) == 1 and all(pos(b, gcall, name) < x for x in all_pos(b, raw_store))
        for name in ('_serialize_fixed_length_array', '_serialize_variable_length_array'):
            b = macro(ser, name)
            for x in all_pos(b, r'nunavutCopyBits\s*\('):
                prev = [y for y in all_pos(b, gcall) if y < x]
                between = b[prev[-1]:x] if prev else 'nunavutCopyBits('
                ok_g = ok_g and bool(prev) and not re.search(raw_store, between) and 'offset_bits +=' not in between
        b = macro(ser, '_serialize_composite')
        clamp = r'if\s*\(\{\{\s*ref_size_bytes\s*\}\}\s*>\s*\(capacity_bytes\s*-\s*\(offset_bits\s*/\s*8U\)\)\)'
        ok_g = (ok_g and len(all_pos(b, clamp)) == 1 and pos(b, clamp, 'nested clamp') < pos(b, r'_serialize_\(', 'nested call')
                and pos(b, gcall, 'reserve guard') < pos(b, r'offset_bits\s*\+=\s*\{\{\s*t\.delimiter_header_type\.bit_length\s*\}\}U', 'reserve')
                and len([y for y in all_pos(b, gcall) if y < pos(b, clamp, 'nested clamp')]) >= 2)
        if not ok_g:
            raise Closed('_guard macro present but not in front of every unchecked store')
        f['c_ser_guarded'] = True
    else:
        if re.search(gcall, ser):
            raise Closed('_guard called but not defined')
        f['c_ser_guarded'] = False

    # --- C deserialization
    dvla = macro(des, '_deserialize_variable_length_array')
    f['c_des_len_check_first'] = (pos(dvla, r'_deserialize_integer\s*\(\s*t\.length_field_type', 'prefix read') < pos(dvla, lchk, 'des length test')
                                  and before(dvla, r'return\s+-NUNAVUT_ERROR_REPRESENTATION_BAD_ARRAY_LENGTH',
                                             [r'nunavutGetBits\s*\(', r'for\s*\(size_t', r'_deserialize_any\s*\('],
                                             '_deserialize_variable_length_array'))
    storage_decl = len(all_pos(dfn, r"'elements',\s*'\[%s_%s_ARRAY_CAPACITY_\]'")) == 1
    old_shape = (len(all_pos(vla, lchk_lit)) == 1 and len(all_pos(dvla, lchk_lit)) == 1 and len(all_pos(vla, lchk)) == 1
                 and len(all_pos(dvla, lchk)) == 1 and 'sizeof' not in vla and 'sizeof' not in dvla)
    sz = r'\(sizeof\(\{\{\s*reference\s*\}\}\.elements\)\s*/\s*sizeof\(\{\{\s*reference\s*\}\}\.elements\[0\]\)\)'
    opt_nb = r'\{%-?\s*if\s+options\.enable_override_variable_array_capacity\s+and\s+t\.element_type\s+is\s+not\s+BooleanType\s*-?%\}'
    new_ser = False
    if '_storage_capacity' in ser:
        sc = macro(ser, '_storage_capacity')
        new_ser = (len(all_pos(sc, opt_nb)) == 1 and len(all_pos(sc, sz)) == 1 and pos(sc, opt_nb, 'opt') < pos(sc, sz, 'sizeof')
                   < pos(sc, r'\{%-?\s*else\s*-?%\}', 'else') < pos(sc, r'\{\{\s*t\.capacity\s*\}\}', 'literal')
                   and len(all_pos(vla, r'\.count\s*>\s*\{\{\s*_storage_capacity\(t,\s*reference\)\s*\}\}')) == 1 and len(all_pos(vla, lchk)) == 1)
    new_des = (len(all_pos(dvla, opt_nb)) == 1 and len(all_pos(dvla, r'\.count\s*>\s*' + sz)) == 1 and len(all_pos(dvla, lchk_lit)) == 1
               and pos(dvla, opt_nb, 'opt') < pos(dvla, r'\.count\s*>\s*' + sz, 'sizeof test') < pos(dvla, lchk_lit, 'literal test'))
    if not storage_decl or not (old_shape or (new_ser and new_des)):
        raise Closed('array length checks: neither the DSDL-capacity shape nor the storage-capacity shape (ser new=%s des new=%s)' % (new_ser, new_des))
    f['c_len_check_is_dsdl_capacity'] = old_shape
    f['c_len_check_storage'] = (not old_shape) and new_ser and new_des
    dcomp = macro(des, '_deserialize_composite')
    f['c_des_header_check_first'] = before(dcomp, r'return\s+-NUNAVUT_ERROR_REPRESENTATION_BAD_DELIMITER_HEADER',
                                           [r'_deserialize_\s*\('], '_deserialize_composite')
    nested_ptr = re.findall(r'_deserialize_\(\s*&\{\{\s*reference\s*\}\},\s*&buffer\[([^\]]*)\]', dcomp)
    if len(nested_ptr) != 1:
        raise Closed('_deserialize_composite: nested call shape not recognised')
    np_ = nested_ptr[0].replace(' ', '')
    if np_ == 'nunavutChooseMin(offset_bits/8U,capacity_bytes)':
        f['c_des_ptr_clamped'] = True
    elif np_ == 'offset_bits/8U':
        f['c_des_ptr_clamped'] = False
    else:
        raise Closed('_deserialize_composite: nested pointer expression not recognised: ' + np_)
    rem = re.findall(r'\{%-?\s*set\s+remaining_bytes\s*-?%\}(.*?)\{%-?\s*endset\s*-?%\}', dcomp, flags=re.S)
    f['c_des_remaining_live'] = (len(rem) == 1 and rem[0].strip().replace(' ', '') == '(capacity_bytes-nunavutChooseMin((offset_bits/8U),capacity_bytes))'
                                 and len(all_pos(dcomp, r'if\s*\(\{\{\s*ref_size_bytes\s*\}\}\s*>\s*\{\{\s*remaining_bytes\s*\}\}\)')) == 1
                                 and pos(dcomp, r'_deserialize_integer\(t\.delimiter_header_type', 'header read')
                                 < pos(dcomp, r'if\s*\(\{\{\s*ref_size_bytes\s*\}\}\s*>\s*\{\{\s*remaining_bytes\s*\}\}\)', 'header test'))
    dimpl = macro(des, '_deserialize_impl')
    f['c_des_tag_chain_closed'] = before(dimpl, r'\{%-?\s*endfor\s*-?%\}\s*else\s*\{\s*return\s+-NUNAVUT_ERROR_REPRESENTATION_BAD_UNION_TAG',
                                         [r'\{%-?\s*else\s*-?%\}\s*\{%-?\s*assert\s+False'], '_deserialize_impl union chain')
    dbool = macro(des, '_deserialize_boolean')
    f['c_des_bool_guarded'] = before(dbool, r'if\s*\(offset_bits\s*<\s*capacity_bits\)', [r'buffer\[offset_bits\s*/\s*8U\]'], '_deserialize_boolean')
    dint = macro(des, '_deserialize_integer')
    f['c_des_byte_guarded'] = before(dint, r'if\s*\(\(offset_bits\s*\+\s*\{\{\s*t\.bit_length\s*\}\}U\)\s*<=\s*capacity_bits\)',
                                     [r'buffer\[offset_bits\s*/\s*8U\]'], '_deserialize_integer')

    # --- support: nunavutGetBits
    m = re.search(r'static inline void nunavutGetBits\(.*?\n\}', sup, flags=re.S)
    if not m:
        raise Closed('nunavutGetBits not found')
    gb = m.group(0)
    ms = re.findall(r'memset\(\(\(uint8_t\*\)output\)\s*\+\s*\(([^)]*)\)\s*,\s*0\s*,\s*\(\(len_bits \+ 7U\) / 8U\)\s*-\s*\(([^)]*)\)\)', gb)
    if len(ms) != 1:
        raise Closed('nunavutGetBits: memset shape not recognised')
    f['c_getbits_zero_from_floor'] = (ms[0][0].replace(' ', '') == 'sat_bits/8U' and ms[0][1].replace(' ', '') == 'sat_bits/8U'
                                      and gb.index('memset') < gb.index('nunavutCopyBits(output'))

    # --- C++ variable-length array
    cvla = macro(cdes, '_deserialize_variable_length_array')
    p_chk = pos(cvla, r'>\s*\{\{\s*t\.capacity\s*\}\}U\)', 'C++ size test')
    p_ret = pos(cvla, r'return\s+-nunavut::support::Error::SerializationBadArrayLength', 'C++ bad length')
    clears = all_pos(cvla, r'\{\{\s*reference\s*\}\}\.clear\(\)\s*;')
    p_res = pos(cvla, r'\{\{\s*reference\s*\}\}\.reserve\(', 'reserve')
    p_for = pos(cvla, r'for\s*\(', 'C++ loop')
    p_push = pos(cvla, r'\.push_back\(', 'push_back')
    f['cpp_vla_clear_first'] = len(clears) == 1 and p_chk < p_ret < clears[0] < p_res < p_for < p_push

    # --- C++14 union emulation
    m = re.search(r'void destroy_current\(\)\s*\{(.*?)\n        \}\n', uni, flags=re.S)
    if not m:
        raise Closed('destroy_current not found')
    dc = m.group(1)
    loops = re.findall(r'\{%-?\s*for\s+field\s+in\s+([^%]*?)\s*-?%\}', dc)
    if len(loops) != 1:
        raise Closed('destroy_current: %d loops' % len(loops))
    f['union_destroy_unfiltered'] = (loops[0].strip() == 'composite_type.fields_except_padding'
                                     and len(all_pos(dc, r'\{%-?\s*if\s+field\s+is\s+not\s+PrimitiveType\s*-?%\}')) == 1
                                     and len(all_pos(dc, r'if\s*\(tag_\s*==\s*\{\{\s*loop\.index0\s*\}\}\)')) == 1
                                     and dc.index('{%- if field is not PrimitiveType') < dc.index('tag_ ==') < dc.index('{%- endif'))
    m = re.search(r'emplace\(Args&&\.\.\. v\)\s*\{(.*?)\n        \}\n', uni, flags=re.S)
    if not m:
        raise Closed('emplace not found')
    em = m.group(1)
    f['union_emplace_destroy_first'] = (pos(em, r'destroy_current\(\)\s*;', 'emplace destroy') < pos(em, r'do_emplace<I>\(', 'emplace construct')
                                        < pos(em, r'tag_\s*=\s*I\s*;', 'emplace tag'))
    csup = strip_comments(gen.read_repo('src/nunavut/lang/cpp/support/serialization.j2'))
    sub_ptr, f['cpp_subspan_clamped'] = seqs.subspan_ptr(csup)
    _SEQS.clear()
    _SEQS['subspan_ptr'] = sub_ptr
    _SEQS['setzeros'] = seqs.setzeros_accesses(csup)
    cser = strip_comments(gen.read_repo('src/nunavut/lang/cpp/templates/serialization.j2'))
    cpp_ev, f['cpp_ser_stores_checked'] = seqs.cpp_ser_facts(macro, cser, csup)
    f['cpp_getters_bytewise'] = seqs.cpp_getters_bytewise(csup)
    hk = seqs.cpp_hdr_check(macro, cdes)
    f['cpp_hdr_check_nomul'] = hk == 'HDivCmp'
    f['c_assert_max_not_under_override'] = seqs.c_assert_max_not_under_override(ser, cser)
    _SEQS['hdr'] = hk
    _SEQS.update({'vla': seqs.coq_vla(seqs.vla_paths(macro(cdes, '_deserialize_variable_length_array').split('%}', 1)[1])), 'union': seqs.union_seqs(uni),
                  'cev': dict(seqs.c_event_seqs(macro, ser, des), **cpp_ev)})
    return f


_SEQS: typing.Dict[str, typing.Any] = {}
STATE = ['c_len_check_is_dsdl_capacity', 'c_len_check_storage', 'c_ser_guarded', 'c_des_ptr_clamped', 'cpp_subspan_clamped', 'cpp_hdr_check_nomul', 'c_assert_max_not_under_override']   # either value is a recognised shape
ORDER = ['c_ser_up_front_first', 'c_ser_check_guard_is_override', 'c_ser_tag_chain_closed', 'c_ser_len_check_first', 'c_des_len_check_first',
         'c_len_check_is_dsdl_capacity', 'c_len_check_storage', 'c_ser_guarded', 'c_des_ptr_clamped', 'c_des_remaining_live', 'c_des_header_check_first', 'c_des_tag_chain_closed', 'c_des_bool_guarded', 'c_des_byte_guarded',
         'c_getbits_zero_from_floor', 'cpp_hdr_check_nomul', 'c_assert_max_not_under_override', 'cpp_ser_stores_checked', 'cpp_getters_bytewise', 'cpp_subspan_clamped', 'cpp_vla_clear_first', 'union_destroy_unfiltered', 'union_emplace_destroy_first']


WIDTHS = {'uint8_t': 8, 'uint16_t': 16, 'uint32_t': 32, 'uint64_t': 64, 'unsigned char': 8}


def named_widths() -> typing.Dict[str, int]:
    """bit widths of the cursor / length types the templates are rendered with (lang/properties.yaml named_types), for c and cpp;
    size_t is the target's (the harness builds for this host: LP64)"""
    import struct
    text = gen.read_repo('src/nunavut/lang/properties.yaml')
    out = {}
    for lang in ('c', 'cpp'):
        m = re.search(r'^nunavut\.lang\.%s:\n(.*?)(?=^nunavut\.lang\.|\Z)' % lang, text, flags=re.S | re.M)
        if not m:
            raise Closed('properties.yaml: section nunavut.lang.%s not found' % lang)
        for key in ('unsigned_length', 'unsigned_bit_length'):
            mm = re.findall(r"^\s+'%s':\s*'([^']*)'\s*$" % key, m.group(1), flags=re.M)
            if len(mm) != 1:
                raise Closed('properties.yaml: %s.%s not found' % (lang, key))
            name = mm[0].replace('std::', '')
            if name == 'size_t':
                bits = struct.calcsize('N') * 8
            elif name in WIDTHS:
                bits = WIDTHS[name]
            else:
                raise Closed('properties.yaml: %s.%s = %r: width unknown' % (lang, key, mm[0]))
            out['%s_%s' % (lang, key)] = bits
    return out


def gen_c04() -> typing.Tuple[bool, str]:
    try:
        f = facts()
        widths = named_widths()
        missing = [k for k in ORDER if k not in f]
        if missing:
            raise Closed('facts not computed: %s' % missing)
    except (Closed, OSError, ValueError) as ex:
        gen.write_if_changed(OUT, gen.HEADER % SOURCES + '(* translator failed closed: %s *)\n' % str(ex).replace('*)', '* )'))
        return False, 'failed closed: %s' % ex
    lines = [gen.HEADER % SOURCES, 'From Verif Require Import WalkerSafe WalkerSafeCpp.\nFrom Coq Require Import List.\nImport ListNotations.\n',
             '(* structural facts of the (de)serialization templates read by tools/translators/gen_c04.py *)\n']
    for k in ORDER:
        lines.append('Definition tpl_%s : bool := %s.\n' % (k, 'true' if f[k] else 'false'))
    lines.append('\nDefinition tpl_order_facts : bool :=\n  %s.\n' % ' && '.join('tpl_' + k for k in ORDER if (not k.startswith(('cpp_', 'union_')) or k in ('cpp_ser_stores_checked', 'cpp_getters_bytewise')) and k not in STATE))
    lines.append('\n(* bit widths of the named cursor / length types (lang/properties.yaml named_types) *)\n')
    for k, v in sorted(widths.items()):
        lines.append('Definition tpl_width_%s : nat := %d.\n' % (k, v))
    lines.append('\n(* statement sequences, in textual order; interpreted / decided on the Coq side *)\n')
    lines.append('Definition tpl_cpp_vla_paths : list (list vstmt) :=\n  %s.\n' % _SEQS['vla'])
    lines.append('Definition tpl_cpp_subspan_ptr : sexp := %s.\n' % _SEQS['subspan_ptr'])
    lines.append('Definition tpl_cpp_hdr_check : hchk := %s.\n' % _SEQS['hdr'])
    lines.append('Definition tpl_cpp_setzeros_accesses : list zacc := %s.\n' % _SEQS['setzeros'])
    lines.append('Definition tpl_union_emplace : list ustmt := %s.\n' % _SEQS['union']['emplace'])
    lines.append('Definition tpl_union_ctor : list cstmt := %s.\n' % _SEQS['union']['ctor'])
    lines.append('Definition tpl_union_dshape : dshape := %s.\n' % _SEQS['union']['dshape'])
    for k, v in _SEQS['cev'].items():
        lines.append('Definition tpl_c_events_%s : list ev := %s.\n' % (k, v))
    gen.write_if_changed(OUT, ''.join(lines))
    bad = [k for k in ORDER if not f[k] and k not in STATE]
    return True, 'Gen_C04.v: %d facts, false: %s; state: %s' % (len(ORDER), bad or 'none', {k: f[k] for k in STATE})


GENERATORS = {'c04': gen_c04}
