"""C03 translator `c03opt` -> coq/theories/Generated/Gen_C03Opt.v: for every language option that lang/properties.yaml declares for
nunavut.lang.c / nunavut.lang.cpp, WHERE it reaches the codec templates of that language:

  direct:<file>            a template expression of a codec template mentions `options.<key>`
  filter:<name>@<file>     a codec template applies the filter / test <name> whose implementation (lang/<l>/__init__.py, followed
                           through calls to other module-level functions, incl. the C filters the C++ module imports) reads the
                           option with `get_option("<key>")`

Codec templates = the (de)serialization templates, the support header and the definitions template that supplies their macros
(LITTLE_ENDIAN, assert).  Declaration templates (base.j2, _composite_type.j2, _fields*.j2) are NOT codec templates: an option that
only occurs there changes the storage object, not the (de)serialization code.  The classification of Spec/TargetsC03.v is checked
against these lists in Codec/ObsC03Tie.v ("no codec influence" <-> empty list).  Fail closed on anything unexpected."""
from __future__ import annotations

import ast
import os
import re
import typing

from . import gen

CODEC_TEMPLATES = {
    'c': ['src/nunavut/lang/c/templates/serialization.j2', 'src/nunavut/lang/c/templates/deserialization.j2',
          'src/nunavut/lang/c/templates/definitions.j2', 'src/nunavut/lang/c/support/serialization.j2'],
    'cpp': ['src/nunavut/lang/cpp/templates/serialization.j2', 'src/nunavut/lang/cpp/templates/deserialization.j2',
            'src/nunavut/lang/cpp/templates/_definitions.j2', 'src/nunavut/lang/cpp/support/serialization.j2'],
}
MODULES = {'c': 'src/nunavut/lang/c/__init__.py', 'cpp': 'src/nunavut/lang/cpp/__init__.py'}


def option_keys(lang: str) -> typing.List[str]:
    import yaml  # data only
    doc = yaml.safe_load(gen.read_repo('src/nunavut/lang/properties.yaml'))
    return list(doc['nunavut.lang.' + lang]['options'].keys())


def function_options(lang: str) -> typing.Dict[str, typing.Set[str]]:
    """module-level function name -> option keys it reads (transitively through calls to other module-level functions)"""
    tree = gen.parse_repo(MODULES[lang])
    direct: typing.Dict[str, typing.Set[str]] = {}
    calls: typing.Dict[str, typing.Set[str]] = {}
    imported: typing.Dict[str, typing.Tuple[str, str]] = {}        # local alias -> (language, function)
    for node in tree.body:
        if isinstance(node, ast.ImportFrom) and node.module and node.module.endswith('lang.c'):
            for a in node.names:
                imported[a.asname or a.name] = ('c', a.name)
        if isinstance(node, (ast.FunctionDef, ast.AsyncFunctionDef)):
            opts, cs = set(), set()
            for sub in ast.walk(node):
                if isinstance(sub, ast.Call):
                    f = sub.func
                    if isinstance(f, ast.Attribute) and f.attr == 'get_option' and sub.args and isinstance(sub.args[0], ast.Constant) \
                            and isinstance(sub.args[0].value, str):
                        opts.add(sub.args[0].value)
                    elif isinstance(f, ast.Name):
                        cs.add(f.id)
            direct[node.name], calls[node.name] = opts, cs
    other = function_options('c') if (lang != 'c' and imported) else {}
    changed = True
    while changed:
        changed = False
        for fn in direct:
            for callee in calls[fn]:
                add: typing.Set[str] = set()
                if callee in direct:
                    add = direct[callee]
                elif callee in imported and imported[callee][1] in other:
                    add = other[imported[callee][1]]
                if not add <= direct[fn]:
                    direct[fn] |= add
                    changed = True
    for alias, (_, name) in imported.items():
        if name in other:
            direct.setdefault(alias, set()).update(other[name])
    return direct


def scan(lang: str) -> typing.List[typing.Tuple[str, typing.List[str]]]:
    keys = option_keys(lang)
    fopts = function_options(lang)
    uses: typing.Dict[str, typing.List[str]] = {k: [] for k in keys}
    for rel in CODEC_TEMPLATES[lang]:
        text = gen.read_repo(rel)
        short = rel.replace('src/nunavut/lang/', '')
        for k in keys:
            if re.search(r'\boptions\.%s\b' % re.escape(k), text):
                uses[k].append('direct:' + short)
        names = set(re.findall(r'\|\s*([A-Za-z_]\w*)', text))
        tests = set(re.findall(r'\bis\s+(?:not\s+)?([A-Za-z_]\w*)', text))
        for nm, fn in sorted([(n, 'filter_' + n) for n in names] + [(n, 'is_' + n) for n in tests]):
            for k in sorted(fopts.get(fn, ())):
                if k in uses:
                    uses[k].append('filter:%s@%s' % (nm, short))
    for k in uses:
        seen, out = set(), []
        for u in uses[k]:
            if u not in seen:
                seen.add(u)
                out.append(u)
        uses[k] = out
    return [(k, uses[k]) for k in keys]


def coq_list(name: str, rows) -> str:
    items = []
    for k, us in rows:
        items.append('  ("%s", [%s])' % (k, '; '.join('"%s"' % u for u in us)))
    return 'Definition %s : list (string * list string) :=\n [%s].\n' % (name, ';\n '.join(i.strip() and i for i in items))


def gen_c03opt() -> typing.Tuple[bool, str]:
    path = os.path.join(gen.GEN_DIR, 'Gen_C03Opt.v')
    srcs = 'src/nunavut/lang/properties.yaml, lang/c/__init__.py, lang/cpp/__init__.py, the codec templates of lang/c and lang/cpp'
    try:
        c_rows, cpp_rows = scan('c'), scan('cpp')
        if not c_rows or not cpp_rows:
            raise ValueError('no options found')
        for _, us in c_rows + cpp_rows:
            for u in us:
                if '"' in u or '\n' in u:
                    raise ValueError('unexpected character in a use site: %r' % u)
    except Exception as ex:  # noqa: BLE001  fail closed
        gen.write_if_changed(path, gen.HEADER % srcs + '(* translator c03opt failed closed: %s *)\n' % str(ex).replace('*)', '* )'))
        return False, 'c03opt failed closed: %r' % (ex,)
    text = gen.HEADER % srcs
    text += 'From Coq Require Import List String.\nImport ListNotations.\nLocal Open Scope string_scope.\n\n'
    text += ('(* option -> where it reaches the codec templates (direct `options.<key>` mention, or through a filter / test whose\n'
             '   implementation reads it); empty list = the option does not reach the (de)serialization code *)\n')
    text += coq_list('c_codec_option_uses', c_rows) + '\n' + coq_list('cpp_codec_option_uses', cpp_rows)
    gen.write_if_changed(path, text)
    n_c = sum(1 for _, us in c_rows if us)
    n_cpp = sum(1 for _, us in cpp_rows if us)
    return True, 'ok (%d of %d C options and %d of %d C++ options reach the codec templates)' % (n_c, len(c_rows), n_cpp, len(cpp_rows))


GENERATORS = {'c03opt': gen_c03opt}
