"""C06 translator: regenerates coq/theories/Generated/Gen_Closure.v from /repo's working tree.

What is read (with `ast` / as data, nothing of nunavut is imported):
  * Language.get_includes of lang/c and lang/cpp  -> tables  list (cond * header)  (conditions over dependency flags,
    use_standard_types, has_variant); the C++ tail (allocator_include, variable_array_type_include) is shape-checked;
  * the path call sites: which function IncludeGenerator.generate_include_filepart_list and Namespace._add_data_type call to
    build a type's path, which id_type make_path / _make_ns_list / Namespace.__init__ pass to filter_id / filter_short_reference_name,
    the default id_type of filter_id (what filter_imports / open_namespace use);
  * properties.yaml: extension, support_namespace, prefer_system_includes, namespace_file_stem, has_standard_namespace_files,
    C++ options/defaults (variable_array_type_include, allocator_include per --language-standard);
  * the support resources (lang/<l>/support/*.j2|.h|.hpp|.py) and the #include list of the C / C++ serialization support header;
  * the standard names the C and C++ type templates mention (scan of lang/<l>/templates/*.j2 over a fixed universe of names).
Anything outside the expected shape -> stub + (False, reason): fail closed."""
from __future__ import annotations

import ast
import os
import re
import typing

import yaml

from . import gen

OUT = os.path.join(gen.GEN_DIR, 'Gen_Closure.v')
FLAGS = {'uses_integer': 'FInt', 'uses_float': 'FFloat', 'uses_variable_length_array': 'FVla', 'uses_array': 'FArr',
         'uses_boolean_static_array': 'FBoolArr', 'uses_bool': 'FBool', 'uses_primitive_static_array': 'FPrimArr', 'uses_union': 'FUnion'}

# universe of standard names looked for in the C templates (everything Gen/Closure.v's `declares` table knows about)
C_UNIVERSE = ['NULL', 'size_t', 'uint8_t', 'uint16_t', 'uint32_t', 'uint64_t', 'int8_t', 'int16_t', 'int32_t', 'int64_t', 'bool', 'true', 'false',
              'memset', 'memcpy', 'memmove', 'memcmp', 'strlen', 'static_assert', 'assert', 'isfinite', 'isnan', 'isinf', 'malloc', 'free', 'abort',
              'INT8_MAX', 'INT16_MAX', 'INT32_MAX', 'INT64_MAX', 'UINT8_MAX', 'UINT16_MAX', 'UINT32_MAX', 'UINT64_MAX', 'SIZE_MAX',
              'INT8_MIN', 'INT16_MIN', 'INT32_MIN', 'INT64_MIN', 'FLT_MAX', 'DBL_MAX', 'CHAR_BIT', 'uintptr_t', 'ptrdiff_t', 'offsetof', 'printf']


class Unsupported(Exception):
    pass


def coq_str(s: str) -> str:
    return '[' + '; '.join(str(ord(c)) for c in s) + ']%N' + ' (* %s *)' % s.replace('*)', '* )')


def coq_strs(l: typing.Sequence[str]) -> str:
    return '[' + ';\n   '.join(coq_str(s) for s in l) + ']' if l else '[]'


def find_method(mod: ast.Module, cls: str, name: str) -> ast.FunctionDef:
    for n in mod.body:
        if isinstance(n, ast.ClassDef) and n.name == cls:
            for m in n.body:
                if isinstance(m, ast.FunctionDef) and m.name == name:
                    return m
    raise Unsupported('%s.%s not found' % (cls, name))


def find_class_with_method(mod: ast.Module, name: str) -> ast.FunctionDef:
    for n in mod.body:
        if isinstance(n, ast.ClassDef):
            for m in n.body:
                if isinstance(m, ast.FunctionDef) and m.name == name:
                    return m
    raise Unsupported('method %s not found' % name)


def strip_doc(body: typing.List[ast.stmt]) -> typing.List[ast.stmt]:
    if body and isinstance(body[0], ast.Expr) and isinstance(body[0].value, ast.Constant) and isinstance(body[0].value.value, str):
        return body[1:]
    return body


# ---- get_includes -> condition table -------------------------------------------------------------
def tr_cond(e: ast.expr, dep: str) -> str:
    if isinstance(e, ast.Attribute) and isinstance(e.value, ast.Name):
        if e.value.id == dep and e.attr in FLAGS:
            return '(CFlag %s)' % FLAGS[e.attr]
        if e.value.id == 'self' and e.attr == 'has_variant':
            return 'CHasVariant'
    if (isinstance(e, ast.Call) and isinstance(e.func, ast.Attribute) and e.func.attr == 'get_config_value_as_bool' and len(e.args) == 1
            and isinstance(e.args[0], ast.Constant) and e.args[0].value == 'use_standard_types' and not e.keywords):
        return 'CStdTypes'
    if isinstance(e, ast.BoolOp):
        op = 'CAnd' if isinstance(e.op, ast.And) else 'COr'
        parts = [tr_cond(v, dep) for v in e.values]
        acc = parts[0]
        for p in parts[1:]:
            acc = '(%s %s %s)' % (op, acc, p)
        return acc
    if isinstance(e, ast.UnaryOp) and isinstance(e.op, ast.Not):
        return '(CNot %s)' % tr_cond(e.operand, dep)
    raise Unsupported('condition outside the subset: ' + ast.dump(e)[:120])


def walk_appends(stmts: typing.List[ast.stmt], conds: typing.List[str], dep: str, lst: str, out: typing.List[typing.Tuple[str, str]]) -> None:
    for s in stmts:
        if isinstance(s, ast.If):
            if s.orelse:
                raise Unsupported('else branch in get_includes')
            walk_appends(s.body, conds + [tr_cond(s.test, dep)], dep, lst, out)
        elif (isinstance(s, ast.Expr) and isinstance(s.value, ast.Call) and isinstance(s.value.func, ast.Attribute) and s.value.func.attr == 'append'
              and isinstance(s.value.func.value, ast.Name) and s.value.func.value.id == lst and len(s.value.args) == 1
              and isinstance(s.value.args[0], ast.Constant) and isinstance(s.value.args[0].value, str)):
            c = 'CTrue'
            for x in conds:
                c = x if c == 'CTrue' else '(CAnd %s %s)' % (c, x)
            out.append((c, s.value.args[0].value))
        elif isinstance(s, ast.Expr) and isinstance(s.value, ast.Constant):
            continue  # comment string
        else:
            raise Unsupported('statement outside the subset in get_includes: ' + ast.dump(s)[:120])


SORTED_RETURN = "ListComp(elt=JoinedStr(values=[Constant(value='<'), FormattedValue(value=Name(id='include', ctx=Load()), conversion=-1), Constant(value='>')]), generators=[comprehension(target=Name(id='include', ctx=Store()), iter=Call(func=Name(id='sorted', ctx=Load()), args=[Name(id='std_includes', ctx=Load())], keywords=[]), ifs=[], is_async=0)])"

CPP_TAIL = [
    "Assign(targets=[Name(id='allocator_include', ctx=Store())], value=Call(func=Name(id='str', ctx=Load()), args=[Call(func=Attribute(value=Name(id='self', ctx=Load()), attr='get_option', ctx=Load()), args=[Constant(value='allocator_include'), Constant(value='')], keywords=[])], keywords=[]))",
    "If(test=Compare(left=Call(func=Name(id='len', ctx=Load()), args=[Name(id='allocator_include', ctx=Load())], keywords=[]), ops=[Gt()], comparators=[Constant(value=0)]), body=[Expr(value=Call(func=Attribute(value=Name(id='includes_formatted', ctx=Load()), attr='append', ctx=Load()), args=[Name(id='allocator_include', ctx=Load())], keywords=[]))], orelse=[])",
    "If(test=Attribute(value=Name(id='dep_types', ctx=Load()), attr='uses_variable_length_array', ctx=Load()), body=[Assign(targets=[Name(id='variable_array_include', ctx=Store())], value=Call(func=Name(id='str', ctx=Load()), args=[Call(func=Attribute(value=Name(id='self', ctx=Load()), attr='get_option', ctx=Load()), args=[Constant(value='variable_array_type_include'), Constant(value='')], keywords=[])], keywords=[])), If(test=Compare(left=Call(func=Name(id='len', ctx=Load()), args=[Name(id='variable_array_include', ctx=Load())], keywords=[]), ops=[Gt()], comparators=[Constant(value=0)]), body=[Expr(value=Call(func=Attribute(value=Name(id='includes_formatted', ctx=Load()), attr='append', ctx=Load()), args=[Name(id='variable_array_include', ctx=Load())], keywords=[]))], orelse=[])], orelse=[])",
    "Return(value=Name(id='includes_formatted', ctx=Load()))",
]


def tr_get_includes(rel: str, cpp: bool) -> typing.List[typing.Tuple[str, str]]:
    mod = gen.parse_repo(rel)
    fn = find_class_with_method(mod, 'get_includes')
    args = [a.arg for a in fn.args.args]
    if args != ['self', 'dep_types']:
        raise Unsupported('get_includes signature %s' % args)
    body = strip_doc(fn.body)
    if not (isinstance(body[0], (ast.Assign, ast.AnnAssign))):
        raise Unsupported('get_includes does not start with the list initialisation')
    tgt = body[0].targets[0] if isinstance(body[0], ast.Assign) else body[0].target
    if not (isinstance(tgt, ast.Name) and tgt.id == 'std_includes' and isinstance(body[0].value, ast.List) and not body[0].value.elts):
        raise Unsupported('get_includes: std_includes = [] expected')
    out: typing.List[typing.Tuple[str, str]] = []
    if not cpp:
        walk_appends(body[1:-1], [], 'dep_types', 'std_includes', out)
        ret = body[-1]
        if not (isinstance(ret, ast.Return) and ast.dump(ret.value) == SORTED_RETURN):
            raise Unsupported('C get_includes does not return [f"<{include}>" for include in sorted(std_includes)]')
    else:
        # appends ..., includes_formatted = [<sorted>], then the fixed tail
        idx = None
        for i, s in enumerate(body):
            if isinstance(s, ast.Assign) and isinstance(s.targets[0], ast.Name) and s.targets[0].id == 'includes_formatted':
                idx = i
        if idx is None or ast.dump(body[idx].value) != SORTED_RETURN:
            raise Unsupported('C++ get_includes: includes_formatted = [f"<{include}>" for include in sorted(std_includes)] expected')
        walk_appends(body[1:idx], [], 'dep_types', 'std_includes', out)
        tail = [ast.dump(s) for s in body[idx + 1:]]
        if tail != CPP_TAIL:
            raise Unsupported('C++ get_includes tail (allocator_include / variable_array_type_include) changed shape')
    return out


# ---- path call sites ---------------------------------------------------------------------------------
def call_name(c: ast.Call) -> str:
    f = c.func
    if isinstance(f, ast.Attribute):
        base = f.value.id if isinstance(f.value, ast.Name) else (f.value.attr if isinstance(f.value, ast.Attribute) else '?')
        return base + '.' + f.attr
    if isinstance(f, ast.Name):
        return f.id
    return '?'


def kw_or_pos_const(c: ast.Call, kw: str, pos: int) -> typing.Optional[str]:
    for k in c.keywords:
        if k.arg == kw and isinstance(k.value, ast.Constant):
            return str(k.value.value)
    if len(c.args) > pos and isinstance(c.args[pos], ast.Constant):
        return str(c.args[pos].value)
    return None


def path_sites() -> typing.Dict[str, str]:
    res: typing.Dict[str, str] = {}
    common = gen.parse_repo('src/nunavut/lang/_common.py')
    nsmod = gen.parse_repo('src/nunavut/_namespace.py')
    # include side: the comprehension over dep_types.composite_types in generate_include_filepart_list
    g = find_method(common, 'IncludeGenerator', 'generate_include_filepart_list')
    inc_calls = []
    for n in ast.walk(g):
        if isinstance(n, ast.ListComp) and isinstance(n.generators[0].iter, ast.Attribute) and n.generators[0].iter.attr == 'composite_types':
            for c in ast.walk(n.elt):
                if isinstance(c, ast.Call) and call_name(c) not in ('?.as_posix',) and not call_name(c).endswith('.as_posix'):
                    inc_calls.append(c)
    if len(inc_calls) != 1:
        raise Unsupported('include side: expected exactly one path call in the composite_types comprehension, found %d' % len(inc_calls))
    c = inc_calls[0]
    res['inc_path_callee'] = call_name(c).split('.')[-1]
    res['inc_path_args'] = ','.join(ast.unparse(a) for a in c.args)
    # output side: Namespace._add_data_type
    a = find_method(nsmod, 'Namespace', '_add_data_type')
    out_calls = [c for c in ast.walk(a) if isinstance(c, ast.Call) and isinstance(c.func, ast.Attribute) and isinstance(c.func.value, ast.Name)
                 and c.func.value.id == 'IncludeGenerator']
    if len(out_calls) != 1:
        raise Unsupported('output side: expected exactly one IncludeGenerator.* call in Namespace._add_data_type')
    c = out_calls[0]
    res['out_path_callee'] = c.func.attr
    res['out_path_args'] = ','.join(ast.unparse(x) for x in c.args)
    # output side is rooted at the base output path
    if 'self._base_output_path' not in ast.unparse(a):
        raise Unsupported('Namespace._add_data_type no longer prefixes the base output path')
    # make_path: id types
    mp = find_method(common, 'IncludeGenerator', 'make_path')
    for c in ast.walk(mp):
        if isinstance(c, ast.Call) and call_name(c).endswith('filter_short_reference_name'):
            res['mp_short_idtype'] = kw_or_pos_const(c, 'id_type', 2) or 'any'
        if isinstance(c, ast.Call) and call_name(c).endswith('_make_ns_list'):
            res['mp_ns_fn'] = '_make_ns_list'
    if 'with_suffix(output_extension)' not in ast.unparse(mp).replace('\n', ''):
        raise Unsupported('make_path no longer applies with_suffix(output_extension) to the short name')
    nl = find_method(common, 'IncludeGenerator', '_make_ns_list')
    for c in ast.walk(nl):
        if isinstance(c, ast.Call) and call_name(c).endswith('filter_id'):
            res['mp_ns_idtype'] = kw_or_pos_const(c, 'id_type', 1) or 'any'
    if ".split('.')" not in ast.unparse(nl):
        raise Unsupported('_make_ns_list no longer splits full_namespace on "."')
    init = find_method(nsmod, 'Namespace', '__init__')
    for c in ast.walk(init):
        if isinstance(c, ast.Call) and call_name(c).endswith('filter_id_for_target'):
            res['ns_dir_idtype'] = kw_or_pos_const(c, 'id_type', 1) or 'any'
    for k in ('mp_short_idtype', 'mp_ns_fn', 'mp_ns_idtype', 'ns_dir_idtype'):
        if k not in res:
            raise Unsupported('path site %s not found' % k)
    # default id_type of Language.filter_id for c / cpp / py (what filter_imports, open_namespace, full_reference_name use)
    for lang in ('c', 'cpp', 'py'):
        m = gen.parse_repo('src/nunavut/lang/%s/__init__.py' % lang)
        f = find_class_with_method(m, 'filter_id')
        names = [x.arg for x in f.args.args]
        if 'id_type' not in names:
            raise Unsupported('%s Language.filter_id has no id_type parameter' % lang)
        d = f.args.defaults[names.index('id_type') - (len(names) - len(f.args.defaults))]
        if not isinstance(d, ast.Constant):
            raise Unsupported('default id_type is not a constant')
        res['%s_default_idtype' % lang] = str(d.value)
    # filter_imports: which attribute of the dependency is imported, and that filter_id is called with its default id type
    pym = gen.parse_repo('src/nunavut/lang/py/__init__.py')
    fi = None
    for n in pym.body:
        if isinstance(n, ast.FunctionDef) and n.name == 'filter_imports':
            fi = n
    if fi is None:
        raise Unsupported('filter_imports not found')
    src = ast.unparse(fi)
    if 'dt.full_namespace' not in src or "'.'.join([language.filter_id(y) for y in x.split('.')])" not in src:
        raise Unsupported('filter_imports no longer imports the stropped full_namespace of each dependency')
    return res


# ---- data --------------------------------------------------------------------------------------------
def support_files(lang: str) -> typing.List[str]:
    d = os.path.join(gen.REPO, 'src', 'nunavut', 'lang', lang, 'support')
    exts = {'c': ('.h', '.j2'), 'cpp': ('.hpp', '.j2'), 'py': ('.py', '.j2')}[lang]
    return sorted(f for f in os.listdir(d) if f.endswith(exts) and f != '__init__.py')


def support_includes(lang: str) -> typing.List[str]:
    d = os.path.join(gen.REPO, 'src', 'nunavut', 'lang', lang, 'support')
    out = []
    for f in support_files(lang):
        for l in open(os.path.join(d, f), encoding='utf-8'):
            m = re.match(r'\s*#\s*include\s+(<[^>]+>)', l)
            if m and m.group(1) not in out:
                out.append(m.group(1))
    return out


def template_tokens(lang: str) -> typing.Set[str]:
    d = os.path.join(gen.REPO, 'src', 'nunavut', 'lang', lang, 'templates')
    toks: typing.Set[str] = set()
    for f in sorted(os.listdir(d)):
        if f.endswith('.j2'):
            txt = open(os.path.join(d, f), encoding='utf-8').read()
            txt = re.sub(r'\{#.*?#\}', '', txt, flags=re.S)
            if lang == 'cpp':
                toks.update(re.findall(r'std::(\w+)', txt))
            else:
                toks.update(re.findall(r'\b\w+\b', txt))
    return toks



# ---- jinja guard scanner, compiler-derived universe of standard names --------------------------------
C11_HEADERS = ['assert.h', 'complex.h', 'ctype.h', 'errno.h', 'fenv.h', 'float.h', 'inttypes.h', 'iso646.h', 'limits.h', 'locale.h', 'math.h',
               'setjmp.h', 'signal.h', 'stdalign.h', 'stdarg.h', 'stdatomic.h', 'stdbool.h', 'stddef.h', 'stdint.h', 'stdio.h', 'stdlib.h',
               'stdnoreturn.h', 'string.h', 'tgmath.h', 'time.h', 'uchar.h', 'wchar.h', 'wctype.h']
C_KEYWORDS = {'void', 'int', 'char', 'short', 'long', 'float', 'double', 'signed', 'unsigned', 'const', 'volatile', 'struct', 'union', 'enum',
              'typedef', 'static', 'extern', 'inline', 'return', 'if', 'else', 'for', 'while', 'do', 'switch', 'case', 'default', 'break',
              'continue', 'goto', 'sizeof', 'restrict', 'register', 'auto'}
OMIT_GUARD = 'not nunavut.support.omit'
POD_GUARD = 'nunavut.support.omit'
FLOAT_GUARD = 'not options.omit_float_serialization_support'


def c_universe() -> typing.Dict[str, typing.Set[str]]:
    """header -> names it makes visible (macros, typedefs, functions), asked of the installed gcc/glibc for -std=c11 (cached per gcc version)"""
    import json
    import subprocess
    ver = subprocess.run(['gcc', '-dumpfullversion'], capture_output=True, text=True).stdout.strip()
    cache = os.path.join(gen.VERIF, 'build', 'c06_c_universe_%s.json' % ver)
    try:
        with open(cache) as f:
            return {k: set(v) for k, v in json.load(f).items()}
    except (OSError, ValueError):
        pass
    base = subprocess.run(['gcc', '-std=c11', '-dM', '-E', '-x', 'c', '-'], input='', capture_output=True, text=True)
    b = set(re.findall(r'^#define (\w+)', base.stdout, flags=re.M))
    out: typing.Dict[str, typing.Set[str]] = {}
    for h in C11_HEADERS:
        src = '#include <%s>\n' % h
        m = subprocess.run(['gcc', '-std=c11', '-dM', '-E', '-x', 'c', '-'], input=src, capture_output=True, text=True)
        q = subprocess.run(['gcc', '-std=c11', '-E', '-x', 'c', '-'], input=src, capture_output=True, text=True)
        if m.returncode != 0 or q.returncode != 0:
            raise Unsupported('gcc cannot preprocess <%s>' % h)
        txt = re.sub(r'^#.*$', '', q.stdout, flags=re.M)
        names = set(re.findall(r'^#define (\w+)', m.stdout, flags=re.M)) - b
        names |= set(re.findall(r'typedef[^;{}]*?\b(\w+)\s*;', txt))
        names |= set(re.findall(r'\b(\w+)\s*\([^;{}]*\)\s*(?:__attribute__\s*\(\(.*?\)\)\s*)*;', txt))
        out[h] = {n for n in names if not n.startswith('_') and n not in C_KEYWORDS}
    os.makedirs(os.path.dirname(cache), exist_ok=True)
    with open(cache, 'w') as f:
        json.dump({k: sorted(v) for k, v in out.items()}, f)
    return out


TAG_RE = re.compile(r'\{%-?\s*(\w+)\s*(.*?)\s*-?%\}', re.S)


def guarded_text(txt: str) -> typing.List[typing.Tuple[str, typing.Tuple[str, ...]]]:
    """splits a Jinja template into (rendered-position text, enclosing `if` conditions); `else` negates with a leading '!', `elif` -> '?'.
    Comments and expressions are removed.  Raises on unbalanced if/endif."""
    txt = re.sub(r'\{#.*?#\}', '', txt, flags=re.S)
    out = []
    stack: typing.List[str] = []
    pos = 0
    for m in TAG_RE.finditer(txt):
        out.append((txt[pos:m.start()], tuple(stack)))
        pos = m.end()
        kw, arg = m.group(1), ' '.join(m.group(2).split())
        if kw == 'if':
            stack.append(arg)
        elif kw == 'elif':
            if not stack:
                raise Unsupported('elif without if')
            stack[-1] = '?'
        elif kw == 'else':
            # `for ... else` also has an else: only negate when the innermost open block is an if (tracked with a marker)
            if stack and not stack[-1].startswith('#for'):
                stack[-1] = '?' if stack[-1] == '?' else ('!' + stack[-1])
        elif kw == 'endif':
            if not stack:
                raise Unsupported('endif without if')
            stack.pop()
        elif kw == 'for':
            stack.append('#for')
        elif kw == 'endfor':
            if not stack or not stack[-1].startswith('#for'):
                raise Unsupported('endfor without for')
            stack.pop()
    out.append((txt[pos:], tuple(stack)))
    if stack:
        raise Unsupported('unbalanced if/for in template')
    res = []
    for t, g in out:
        t = re.sub(r'\{\{.*?\}\}', ' ', t, flags=re.S)
        res.append((t, tuple(x for x in g if not x.startswith('#for'))))
    return res


def strip_c(t: str) -> str:
    t = re.sub(r'"(?:\\.|[^"\\\n])*"', '""', t)
    t = re.sub(r'//[^\n]*', '', t)
    return re.sub(r'/\*.*?\*/', '', t, flags=re.S)


def c_template_names(univ: typing.Set[str]) -> typing.Dict[str, bool]:
    """standard name -> True when EVERY occurrence in the C type templates is under `not nunavut.support.omit` (incl. the whole of
    serialization.j2 / deserialization.j2, which definitions.j2 must import under that guard)"""
    d = os.path.join(gen.REPO, 'src', 'nunavut', 'lang', 'c', 'templates')
    res: typing.Dict[str, bool] = {}
    for f in sorted(os.listdir(d)):
        if not f.endswith('.j2'):
            continue
        txt = open(os.path.join(d, f), encoding='utf-8').read()
        file_ser = f in ('serialization.j2', 'deserialization.j2')
        for t, guards in guarded_text(txt):
            if not file_ser and re.search(r"from\s+'(de)?serialization\.j2'\s+import", t):
                raise Unsupported('unreachable')  # imports are tags, not text
            ser_only = file_ser or OMIT_GUARD in guards
            for tok in set(re.findall(r'\b[A-Za-z_]\w*\b', strip_c(t))):
                if tok in univ:
                    res[tok] = res.get(tok, True) and ser_only
        if not file_ser:
            # every import of the (de)serialization macros must sit under the omit guard
            clean = re.sub(r'\{#.*?#\}', '', txt, flags=re.S)
            stack: typing.List[str] = []
            for m in TAG_RE.finditer(clean):
                kw, arg = m.group(1), ' '.join(m.group(2).split())
                if kw == 'if':
                    stack.append(arg)
                elif kw == 'endif' and stack:
                    stack.pop()
                elif kw in ('from', 'include', 'import') and re.search(r"(de)?serialization\.j2", arg) and OMIT_GUARD not in stack:
                    raise Unsupported('%s pulls in %s outside `if not nunavut.support.omit`' % (f, arg))
    return res


def guarded_includes(path: str) -> typing.List[typing.Tuple[str, typing.Tuple[str, ...]]]:
    """literal `#include <...>` lines of a template with their enclosing if-conditions"""
    out = []
    for t, guards in guarded_text(open(path, encoding='utf-8').read()):
        for m in re.finditer(r'^\s*#\s*include\s+(<[^>\n]+>)', t, flags=re.M):
            out.append((m.group(1), guards))
    return out


# ---- pins on code that is hand-modelled (Gen/Closure.v direct/extract) ------------------------------------
DEP_PINS = {
    '_extract_data_types': {'e68f007e653f5cf2'},
    '_extract_dependent_types_handle_array_type': {'3900020530e5cf54'},
    '_extract_dependent_types': {'e87dce9d633663af'},
}
# the two known bodies of _build_dependency_list: before 0a19f41 (isinstance(dependant, UnionType) only: quirk) and after (sections unwrapped)
BUILD_PINS = {'e51031a4df9e12fd': True, '339c31be2b7e3217': False}


def dependency_pins() -> bool:
    """shape-pins nunavut/_dependencies.py (read by no other translator; Closure.direct/extract model it by hand) and returns the LIVE value
    of the model's q_union switch"""
    import hashlib
    mod = gen.parse_repo('src/nunavut/_dependencies.py')
    seen = {}
    for n in mod.body:
        if isinstance(n, ast.ClassDef) and n.name == 'DependencyBuilder':
            for f in n.body:
                if isinstance(f, ast.FunctionDef):
                    body = strip_doc(f.body)
                    seen[f.name] = hashlib.sha256(ast.dump(ast.Module(body=body, type_ignores=[])).encode()).hexdigest()[:16]
    for k, ok in DEP_PINS.items():
        if seen.get(k) not in ok:
            raise Unsupported('DependencyBuilder.%s changed (pin %s): the hand model Closure.extract must be reviewed' % (k, seen.get(k)))
    h = seen.get('_build_dependency_list')
    if h not in BUILD_PINS:
        raise Unsupported('DependencyBuilder._build_dependency_list changed (pin %s): the hand model Closure.direct must be reviewed' % h)
    return BUILD_PINS[h]


def py_literal_imports() -> typing.List[str]:
    """modules the Python type template imports literally (rendered position, no expression in the line)"""
    txt = gen.read_repo('src/nunavut/lang/py/templates/base.j2')
    mods = []
    for t, guards in guarded_text(txt):
        for l in t.splitlines():
            m = re.match(r'^(?:from\s+([\w.]+)\s+import\s|import\s+([\w.]+)(?:\s+as\s+\w+)?\s*$)', l)
            if m:
                mod = m.group(1) or m.group(2)
                if mod not in mods:
                    mods.append(mod)
    if 'nunavut_support' not in mods:
        raise Unsupported('py base.j2 no longer imports nunavut_support literally')
    ns = gen.read_repo('src/nunavut/lang/py/templates/Namespace.j2')
    if 'from {{ t|full_reference_name }} import {{ t|short_reference_name }} as {{ t|short_reference_name }}' not in ns:
        raise Unsupported('py Namespace.j2 no longer imports `from <full_reference_name> import <short_reference_name>`')
    pym = gen.read_repo('src/nunavut/lang/py/__init__.py')
    if 'return ".".join(ns + [language.filter_short_reference_name(t)])' not in pym or 'ns = list(map(functools.partial(filter_id, language), ns_parts[:-1]))' not in pym:
        raise Unsupported('py filter_full_reference_name changed shape')
    return mods


def extension_sources() -> typing.Dict[str, str]:
    """where the two sides take the file extension from: include side = what filter_includes (c, cpp) passes to
    generate_include_filepart_list, output side = what build_namespace_tree passes to _add_data_type, and the config key both resolve to"""
    res: typing.Dict[str, str] = {}
    for lang in ('c', 'cpp'):
        m = gen.parse_repo('src/nunavut/lang/%s/__init__.py' % lang)
        fn = None
        for n in m.body:
            if isinstance(n, ast.FunctionDef) and n.name == 'filter_includes':
                fn = n
        if fn is None:
            raise Unsupported('%s filter_includes not found' % lang)
        calls = [c for c in ast.walk(fn) if isinstance(c, ast.Call) and isinstance(c.func, ast.Attribute) and c.func.attr == 'generate_include_filepart_list']
        if len(calls) != 1 or not calls[0].args:
            raise Unsupported('%s filter_includes: expected one generate_include_filepart_list(ext, sort) call' % lang)
        res['%s_inc_ext_source' % lang] = ast.unparse(calls[0].args[0])
        ig = calls[0].func.value
        if not (isinstance(ig, ast.Call) and call_name(ig) == 'IncludeGenerator' and len(ig.args) == 3 and ast.unparse(ig.args[0]) == 'language'):
            raise Unsupported('%s filter_includes no longer builds IncludeGenerator(language, t, omit_serialization_support)' % lang)
    nsmod = gen.parse_repo('src/nunavut/_namespace.py')
    bt = None
    for n in nsmod.body:
        if isinstance(n, ast.FunctionDef) and n.name == 'build_namespace_tree':
            bt = n
    calls = [c for c in ast.walk(bt) if isinstance(c, ast.Call) and isinstance(c.func, ast.Attribute) and c.func.attr == '_add_data_type'] if bt else []
    if len(calls) != 1 or len(calls[0].args) != 2:
        raise Unsupported('build_namespace_tree: expected one _add_data_type(type, extension) call')
    res['out_ext_source'] = ast.unparse(calls[0].args[1])
    lm = gen.parse_repo('src/nunavut/lang/_language.py')
    ext = find_method(lm, 'Language', 'extension')
    ret = [x for x in strip_doc(ext.body) if isinstance(x, ast.Return)]
    if len(ret) != 1:
        raise Unsupported('Language.extension is no longer a single return')
    res['language_extension_body'] = ast.unparse(ret[0].value)
    key = None
    for n in ast.walk(lm):
        if isinstance(n, ast.Assign) and isinstance(n.targets[0], ast.Name) and n.targets[0].id == 'WKCV_DEFINITION_FILE_EXTENSION' and isinstance(n.value, ast.Constant):
            key = n.value.value
    res['extension_config_key'] = str(key)
    return res


def cpp_namespace_sites() -> typing.Tuple[typing.List[str], typing.List[str], bool]:
    """arguments of every `| open_namespace` / `| close_namespace` application in cpp/templates/base.j2 and whether all opens precede all closes"""
    txt = re.sub(r'\{#.*?#\}', '', gen.read_repo('src/nunavut/lang/cpp/templates/base.j2'), flags=re.S)
    opens = [(m.start(), m.group(1).strip()) for m in re.finditer(r'\{\{\s*([^|{}]+?)\s*\|\s*open_namespace\b[^}]*\}\}', txt)]
    closes = [(m.start(), m.group(1).strip()) for m in re.finditer(r'\{\{\s*([^|{}]+?)\s*\|\s*close_namespace\b[^}]*\}\}', txt)]
    if txt.count('open_namespace') != len(opens) or txt.count('close_namespace') != len(closes):
        raise Unsupported('cpp base.j2 mentions open/close_namespace outside a plain `{{ x | filter }}` application')
    order = bool(opens) and bool(closes) and max(p for p, _ in opens) < min(p for p, _ in closes)
    return [a for _, a in opens], [a for _, a in closes], order


def c_tbl_angle(tbl):
    return [(c, '<%s>' % h) for c, h in tbl]


def gen_closure() -> typing.Tuple[bool, str]:
    head = gen.HEADER % ('src/nunavut/lang/{c,cpp,py}/__init__.py, lang/_common.py, _namespace.py, lang/properties.yaml, lang/*/support, '
                         'lang/*/templates') + 'From Verif Require Import ClosureBase.\nOpen Scope N_scope.\n\n'
    try:
        c_tbl = tr_get_includes('src/nunavut/lang/c/__init__.py', False)
        cpp_tbl = tr_get_includes('src/nunavut/lang/cpp/__init__.py', True)
        sites = path_sites()
        props = yaml.safe_load(gen.read_repo('src/nunavut/lang/properties.yaml'))
        parts = []

        def tbl(name, t):
            rows = ';\n   '.join('(%s, %s)' % (c, coq_str(h)) for c, h in t)
            parts.append('Definition %s : list (cond * str) :=\n  [%s].' % (name, rows))
        tbl('c_get_includes', c_tbl)
        tbl('cpp_get_includes', cpp_tbl)
        for k in ('inc_path_callee', 'inc_path_args', 'out_path_callee', 'out_path_args', 'mp_short_idtype', 'mp_ns_idtype', 'ns_dir_idtype',
                  'c_default_idtype', 'cpp_default_idtype', 'py_default_idtype'):
            parts.append('Definition %s : str := %s.' % (k, coq_str(sites[k])))
        for lang in ('c', 'cpp', 'py'):
            sec = props['nunavut.lang.' + lang]
            parts.append('Definition %s_ext : str := %s.' % (lang, coq_str(str(sec['extension']))))
            sn = str(sec.get('support_namespace', '') or '')
            parts.append('Definition %s_support_ns : list str := %s.' % (lang, coq_strs([x for x in sn.split('.') if x])))
            parts.append('Definition %s_prefer_system : bool := %s.' % (lang, 'true' if sec.get('prefer_system_includes', False) else 'false'))
            parts.append('Definition %s_ns_stem : str := %s.' % (lang, coq_str(str(sec.get('namespace_file_stem', '_')))))
            parts.append('Definition %s_has_ns_files : bool := %s.' % (lang, 'true' if sec.get('has_standard_namespace_files', False) else 'false'))
            parts.append('Definition %s_stropping : bool := %s.' % (lang, 'true' if sec.get('enable_stropping', False) else 'false'))
            parts.append('Definition %s_std_types : bool := %s.' % (lang, 'true' if sec.get('use_standard_types', False) else 'false'))
            parts.append('Definition %s_support_files : list str := %s.' % (lang, coq_strs(support_files(lang))))
        cpp = props['nunavut.lang.cpp']
        opts, defaults = cpp['options'], cpp.get('defaults', {})
        rows = []
        for std in ('c++14', 'c++17', 'c++20', 'c++17-pmr', 'cetl++14-17'):
            o = dict(opts)
            o.update(defaults.get(std, {}))
            o.setdefault('std', std)
            if std not in defaults:
                o['std'] = std
            rows.append('(%s, (%s, %s))' % (coq_str(std), coq_str(str(o.get('allocator_include', '') or '')), coq_str(str(o.get('variable_array_type_include', '') or ''))))
        parts.append('(* per --language-standard: (allocator_include, variable_array_type_include) after merging options with defaults *)\n'
                     'Definition cpp_option_includes : list (str * (str * str)) :=\n  [%s].' % ';\n   '.join(rows))
        parts.append('Definition cpp_support_includes : list str := %s.' % coq_strs(support_includes('cpp')))
        # -- C: support header includes with their option guard, literal includes of base.j2 with their omit guard
        sup = guarded_includes(os.path.join(gen.REPO, 'src', 'nunavut', 'lang', 'c', 'support', 'serialization.j2'))
        for h, g in sup:
            if any(x not in (FLOAT_GUARD,) for x in g):
                raise Unsupported('support header include %s under an unknown guard %s' % (h, g))
        parts.append('(* (only with float serialization support, header) *)\nDefinition c_support_includes : list (bool * str) :=\n  [%s].'
                     % ';\n   '.join('(%s, %s)' % ('true' if FLOAT_GUARD in g else 'false', coq_str(h)) for h, g in sup))
        lit = guarded_includes(os.path.join(gen.REPO, 'src', 'nunavut', 'lang', 'c', 'templates', 'base.j2'))
        rows = []
        for h, g in lit:
            if g == ():
                rows.append('(LAlways, %s)' % coq_str(h))
            elif g == (POD_GUARD,):
                rows.append('(LOmitOnly, %s)' % coq_str(h))
            elif g == (OMIT_GUARD,):
                rows.append('(LSerOnly, %s)' % coq_str(h))
            else:
                raise Unsupported('literal include %s of c/base.j2 under an unknown guard %s' % (h, g))
        parts.append('(* literal #include lines of c/templates/base.j2 *)\nDefinition c_tmpl_includes : list (lit_guard * str) :=\n  [%s].' % ';\n   '.join(rows))
        lit = guarded_includes(os.path.join(gen.REPO, 'src', 'nunavut', 'lang', 'cpp', 'templates', 'base.j2'))
        rows = []
        for h, g in lit:
            if g == ():
                rows.append('(LAlways, %s)' % coq_str(h))
            elif g == (POD_GUARD,):
                rows.append('(LOmitOnly, %s)' % coq_str(h))
            elif g == (OMIT_GUARD,):
                rows.append('(LSerOnly, %s)' % coq_str(h))
            else:
                raise Unsupported('literal include %s of cpp/base.j2 under an unknown guard %s' % (h, g))
        parts.append('Definition cpp_tmpl_includes : list (lit_guard * str) :=\n  [%s].' % ';\n   '.join(rows))
        # -- C: every standard name (universe = what gcc's C11 headers make visible) in rendered position of the type templates
        univ = c_universe()
        alln = set().union(*univ.values())
        tn = c_template_names(alln)
        parts.append('(* (name, used only with serialization support) for every standard name in rendered position of lang/c/templates/*.j2 *)\n'
                     'Definition c_tmpl_std_names : list (str * bool) :=\n  [%s].'
                     % ';\n   '.join('(%s, %s)' % (coq_str(n), 'true' if tn[n] else 'false') for n in sorted(tn)))
        csec = props['nunavut.lang.c']
        fn = sorted({str(v) for v in list((csec.get('named_types') or {}).values()) + list((csec.get('named_values') or {}).values())} - C_KEYWORDS)
        cmod = gen.read_repo('src/nunavut/lang/c/__init__.py')
        if '"{}int{}_t".format' in cmod:
            fn += ['%sint%d_t' % (u, w) for u in ('', 'u') for w in (8, 16, 32, 64)]
        else:
            raise Unsupported('lang/c/__init__.py no longer names integer types "{}int{}_t"')
        fn = sorted(set(fn))
        for n in fn:
            if n not in alln:
                raise Unsupported('filter-emitted name %s is not a C11 standard name' % n)
        parts.append('(* names the C filters emit: yaml named_types / named_values and _CFit.to_c_int *)\nDefinition c_filter_names : list str := %s.' % coq_strs(fn))
        needed = sorted(set(tn) | set(fn))
        used_headers = sorted({h[1:-1] for _, h in c_tbl_angle(c_tbl)} | {h[1:-1] for h, _ in sup} | {h[1:-1] for h, _ in guarded_includes(
            os.path.join(gen.REPO, 'src', 'nunavut', 'lang', 'c', 'templates', 'base.j2'))} | {'assert.h', 'stdint.h', 'stdbool.h', 'stddef.h'})
        rows = []
        for h in used_headers:
            if h not in univ:
                raise Unsupported('header <%s> is not a C11 standard header' % h)
            rows.append('(%s, %s)' % (coq_str('<%s>' % h), coq_strs([n for n in needed if n in univ[h]])))
        parts.append('(* which of the needed names each relevant header makes visible, asked of the installed gcc (-std=c11) *)\n'
                     'Definition c_declares : list (str * list str) :=\n  [%s].' % ';\n   '.join(rows))
        parts.append('(* every std::NAME the C++ type templates mention *)\n'
                     'Definition cpp_tmpl_std_names : list str := %s.' % coq_strs(sorted(template_tokens('cpp'))))
        es = extension_sources()
        for k in ('c_inc_ext_source', 'cpp_inc_ext_source', 'out_ext_source', 'language_extension_body', 'extension_config_key'):
            parts.append('Definition %s : str := %s.' % (k, coq_str(es[k])))
        o_, c_, ordr = cpp_namespace_sites()
        parts.append('(* arguments of the open_namespace / close_namespace applications in cpp/templates/base.j2 *)\n'
                     'Definition cpp_open_ns_args : list str := %s.\nDefinition cpp_close_ns_args : list str := %s.\n'
                     'Definition cpp_open_before_close : bool := %s.' % (coq_strs(o_), coq_strs(c_), 'true' if ordr else 'false'))
        parts.append('(* LIVE value of the q_union switch of Closure.direct: true = only a top-level pydsdl.UnionType counts (code before 0a19f41) *)\n'
                     'Definition q_union_live : bool := %s.' % ('true' if dependency_pins() else 'false'))
        parts.append('(* modules lang/py/templates/base.j2 imports literally *)\nDefinition py_literal_imports : list str := %s.' % coq_strs(py_literal_imports()))
    except (Unsupported, SyntaxError, OSError, KeyError, yaml.YAMLError) as ex:
        gen.write_if_changed(OUT, head + '(* translator failed closed: %s *)\n' % str(ex).replace('*)', '* )'))
        return False, 'C06 translator failed closed: %s' % ex
    gen.write_if_changed(OUT, head + '\n\n'.join(parts) + '\n')
    return True, 'ok'


GENERATORS = {'closure': gen_closure}
