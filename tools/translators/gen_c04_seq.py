"""C04 translator, part 2: statement SEQUENCES scanned from the templates (data interpreted / decided on the Coq side by
Codec/WalkerSafeCpp.v: run_vla / vla_check, emplace / ctor / destroy_current; Codec/WalkerSafe.v: check_first).
Everything in a scanned region must be recognised, otherwise the translator fails closed."""
from __future__ import annotations

import re
import typing


class Closed(Exception):
    pass


VLA_TOKENS = [
    (r'\{\{\s*_deserialize_integer\(t\.length_field_type,[^}]*?ref_size[^}]*?\}\}', 'VSizeRead'),
    (r'if\s*\(\s*\{\{\s*ref_size\s*\}\}\s*>\s*\{\{\s*t\.capacity\s*\}\}U\)\s*\{\s*return\s+-nunavut::support::Error::SerializationBadArrayLength;\s*\}', 'VSizeCheck'),
    (r'\{\{\s*reference\s*\}\}\.clear\(\)\s*;', 'VClear'),
    (r'\{\{\s*reference\s*\}\}\.reserve\(\{\{\s*ref_size\s*\}\}\)\s*;', 'VReserve'),
    (r'\{\{\s*reference\s*\}\}\.resize\(\{\{\s*ref_size\s*\}\}\)\s*;', 'VResize'),
    (r'for\s*\(\{\{\s*typename_unsigned_length\s*\}\}\s*\{\{\s*ref_index\s*\}\}\s*=\s*0U;\s*\{\{\s*ref_index\s*\}\}\s*<\s*\{\{\s*ref_size\s*\}\};\s*\+\+\{\{\s*ref_index\s*\}\}\)\s*\{', 'LOOP{'),
    (r'\{\{\s*t\.element_type\s*\|\s*declaration\s*\}\}\s*\{\{\s*tmp_element\s*\}\}\s*=\s*\{\{\s*t\.element_type\s*\|\s*declaration\s*\}\}\(\{\{[^}]*\}\}\)\s*;', 'LTmp'),
    (r'\{\{\s*_deserialize_any\(t\.element_type,\s*tmp_element,\s*element_offset\)[^}]*\}\}', 'LDecodeTmp'),
    (r"\{\{\s*_deserialize_any\(t\.element_type,\s*reference\s*\+\s*\('\[%s\]'\|format\(ref_index\)\),\s*element_offset\)[^}]*\}\}", 'LDecodeIdx'),
    (r'\{\{\s*reference\s*\}\}\.push_back\(std::move\(\{\{\s*tmp_element\s*\}\}\)\)\s*;', 'LPushBack'),
    (r'\{%-?\s*if\s[^%]*%\}', 'IF'), (r'\{%-?\s*else\s*-?%\}', 'ELSE'), (r'\{%-?\s*endif\s*-?%\}', 'ENDIF'),
    (r'\{%-?\s*(?:set|assert)\s[^%]*%\}', None), (r'\{\{\s*assert\([^}]*\}\}', None), (r'//[^\n]*', None),
    (r'\{', '{'), (r'\}', '}'),
]


def vla_paths(body: str) -> typing.List[typing.List[typing.Any]]:
    """tokenise the macro body (everything must be recognised) and expand the Jinja branches into straight-line paths"""
    toks: typing.List[str] = []
    i = 0
    while i < len(body):
        if body[i].isspace():
            i += 1
            continue
        for pat, name in VLA_TOKENS:
            m = re.compile(pat, re.S).match(body, i)
            if m:
                if name:
                    toks.append(name)
                i = m.end()
                break
        else:
            raise Closed('C++ _deserialize_variable_length_array: unrecognised text at %r' % body[i:i + 60])

    def parse(pos: int, stop: typing.Tuple[str, ...]):
        paths: typing.List[typing.List[typing.Any]] = [[]]
        while pos < len(toks) and toks[pos] not in stop:
            t = toks[pos]
            if t == 'IF':
                a, pos = parse(pos + 1, ('ELSE', 'ENDIF'))
                b: typing.List[typing.List[typing.Any]] = [[]]
                if pos < len(toks) and toks[pos] == 'ELSE':
                    b, pos = parse(pos + 1, ('ENDIF',))
                pos += 1
                paths = [p + q for p in paths for q in a + b]
            elif t == 'LOOP{':
                inner, pos = parse(pos + 1, ('}',))
                pos += 1
                paths = [p + [('VLoop', q)] for p in paths for q in inner]
            elif t == '{':
                inner, pos = parse(pos + 1, ('}',))
                pos += 1
                paths = [p + q for p in paths for q in inner]
            elif t in ('ELSE', 'ENDIF', '}'):
                raise Closed('C++ VLA macro: unbalanced structure at token %d' % pos)
            else:
                paths = [p + [t] for p in paths]
                pos += 1
        if pos >= len(toks) and stop:
            raise Closed('C++ VLA macro: unbalanced structure')
        return paths, pos

    paths, _ = parse(0, ())
    out = []
    for p in paths:
        for x in p:
            if isinstance(x, tuple):
                if any(not (isinstance(y, str) and y.startswith('L')) for y in x[1]):
                    raise Closed('C++ VLA macro: unexpected statement inside the loop: %r' % (x[1],))
            elif not x.startswith('V'):
                raise Closed('C++ VLA macro: loop statement outside a loop: %r' % x)
        if p not in out:
            out.append(p)
    return out


def coq_vla(paths) -> str:
    def one(p):
        return '[' + '; '.join(('VLoop [%s]' % '; '.join(x[1])) if isinstance(x, tuple) else x for x in p) + ']'
    return '[' + ';\n   '.join(one(p) for p in paths) + ']'


def union_seqs(uni: str) -> typing.Dict[str, str]:
    out: typing.Dict[str, str] = {}
    m = re.search(r'emplace\(Args&&\.\.\. v\)\s*\{(.*?)\n        \}\n', uni, flags=re.S)
    if not m:
        raise Closed('emplace not found')
    seq = []
    for line in [x.strip() for x in m.group(1).split('\n') if x.strip()]:
        if re.fullmatch(r'destroy_current\(\)\s*;', line):
            seq.append('UDestroy')
        elif re.fullmatch(r'typename alternative<I>::type& result = do_emplace<I>\(v\.\.\.\);', line):
            seq.append('UConstruct')
        elif re.fullmatch(r'tag_\s*=\s*I\s*;', line):
            seq.append('USetTag')
        elif re.fullmatch(r'return result;', line):
            pass
        else:
            raise Closed('emplace: unrecognised statement %r' % line)
    out['emplace'] = '[' + '; '.join(seq) + ']'
    m = re.search(r'\n        VariantType\(\)\s*:(.*?)\{(.*?)\n        \}\n', uni, flags=re.S)
    if not m:
        raise Closed('VariantType() not found')
    cs = []
    for init in [x.strip() for x in m.group(1).split(',') if x.strip()]:
        if init == 'tag_(0)':
            cs.append('CTag0')
        elif init == 'internal_union_value_()':
            cs.append('CZero')
        else:
            raise Closed('VariantType(): unrecognised member initialiser %r' % init)
    for line in [x.strip() for x in m.group(2).split('\n') if x.strip() and not x.strip().startswith('//')]:
        if line == 'emplace<0>();':
            cs.append('CEmplace0')
        elif line == 'do_emplace<0>();':
            cs.append('CDoEmplace0')
        else:
            raise Closed('VariantType(): unrecognised statement %r' % line)
    # members are initialised in DECLARATION order (tag_ is declared before internal_union_value_)
    if not re.search(r'std::size_t tag_;\s*union internal_union_t', uni):
        raise Closed('VariantType: member declaration order not recognised')
    out['ctor'] = '[' + '; '.join(cs) + ']'
    m = re.search(r'void destroy_current\(\)\s*\{(.*?)\n        \}\n', uni, flags=re.S)
    if not m:
        raise Closed('destroy_current not found')
    dc = m.group(1)
    loops = re.findall(r'\{%-?\s*for\s+field\s+in\s+([^%]*?)\s*-?%\}', dc)
    if len(loops) != 1 or len(re.findall(r'if\s*\(tag_\s*==\s*\{\{\s*loop\.index0\s*\}\}\)', dc)) != 1:
        raise Closed('destroy_current: loop shape not recognised')
    src = loops[0].strip()
    if src == 'composite_type.fields_except_padding':
        filtered = False
    elif src == 'composite_type.fields_except_padding if field is not PrimitiveType':
        filtered = True
    else:
        raise Closed('destroy_current: loop source %r' % src)
    guards = [x.start() for x in re.finditer(r'\{%-?\s*if\s+field\s+is\s+not\s+PrimitiveType\s*-?%\}', dc)]
    if len(guards) > 1 or (guards and not (guards[0] < dc.index('tag_ ==') < dc.index('{%- endif'))):
        raise Closed('destroy_current: guard shape not recognised')
    out['dshape'] = '{| d_filtered := %s; d_inner_guard := %s |}' % ('true' if filtered else 'false', 'true' if guards else 'false')
    return out


def c_event_seqs(macro, ser: str, des: str) -> typing.Dict[str, str]:
    """per macro: the textual order of CHECK (an error return) and ACCESS (buffer / object-array access, nested call, loop) events"""
    def events(body: str, checks: typing.Sequence[str], accesses: typing.Sequence[str]) -> str:
        ev = []
        for pat in checks:
            ev += [(m.start(), 'EvCheck') for m in re.finditer(pat, body)]
        for pat in accesses:
            ev += [(m.start(), 'EvAccess') for m in re.finditer(pat, body)]
        return '[' + '; '.join(k for _, k in sorted(ev)) + ']'
    acc = [r'buffer\[', r'nunavutCopyBits\s*\(', r'nunavutGetBits\s*\(', r'nunavutSet\w+\s*\(', r'memmove\s*\(', r'memset\s*\(', r'for\s*\(size_t',
           r'_serialize_any\s*\(', r'_deserialize_any\s*\(', r'_serialize_integer\s*\(', r'_(?:de)?serialize_\s*\(']
    return {
        'ser_impl': events(macro(ser, '_serialize_impl'), [r'return\s+-NUNAVUT_ERROR_SERIALIZATION_BUFFER_TOO_SMALL'], acc + [r'offset_bits\s*=\s*0U']),
        'ser_vla': events(macro(ser, '_serialize_variable_length_array'), [r'return\s+-NUNAVUT_ERROR_REPRESENTATION_BAD_ARRAY_LENGTH'], acc),
        'des_vla': events(macro(des, '_deserialize_variable_length_array'), [r'return\s+-NUNAVUT_ERROR_REPRESENTATION_BAD_ARRAY_LENGTH'],
                          [a for a in acc if 'buffer' not in a]),
        'des_composite': events(macro(des, '_deserialize_composite'), [r'return\s+-NUNAVUT_ERROR_REPRESENTATION_BAD_DELIMITER_HEADER'],
                                [r'_deserialize_\s*\(', r'&buffer\[']),
    }


# ---- any_bitspan::subspan(): the pointer expression as a small arithmetic term over (size, offset_bytes), decided in Coq ----

def _tok_expr(text: str) -> typing.List[str]:
    toks, i = [], 0
    pats = [(r'self\.data_\.size\(\)', 'SSize'), (r'offset_bytes\b', 'SOff'), (r'newSize\b', 'NEWSIZE'), (r'std::min\s*\(', 'MIN('), (r'0U?\b', 'SZero'),
            (r'\(', '('), (r'\)', ')'), (r'-', '-'), (r'<', '<'), (r'\?', '?'), (r':', ':'), (r',', ',')]
    while i < len(text):
        if text[i].isspace():
            i += 1
            continue
        for pat, name in pats:
            m = re.compile(pat).match(text, i)
            if m:
                toks.append(name)
                i = m.end()
                break
        else:
            raise Closed('any_bitspan::subspan: unrecognised token at %r' % text[i:i + 30])
    return toks


def _parse_expr(toks: typing.List[str], newsize: typing.Optional[str]) -> str:
    """-> Coq term of type sexp (WalkerSafeCpp.v); grammar: sub ['<' sub] ['?' expr ':' expr], sub := atom {'-' atom},
    atom := '(' expr ')' | SSize | SOff | SZero | newSize | std::min(expr, expr)"""
    pos = [0]

    def peek():
        return toks[pos[0]] if pos[0] < len(toks) else None

    def take(t=None):
        x = peek()
        if x is None or (t is not None and x != t):
            raise Closed('any_bitspan::subspan: expected %r, got %r' % (t, x))
        pos[0] += 1
        return x

    def atom():
        t = take()
        if t in ('SSize', 'SOff', 'SZero'):
            return t
        if t == 'NEWSIZE':
            if newsize is None:
                raise Closed('any_bitspan::subspan: newSize used inside its own definition')
            return newsize
        if t == '(':
            e = expr()
            take(')')
            return e
        if t == 'MIN(':
            a = expr()
            take(',')
            b = expr()
            take(')')
            return '(SMin %s %s)' % (a, b)
        raise Closed('any_bitspan::subspan: unexpected token %r' % t)

    def sub():
        e = atom()
        while peek() == '-':
            take('-')
            if isinstance(e, tuple):
                raise Closed('any_bitspan::subspan: arithmetic on a comparison')
            r = atom()
            if isinstance(r, tuple):
                raise Closed('any_bitspan::subspan: arithmetic on a comparison')
            e = '(SSub %s %s)' % (e, r)
        return e

    def expr():
        left = sub()
        if peek() == '<':
            take('<')
            right = sub()
            left = ('lt', left, right)
        if peek() == '?':
            if not isinstance(left, tuple):
                raise Closed('any_bitspan::subspan: ?: without a comparison')
            take('?')
            t = expr()
            take(':')
            e = expr()
            if isinstance(t, tuple) or isinstance(e, tuple):
                raise Closed('any_bitspan::subspan: comparison as a value')
            return '(SIfLt %s %s %s %s)' % (left[1], left[2], t, e)
        return left

    e = expr()
    if pos[0] != len(toks) or isinstance(e, tuple):
        raise Closed('any_bitspan::subspan: trailing tokens / bare comparison')
    return e


def _eval_sexp(term: str, size: int, off: int) -> int:
    toks = re.findall(r'[()]|\w+', term)
    pos = [0]

    def ev():
        t = toks[pos[0]]
        pos[0] += 1
        if t == '(':
            v = ev()
            pos[0] += 1     # ')'
            return v
        if t == 'SSize':
            return size
        if t == 'SOff':
            return off
        if t == 'SZero':
            return 0
        if t == 'SSub':
            a, b = ev(), ev()
            return max(a - b, 0)
        if t == 'SMin':
            a, b = ev(), ev()
            return min(a, b)
        if t == 'SIfLt':
            a, b, x, y = ev(), ev(), ev(), ev()
            return x if a < b else y
        raise Closed('bad sexp token ' + t)
    return ev()


def subspan_ptr(csup: str) -> typing.Tuple[str, bool]:
    """-> (Coq sexp of the byte index of the pointer subspan() hands on, with newSize inlined; whether it is min(offset_bytes, size)
    on a grid -- the Coq side PROVES the agreement for all sizes and offsets: c04_cpp_subspan_ptr_matches_model)"""
    m = re.search(r'derived_bitspan subspan\(\{\{\s*typename_unsigned_bit_length\s*\}\} bits=0\) const noexcept\{(.*?)\n    \}', csup, flags=re.S)
    if not m:
        raise Closed('any_bitspan::subspan not found')
    body = m.group(1)
    ns = re.findall(r'newSize\s*=\s*(.*?);', body, flags=re.S)
    ret = re.findall(r'return derived_bitspan\(self\.data_\.data\(\)\s*\+\s*(.*?),\s*newSize,\s*offset_bits_mod\);', body, flags=re.S)
    ob = re.findall(r'offset_bytes\s*=\s*\(offset_bits\)\s*/\s*8U;', body)
    if len(ns) != 1 or len(ret) != 1 or len(ob) != 1:
        raise Closed('any_bitspan::subspan: shape not recognised')
    newsize = _parse_expr(_tok_expr(ns[0]), None)
    # the size handed on must be what is left: size - offset_bytes, or 0 beyond the end
    for size in range(0, 7):
        for off in range(0, 10):
            if _eval_sexp(newsize, size, off) != max(size - off, 0):
                raise Closed('any_bitspan::subspan: newSize is not max(size - offset_bytes, 0)')
    ptr = _parse_expr(_tok_expr(ret[0]), newsize)
    vals = [(_eval_sexp(ptr, size, off), size, off) for size in range(0, 7) for off in range(0, 10)]
    if all(v == min(off, size) for v, size, off in vals):
        return ptr, True
    if all(v == off for v, size, off in vals):
        return ptr, False
    raise Closed('any_bitspan::subspan: pointer expression is neither offset_bytes nor min(offset_bytes, size): ' + ptr)


# ---- bitspan::setZeros(length): which bytes it touches, as index terms over (offset_bytes, length_bytes_ceil, last_byte) ----

SETZEROS_DEFS = {
    'offset_bytes': 'offset_bits_/8U',
    'offset_bits_mod': 'offset_bits_%8U',
    'end_bits_mod': '(offset_bits_mod+length)%8U',
    'length_bytes_ceil': '(offset_bits_mod+length+7U)/8U',
    'last_byte': 'offset_bytes+length_bytes_ceil-1U',
}


def setzeros_accesses(csup: str) -> str:
    """every statement of the body must be recognised; -> Coq `list zacc` in textual order (WalkerSafeCpp.v).  The meaning of the
    index variables is pinned by SETZEROS_DEFS; the Coq side proves all accesses inside [offset/8, ceil((offset+length)/8))."""
    m = re.search(r'inline VoidResult bitspan::setZeros\(\{\{\s*typename_unsigned_bit_length\s*\}\} length\)\{(.*?)\n\}', csup, flags=re.S)
    if not m:
        raise Closed('bitspan::setZeros not found')
    body = re.sub(r'\{\{\s*typename_\w+\s*\}\}', 'T', m.group(1))
    body = re.sub(r'\{\{\s*assert\([^}]*\}\}', '', body)
    out: typing.List[str] = []
    seen_defs = set()
    guard_small = guard_zero = False
    stmts = [x.strip() for x in re.split(r';|\n', body) if x.strip()]
    for st in stmts:
        flat = st.replace(' ', '')
        if flat in ('{', '}', 'return{}'):
            continue
        if flat == 'if(length>size()){':
            guard_small = True
            continue
        if flat == 'return-Error::SerializationBufferTooSmall':
            continue
        if flat == 'if(length==0){':
            guard_zero = True
            continue
        d = re.fullmatch(r'constT(\w+)=(.*)', flat)
        if d and d.group(1) in SETZEROS_DEFS:
            if d.group(2) != SETZEROS_DEFS[d.group(1)]:
                raise Closed('bitspan::setZeros: %s is defined as %s' % (d.group(1), d.group(2)))
            seen_defs.add(d.group(1))
            continue
        if 'data_[' in flat or 'memset' in flat:
            if not (guard_small and guard_zero and len(seen_defs) == len(SETZEROS_DEFS)):
                raise Closed('bitspan::setZeros: access before the guards / index definitions')
            mm = re.fullmatch(r'memset\(&data_\[(\w+)\],0,(\w+)\)', flat)
            if mm:
                if mm.group(2) != 'length_bytes_ceil' or mm.group(1) not in ('offset_bytes', 'last_byte'):
                    raise Closed('bitspan::setZeros: memset shape %r' % flat)
                out.append('ZMemset %s' % ('ZFirst' if mm.group(1) == 'offset_bytes' else 'ZLast'))
                continue
            idx = re.findall(r'data_\[([^\]]*)\]', flat)
            rest = re.sub(r'data_\[[^\]]*\]', 'D', flat)
            if not idx or any(i not in ('offset_bytes', 'last_byte') for i in idx) or 'memset' in rest or '[' in rest:
                raise Closed('bitspan::setZeros: unrecognised access %r' % st)
            out += ['ZByte %s' % ('ZFirst' if i == 'offset_bytes' else 'ZLast') for i in idx]
            continue
        raise Closed('bitspan::setZeros: unrecognised statement %r' % st)
    if not out:
        raise Closed('bitspan::setZeros: no access found')
    return '[' + '; '.join(out) + ']'


# ---- C++ serializer: check / access events, and "every store goes through a checked bitspan member" ----

CPP_SER_MEMBERS_OK = {'size', 'offset', 'offset_bytes_ceil', 'padAndMoveToAlignment', 'setZeros', 'setBit', 'add_offset', 'subspan',
                      'offset_alings_to', 'offset_alings_to_byte'}


def cpp_ser_facts(macro, cser: str, csup: str) -> typing.Tuple[typing.Dict[str, str], bool]:
    def events(body, checks, accesses):
        ev = []
        for pat in checks:
            ev += [(m.start(), 'EvCheck') for m in re.finditer(pat, body)]
        for pat in accesses:
            ev += [(m.start(), 'EvAccess') for m in re.finditer(pat, body)]
        return '[' + '; '.join(k for _, k in sorted(ev)) + ']'
    acc = [r'out_buffer\.set\w*', r'out_buffer\.padAndMoveToAlignment', r'_serialize_any\s*\(', r'_serialize_integer\s*\(', r'for\s*\(', r'\bserialize\s*\(']
    evs = {
        'cpp_ser_impl': events(macro(cser, '_serialize_impl'), [r'return\s+-nunavut::support::Error::SerializationBufferTooSmall'], acc),
        'cpp_ser_vla': events(macro(cser, '_serialize_variable_length_array'), [r'return\s+-nunavut::support::Error::SerializationBadArrayLength'], acc),
    }
    for name, pat_stores in (('setBit', [r'copyTo\s*\(']), ('setUxx', [r'copyTo\s*\(']), ('setZeros', [r'data_\[', r'memset\s*\('])):
        m = re.search(r'inline VoidResult bitspan::%s\([^)]*\)\s*\{(.*?)\n\}' % name, csup, flags=re.S)
        if not m:
            raise Closed('bitspan::%s not found' % name)
        evs['cpp_' + name] = events(m.group(1), [r'return\s+-Error::SerializationBufferTooSmall'], pat_stores)
    # every use of out_buffer in the serializer template is one of the checked members / pure cursor functions
    used = set(re.findall(r'out_buffer\.(\w+)', cser))
    used |= {'setUxx', 'setIxx'} if re.search(r"out_buffer\.set\{\{\s*'U' if t is UnsignedIntegerType else 'I'\s*\}\}xx\(", cser) else set()
    ok = True
    for u in used:
        if u in CPP_SER_MEMBERS_OK or u in ('setUxx', 'setIxx', 'set', 'setF'):
            continue
        ok = False
    if re.search(r'aligned_ptr|memcpy|memmove|memset|\.data\(\)|out_buffer\s*\[', cser):
        ok = False
    # setIxx / setF* delegate to setUxx
    for name in ('setIxx', 'setF16', 'setF32', 'setF64'):
        m = re.search(r'inline VoidResult bitspan::%s\([^)]*\)\s*\{(.*?)\n\}' % name, csup, flags=re.S)
        if not m or not re.search(r'return\s+set[UI]xx\(', m.group(1)) or re.search(r'data_\[|memset|copyTo', m.group(1)):
            ok = False
    return evs, ok


def cpp_getters_bytewise(csup: str) -> bool:
    """const_bitspan::getU8..getU64 / getBit fetch bytes only through copyTo (byte-wise, saturated): no typed load through a cast
    pointer, no direct data_ / aligned_ptr access (the model's footprint `rd_log` is the saturated fragment copyTo touches)"""
    ok = True
    for name in ('getU8', 'getU16', 'getU32', 'getU64'):
        m = re.search(r'inline uint\d+_t const_bitspan::%s\([^)]*\) const noexcept\s*\{(.*?)\n\}' % name, csup, flags=re.S)
        if not m:
            raise Closed('const_bitspan::%s not found' % name)
        body = re.sub(r'\{\{\s*assert\([^}]*\}\}', '', m.group(1))
        if not re.search(r'saturateBufferFragmentBitLength\(', body) or not re.search(r'copyTo\(', body):
            raise Closed('const_bitspan::%s: saturate + copyTo shape not recognised' % name)
        if re.search(r'\*\s*reinterpret_cast|aligned_ptr\s*\(|data_\s*\[|data_\.data\(\)|memcpy|memmove', body):
            ok = False
    return ok


def cpp_hdr_check(macro, cdes: str) -> str:
    """the delimiter-header test of the C++ _deserialize_composite: 'HMulCmp' = `(h * 8U) > in_buffer.size()` (the product wraps where
    size_t is narrow), 'HDivCmp' = `h > (in_buffer.size() / 8U)`; anything else fails closed"""
    body = macro(cdes, '_deserialize_composite')
    tests = re.findall(r'if\s*\((.*?)\)\s*(?://[^\n]*)?\n\s*\{\s*return\s+-nunavut::support::Error::RepresentationBadDelimiterHeader', body, flags=re.S)
    if len(tests) != 1:
        raise Closed('C++ _deserialize_composite: delimiter header test not found')
    t = tests[0].replace(' ', '')
    if t == '({{ref_size_bytes}}*8U)>in_buffer.size()':
        raise Closed('C++ delimiter header test multiplies before comparing again (F-CPP-HDR-WRAP32, fixed in f2f61d1): wraps on a 32-bit size_t')
    if t == '{{ref_size_bytes}}>(in_buffer.size()/8U)':
        return 'HDivCmp'
    raise Closed('C++ delimiter header test not recognised: ' + t)


def c_assert_max_not_under_override(ser: str, cser: str) -> bool:
    """the `maximum still fits` assertion of _serialize_any is emitted only when the capacity override option is off (C and C++ alike)"""
    res = []
    for text, pat in ((ser, r"\{\{\s*assert\('\(offset_bits \+ %dULL\) <= \(capacity_bytes \* 8U\)'"), (cser, r"\{\{\s*assert\('%dULL <= out_buffer\.size\(\)'")):
        ms = list(re.finditer(pat, text))
        if len(ms) != 1:
            raise Closed('_serialize_any: maximum-fits assertion not found')
        before = text[:ms[0].start()].rstrip().split('\n')[-1].strip()
        after = text[ms[0].end():].split('\n')[1].strip()
        res.append(bool(re.fullmatch(r'\{%-?\s*if\s+not\s+options\.enable_override_variable_array_capacity\s*-?%\}', before))
                   and bool(re.fullmatch(r'\{%-?\s*endif\s*-?%\}', after)))
    if not (res[0] and res[1]):
        raise Closed('_serialize_any: the maximum-fits assertion is emitted under the capacity override again (F-C-OVR-ASSERT, fixed in f2f61d1)')
    return True
