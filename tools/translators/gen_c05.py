"""C05 translator: generator 'c05' -> coq/theories/Generated/Gen_C05.v

T2 part (Python ast -> Gallina, fail closed), all re-read from the working tree on every run:
  * DSDLCodeGenerator.filter_bits2bytes_ceil        (src/nunavut/jinja/__init__.py)          -> filter_bits2bytes_ceil : Z -> option Z
  * _CFit enumeration values and _CFit.get_best_fit (src/nunavut/lang/c/__init__.py)          -> get_best_fit : Z -> option Z
  * filter_to_standard_bit_length                                                              -> filter_to_standard_bit_length : pty -> option Z
  * filter_literal, the pydsdl.IntegerType branch (+ the path condition that reaches it)       -> filter_literal_int, filter_literal_int_guard
  * filter_literal, the expression part of the pydsdl.FloatType branch                         -> filter_literal_float_expr
  * _float_division_expr (helper of that branch)                                               -> float_division_expr
    `repr(float(value))` (shortest round-trip decimal of the correctly rounded value: library behaviour) is NOT modelled: it
    becomes a call of the oracle parameter `repr_float : (Z * Z) -> str` that both definitions take
  (`raise` = None.  Python builtins are mapped to the definitions of Gen/MetaC05Base.v: str(int) -> py_str_int,
   str * bool -> str_times_bool, isinstance(x, pydsdl.C) -> py_isinstance x C_C, "..{}..".format(ints) -> concatenation.)

Template scan part (fail closed when an anchor is not found exactly once): the Jinja expression from which each exported constant
is rendered, as Gallina data (`exported_table`, `c_capcheck`, `cpp_capcheck`, the `% 8 == 0` template assertions) so that theorems
about the exported values are re-checked against the templates as they are now.
"""
from __future__ import annotations

import ast
import os
import re
import typing

from . import gen, pyfun_tr
from .pyfun_tr import FunSpec, T_BOOL, T_INT, T_STR, Unsupported

OUT = os.path.join(gen.GEN_DIR, 'Gen_C05.v')
SOURCES = ('src/nunavut/jinja/__init__.py, src/nunavut/lang/c/__init__.py, src/nunavut/lang/{c,cpp,py}/templates/*.j2')
HEAD = gen.HEADER % SOURCES + ('From Coq Require Import List NArith ZArith Bool.\nFrom Verif Require Import Str MetaC05Base MetaC05Rne.\n'
                               'Import ListNotations.\nOpen Scope Z_scope.\n\n')

T_OPT_INT = 'option Z'
T_PTY = 'pty'
T_FRAC = '(Z * Z)'
ORACLE = ('repr_float', '(Z * Z) -> str')
T_LANG = 'lang'
T_OPT_STR = 'option str'
PYDSDL_CLASSES = ('BooleanType', 'IntegerType', 'UnsignedIntegerType', 'SignedIntegerType', 'FloatType', 'VoidType', 'PrimitiveType',
                  'ArithmeticType')


class Tr5(pyfun_tr.Tr):
    """pyfun_tr.Tr plus: raise (partial functions), int(), str(int), str + str, str * bool, conditional expressions, unary minus,
    constant powers, isinstance against pydsdl classes, ty.bit_length, Fraction numerator/denominator, _CFit members,
    cls(x) of an enumeration (= the member with that value), str.format with positional `{}` placeholders."""

    def __init__(self, ctx, partial: bool, enum: typing.Optional[typing.Dict[str, int]] = None, oracle: bool = False):
        super().__init__(ctx)
        self.partial = partial
        self.enum = enum or {}
        self.oracle = oracle
        self.exact_helper = False

    def expr(self, e, env):
        # enumeration member `self` (modelled by its value): self.value, self.to_*(...)
        if (isinstance(e, ast.Attribute) and isinstance(e.value, ast.Name) and e.value.id == 'self' and e.attr == 'value'
                and env.get('self', (None, None))[1] == T_INT):
            return env['self'][0], T_INT
        if (isinstance(e, ast.Call) and isinstance(e.func, ast.Attribute) and isinstance(e.func.value, ast.Name) and e.func.value.id == 'self'
                and env.get('self', (None, None))[1] == T_INT and e.func.attr in ('to_c_int', 'to_std_int', 'to_c_float') and not e.keywords):
            args = [self.expr(a, env) for a in e.args]
            want = [] if e.func.attr == 'to_c_float' else [T_BOOL]
            if [t for _, t in args] != want:
                raise Unsupported('arguments of self.%s' % e.func.attr)
            return '(CFit_%s %s%s)' % (e.func.attr, env['self'][0], ''.join(' ' + a for a, _ in args)), T_STR
        # <option Z>.to_c_type(value, language[, "prefix"]) on the result of get_best_fit
        if isinstance(e, ast.Call) and isinstance(e.func, ast.Attribute) and e.func.attr == 'to_c_type' and not e.keywords and len(e.args) in (2, 3):
            fit, tf = self.expr(e.func.value, env)
            v, tv = self.expr(e.args[0], env)
            l, tl = self.expr(e.args[1], env)
            if tf != T_OPT_INT or tv != T_PTY or tl != T_LANG:
                raise Unsupported('to_c_type(%s; %s, %s)' % (tf, tv, tl))
            pfx = 'None'
            if len(e.args) == 3:
                if not (isinstance(e.args[2], ast.Constant) and isinstance(e.args[2].value, str)):
                    raise Unsupported('to_c_type prefix')
                pfx = '(Some %s)' % pyfun_tr._str_lit(e.args[2].value)
            return '(match %s with Some fit_ => CFit_to_c_type fit_ %s %s %s | None => None end)' % (fit, v, l, pfx), T_OPT_STR
        # language.get_config_value_as_bool("use_standard_types") / language.named_types["boolean"]
        if (isinstance(e, ast.Call) and isinstance(e.func, ast.Attribute) and e.func.attr == 'get_config_value_as_bool' and len(e.args) == 1
                and isinstance(e.args[0], ast.Constant) and e.args[0].value == 'use_standard_types' and not e.keywords):
            l, tl = self.expr(e.func.value, env)
            if tl != T_LANG:
                raise Unsupported('get_config_value_as_bool on %s' % tl)
            return '(lang_use_standard_types %s)' % l, T_BOOL
        if isinstance(e, ast.Attribute) and e.attr in ('valuetoken_true', 'valuetoken_false') and isinstance(e.value, ast.Name) \
                and env.get(e.value.id, (None, None))[1] == T_LANG:
            return '(lang_%s %s)' % (e.attr, env[e.value.id][0]), T_STR
        if (isinstance(e, ast.Subscript) and isinstance(e.value, ast.Attribute) and e.value.attr == 'named_types'
                and isinstance(e.slice, ast.Constant) and e.slice.value == 'boolean'):
            l, tl = self.expr(e.value.value, env)
            if tl != T_LANG:
                raise Unsupported('named_types of %s' % tl)
            return '(lang_named_boolean %s)' % l, T_STR
        # {CastMode.SATURATED: True, CastMode.TRUNCATED: False}[t.cast_mode]
        if isinstance(e, ast.Subscript) and isinstance(e.value, ast.Dict) and isinstance(e.slice, ast.Attribute) and e.slice.attr == 'cast_mode':
            t, tt = self.expr(e.slice.value, env)
            if tt != T_PTY:
                raise Unsupported('cast_mode of %s' % tt)
            arms = {}
            for k, v in zip(e.value.keys, e.value.values):
                ku = ast.unparse(k)
                if not ku.startswith('pydsdl.PrimitiveType.CastMode.') or not (isinstance(v, ast.Constant) and isinstance(v.value, bool)):
                    raise Unsupported('cast mode table entry %s' % ku)
                arms[ku.rsplit('.', 1)[1]] = 'true' if v.value else 'false'
            if set(arms) != {'SATURATED', 'TRUNCATED'}:
                raise Unsupported('cast mode table keys %s' % sorted(arms))
            return ('(match pty_cast_mode %s with CM_SATURATED => %s | CM_TRUNCATED => %s end)' % (t, arms['SATURATED'], arms['TRUNCATED'])), T_BOOL
        if (isinstance(e, ast.Compare) and len(e.ops) == 1 and isinstance(e.ops[0], ast.In) and isinstance(e.comparators[0], ast.Tuple)
                and all(isinstance(x, ast.Constant) and type(x.value) is int for x in e.comparators[0].elts) and e.comparators[0].elts):
            a, ta = self.expr(e.left, env)
            if ta != T_INT:
                raise Unsupported('in-tuple test on %s' % ta)
            r = ' || '.join('(Z.eqb %s %s)' % (a, pyfun_tr._int_lit(x.value)) for x in e.comparators[0].elts)
            return '(%s)' % r, T_BOOL
        if (isinstance(e, ast.Compare) and len(e.ops) == 1 and isinstance(e.ops[0], ast.Is) and isinstance(e.comparators[0], ast.Constant)
                and e.comparators[0].value is None and isinstance(e.left, ast.Name) and env.get(e.left.id, (None, None))[1] == T_OPT_STR):
            return '(opt_is_none %s)' % env[e.left.id][0], T_BOOL
        if isinstance(e, ast.Call):
            f = e.func
            if isinstance(f, ast.Name) and f.id == 'int' and len(e.args) == 1 and not e.keywords:
                v, tv = self.expr(e.args[0], env)
                if tv not in (T_INT, T_OPT_INT):
                    raise Unsupported('int() of %s' % tv)
                return v, tv
            if isinstance(f, ast.Name) and f.id == 'str' and len(e.args) == 1 and not e.keywords:
                v, tv = self.expr(e.args[0], env)
                if tv == T_STR:
                    return v, tv
                if tv != T_INT:
                    raise Unsupported('str() of %s' % tv)
                return '(py_str_int %s)' % v, T_STR
            if isinstance(f, ast.Name) and f.id == 'abs' and len(e.args) == 1 and not e.keywords:
                v, tv = self.expr(e.args[0], env)
                if tv != T_INT:
                    raise Unsupported('abs() of %s' % tv)
                return '(Z.abs %s)' % v, T_INT
            if (isinstance(f, ast.Name) and f.id == 'repr' and len(e.args) == 1 and not e.keywords and self.oracle
                    and isinstance(e.args[0], ast.Call) and isinstance(e.args[0].func, ast.Name) and e.args[0].func.id == 'float'
                    and len(e.args[0].args) == 1 and not e.args[0].keywords):
                v, tv = self.expr(e.args[0].args[0], env)
                if tv != T_FRAC:
                    raise Unsupported('repr(float()) of %s' % tv)
                return '(repr_float %s)' % v, T_STR          # oracle: shortest round-trip decimal of the correctly rounded value
            if (isinstance(f, ast.Name) and f.id == '_is_exact_double' and len(e.args) == 1 and not e.keywords and self.exact_helper):
                v, tv = self.expr(e.args[0], env)
                if tv != T_INT:
                    raise Unsupported('_is_exact_double of %s' % tv)
                return '(exact64 %s)' % v, T_BOOL       # shape-pinned helper: int(float(x)) == x, OverflowError -> False
            if (isinstance(f, ast.Name) and f.id == '_float_division_expr' and len(e.args) == 1 and not e.keywords and self.oracle):
                v, tv = self.expr(e.args[0], env)
                if tv != T_FRAC:
                    raise Unsupported('_float_division_expr of %s' % tv)
                return '(float_division_expr repr_float %s)' % v, T_STR
            if isinstance(f, ast.Name) and f.id == 'cls' and len(e.args) == 1 and self.enum:
                v, tv = self.expr(e.args[0], env)      # Enum(member) is that member
                if tv != T_INT:
                    raise Unsupported('cls() of %s' % tv)
                return v, tv
            if isinstance(f, ast.Name) and f.id == 'isinstance' and len(e.args) == 2:
                v, tv = self.expr(e.args[0], env)
                c = e.args[1]
                if (tv == T_PTY and isinstance(c, ast.Attribute) and isinstance(c.value, ast.Name) and c.value.id == 'pydsdl'
                        and c.attr in PYDSDL_CLASSES):
                    return '(py_isinstance %s C_%s)' % (v, c.attr), T_BOOL
                raise Unsupported('isinstance(%s, %s)' % (tv, ast.unparse(c)))
            if (isinstance(f, ast.Attribute) and f.attr == 'get_best_fit' and isinstance(f.value, ast.Name) and f.value.id == '_CFit'
                    and len(e.args) == 1 and not e.keywords):
                v, tv = self.expr(e.args[0], env)
                if tv != T_INT:
                    raise Unsupported('get_best_fit of %s' % tv)
                return '(get_best_fit %s)' % v, T_OPT_INT
            if (isinstance(f, ast.Attribute) and f.attr == 'format' and isinstance(f.value, ast.Constant) and isinstance(f.value.value, str)
                    and not e.keywords):
                pieces = f.value.value.split('{}')
                if len(pieces) != len(e.args) + 1 or any('{' in p or '}' in p for p in pieces):
                    raise Unsupported('format string %r' % f.value.value)
                out = [pyfun_tr._str_lit(pieces[0])]
                for a, p in zip(e.args, pieces[1:]):
                    v, tv = self.expr(a, env)
                    if tv == T_STR:
                        out += [v, pyfun_tr._str_lit(p)]
                        continue
                    if tv != T_INT:
                        raise Unsupported('format argument of type %s' % tv)
                    out += ['(py_str_int %s)' % v, pyfun_tr._str_lit(p)]
                return '(%s)' % ' ++ '.join(out), T_STR
        if isinstance(e, ast.Attribute):
            if isinstance(e.value, ast.Name) and e.value.id == '_CFit' and e.attr in self.enum:
                return pyfun_tr._int_lit(self.enum[e.attr]), T_INT
            if not (isinstance(e.value, ast.Name) and e.value.id == 'self'):
                v, tv = self.expr(e.value, env)
                if tv == T_PTY and e.attr == 'bit_length':
                    return '(pty_bit_length %s)' % v, T_INT
                if tv == T_FRAC and e.attr == 'numerator':
                    return '(fst %s)' % v, T_INT
                if tv == T_FRAC and e.attr == 'denominator':
                    return '(snd %s)' % v, T_INT
                if tv == T_OPT_INT and e.attr == 'value' and self.enum:
                    return v, tv                         # the value of an enumeration member (members are modelled by their values)
                raise Unsupported('attribute .%s of %s' % (e.attr, tv))
        if isinstance(e, ast.IfExp):
            c, tc = self.expr(e.test, env)
            a, ta = self.expr(e.body, env)
            b, tb = self.expr(e.orelse, env)
            if ta == T_STR and tb == T_OPT_STR:
                b, tb = '(opt_str_get %s)' % b, T_STR      # guarded by `... is None` in the supported shapes; None reads as ""
            if tc != T_BOOL or ta != tb:
                raise Unsupported('conditional expression %s ? %s : %s' % (tc, ta, tb))
            return '(if %s then %s else %s)' % (c, a, b), ta
        if isinstance(e, ast.UnaryOp) and isinstance(e.op, ast.USub):
            a, ta = self.expr(e.operand, env)
            if ta != T_INT:
                raise Unsupported('unary minus on %s' % ta)
            return '(Z.opp %s)' % a, T_INT
        if isinstance(e, ast.BinOp):
            if isinstance(e.op, ast.Pow):
                if not (isinstance(e.left, ast.Constant) and isinstance(e.right, ast.Constant) and type(e.left.value) is int
                        and type(e.right.value) is int and e.right.value >= 0):
                    raise Unsupported('power with non-constant operands')
                return '(Z.pow %s %s)' % (pyfun_tr._int_lit(e.left.value), pyfun_tr._int_lit(e.right.value)), T_INT
            a, ta = self.expr(e.left, env)
            b, tb = self.expr(e.right, env)
            if isinstance(e.op, ast.Add) and ta == T_STR and tb == T_STR:
                return '(%s ++ %s)' % (a, b), T_STR
            if isinstance(e.op, ast.Mult) and ta == T_STR and tb == T_BOOL:
                return '(str_times_bool %s %s)' % (a, b), T_STR
            if ta == T_INT and tb == T_INT:
                return super().expr(e, env)
            raise Unsupported('binary operator %s on %s, %s' % (type(e.op).__name__, ta, tb))
        return super().expr(e, env)

    def ret(self, v, env):
        return v

    def block(self, stmts, env):
        if stmts and isinstance(stmts[0], ast.Raise):
            if not self.partial:
                raise Unsupported('raise in a total function')
            return 'None'
        if stmts and isinstance(stmts[0], ast.Return) and self.partial:
            s = stmts[0]
            if s.value is None:
                raise Unsupported('bare return')
            v, tv = self.expr(s.value, env)
            if tv == 'option ' + self.ctx.spec.ret:
                return v
            if tv != self.ctx.spec.ret:
                raise Unsupported('return type %s, expected %s' % (tv, self.ctx.spec.ret))
            return '(Some %s)' % v
        return super().block(stmts, env)


def translate(fn: ast.FunctionDef, coq_name: str, params: typing.List[typing.Tuple[str, str]], ret: str, partial: bool,
              enum: typing.Optional[typing.Dict[str, int]] = None, body: typing.Optional[typing.List[ast.stmt]] = None,
              skip_params: typing.Sequence[str] = ('self', 'cls'), oracle: bool = False, exact_helper: bool = False) -> str:
    spec = FunSpec(cls=None, name=fn.name, coq_name=coq_name, params=dict(params), ret=ret)
    tr = Tr5(pyfun_tr.Ctx(spec, None), partial, enum, oracle)
    tr.exact_helper = exact_helper
    env = {n: (n, t) for n, t in params}
    if body is None:
        args = [a.arg for a in fn.args.args if a.arg not in skip_params]
        if args != [n for n, _ in params]:
            raise Unsupported('%s: parameters are %s, expected %s' % (fn.name, args, [n for n, _ in params]))
        if fn.args.vararg or fn.args.kwarg or fn.args.kwonlyargs:
            raise Unsupported('%s: varargs' % fn.name)
        body = list(fn.body)
    text = tr.block(list(body), env)
    ps = ' '.join('(%s : %s)' % p for p in ([ORACLE] if oracle else []) + list(params))
    return 'Definition %s %s : %s :=\n  %s.' % (coq_name, ps, ('option ' + ret) if partial else ret, text)


def _decorators_ok(fn: ast.FunctionDef, allowed: typing.Sequence[str]) -> None:
    for d in fn.decorator_list:
        name = d.id if isinstance(d, ast.Name) else (d.func.id if isinstance(d, ast.Call) and isinstance(d.func, ast.Name) else None)
        if name not in allowed:
            raise Unsupported('%s: decorator %s' % (fn.name, ast.unparse(d)))


def enum_members(tree: ast.Module, cls: str) -> typing.Dict[str, int]:
    for n in tree.body:
        if isinstance(n, ast.ClassDef) and n.name == cls:
            if [ast.unparse(b) for b in n.bases] != ['enum.Enum']:
                raise Unsupported('%s is not a plain enum.Enum' % cls)
            out = {}
            for s in n.body:
                if isinstance(s, ast.Assign):
                    if not (len(s.targets) == 1 and isinstance(s.targets[0], ast.Name) and isinstance(s.value, ast.Constant)
                            and type(s.value.value) is int):
                        raise Unsupported('%s: member assignment %s' % (cls, ast.unparse(s)))
                    if s.value.value in out.values():
                        raise Unsupported('%s: aliased enumeration value' % cls)
                    out[s.targets[0].id] = s.value.value
            return out
    raise Unsupported('class %s not found' % cls)


def _isinstance_of(test: ast.expr, var: str) -> typing.Optional[str]:
    if (isinstance(test, ast.Call) and isinstance(test.func, ast.Name) and test.func.id == 'isinstance' and len(test.args) == 2
            and isinstance(test.args[0], ast.Name) and test.args[0].id == var and isinstance(test.args[1], ast.Attribute)
            and isinstance(test.args[1].value, ast.Name) and test.args[1].value.id == 'pydsdl'):
        return test.args[1].attr
    return None


def literal_branches(fn: ast.FunctionDef):
    """filter_literal: (classes tested before IntegerType, body of the IntegerType branch, body of the FloatType branch)."""
    args = [a.arg for a in fn.args.args]
    if args != ['language', 'value', 'ty', 'cast_format']:
        raise Unsupported('filter_literal parameters %s' % args)
    stmts = [s for s in fn.body if not (isinstance(s, ast.Expr) and isinstance(s.value, ast.Constant))]
    if len(stmts) != 2 or not all(isinstance(s, ast.If) for s in stmts):
        raise Unsupported('filter_literal: expected `if cast_format is None: ...` followed by one isinstance chain')
    pre, chain = stmts
    if ast.unparse(pre.test) != 'cast_format is None' or pre.orelse:
        raise Unsupported('filter_literal: first statement is not `if cast_format is None`')
    for n in ast.walk(pre):
        if isinstance(n, ast.Name) and isinstance(n.ctx, (ast.Store, ast.Del)) and n.id not in ('cast_format', 'maybe_cast_format'):
            raise Unsupported('filter_literal: the cast_format block assigns %s' % n.id)
    before: typing.List[str] = []
    int_body = float_body = bool_body = None
    cur: typing.Optional[ast.stmt] = chain
    while isinstance(cur, ast.If):
        c = _isinstance_of(cur.test, 'ty')
        if c is None:
            raise Unsupported('filter_literal: chain test %s' % ast.unparse(cur.test))
        if c == 'IntegerType' and int_body is None:
            int_body = list(cur.body)
        elif c == 'FloatType' and float_body is None:
            float_body = list(cur.body)
        elif int_body is None:
            before.append(c)
            if c == 'BooleanType' and bool_body is None and len(before) == 1:
                bool_body = list(cur.body)
        if len(cur.orelse) == 1 and isinstance(cur.orelse[0], ast.If):
            cur = cur.orelse[0]
        else:
            if not (len(cur.orelse) == 1 and isinstance(cur.orelse[0], ast.Raise)):
                raise Unsupported('filter_literal: the chain does not end in raise')
            cur = None
    if int_body is None or float_body is None or bool_body is None:
        raise Unsupported('filter_literal: BooleanType (first) / IntegerType / FloatType branch not found')
    return before, int_body, float_body, bool_body


# ---------------------------------------------------------------------------------------------------------------------
# template scan
# ---------------------------------------------------------------------------------------------------------------------

def _norm_template(text: str) -> str:
    text = re.sub(r'\{#.*?#\}', '', text, flags=re.S)
    return re.sub(r'\s+', ' ', text)


def _one(pattern: str, text: str, what: str) -> 're.Match':
    ms = list(re.finditer(pattern, text))
    if len(ms) != 1:
        raise Unsupported('template scan: %d matches for %s' % (len(ms), what))
    return ms[0]


ROOTS = ('t', 'T', 'composite_type', 'type')


def mexp_of(expr: str) -> str:
    """Jinja expression -> mexp (Gallina).  Unknown sources become SrcOther (no theorem accepts them)."""
    expr = expr.strip()
    parts = [p.strip() for p in expr.split('|')]
    base, filters = parts[0], parts[1:]
    try:
        node = ast.parse(base, mode='eval').body
    except SyntaxError:
        return '(MSrc SrcOther)'

    def conv(n: ast.expr) -> str:
        if isinstance(n, ast.BinOp) and isinstance(n.op, ast.FloorDiv) and isinstance(n.right, ast.Constant) and n.right.value == 8:
            return '(MFloorDiv8 %s)' % conv(n.left)
        if isinstance(n, ast.BinOp) and isinstance(n.op, ast.Mult) and isinstance(n.left, ast.Constant) and n.left.value == 8:
            return '(MMul8 %s)' % conv(n.right)
        path = []
        while isinstance(n, ast.Attribute):
            path.append(n.attr)
            n = n.value
        if not isinstance(n, ast.Name):
            return '(MSrc SrcOther)'
        path.reverse()
        if n.id in ROOTS:
            return '(MSrc (attr_src true [%s]))' % '; '.join(pyfun_tr._str_lit(x) for x in path)
        if n.id == 'f':
            return '(MSrc (attr_src false [%s]))' % '; '.join(pyfun_tr._str_lit(x) for x in path)
        return '(MSrc SrcOther)'

    out = conv(node)
    # `t.fields | length` / `composite_type.fields_except_padding | length` (unions have no padding fields)
    m_len = re.fullmatch(r'(t|T|composite_type|type)\.(\w+)', base)
    if filters and filters[0] == 'length' and m_len:
        out = '(MSrc (attr_src true [%s; %s]))' % (pyfun_tr._str_lit(m_len.group(2)), pyfun_tr._str_lit('|length'))
        filters = filters[1:]
    for f in filters:
        if f == 'bits2bytes_ceil':
            out = '(MB2B %s)' % out
        elif f == 'int':
            pass
        else:
            return '(MSrc SrcOther)'
    return out



# ---- emit conditions: under which Jinja conditions / loops is a constant rendered at all -------------------------------------

_OPENERS = ('if', 'for', 'macro', 'block', 'call', 'filter', 'with', 'raw', 'autoescape', 'ifuses', 'ifnuses')


def _blank_comments(text: str) -> str:
    return re.sub(r'\{#.*?#\}', lambda m: ' ' * len(m.group(0)), text, flags=re.S)


def enclosing(text: str, pos: int) -> typing.List[typing.Tuple[str, str]]:
    """stack of the Jinja blocks open at offset pos, innermost last, as (kind, header); for an `if` the kind is the branch that is
    open ('if', 'elif', 'else'); entries outside the innermost macro / block are dropped"""
    stack: typing.List[typing.List[str]] = []
    for m in re.finditer(r'\{%-?\s*(\w+)(.*?)-?%\}', text, flags=re.S):
        if m.start() >= pos:
            break
        if m.end() > pos:
            raise Unsupported('template scan: anchor inside a Jinja tag')
        kw, rest = m.group(1), ' '.join(m.group(2).split())
        if kw in _OPENERS or (kw == 'set' and '=' not in rest):
            stack.append([kw, rest, kw])
        elif kw in ('elif', 'else'):
            if not stack or stack[-1][0] not in ('if', 'for', 'ifuses', 'ifnuses'):
                raise Unsupported('template scan: stray %s' % kw)
            stack[-1][2] = kw if stack[-1][0] == 'if' else stack[-1][0] + '-else'
            if kw == 'elif':
                stack[-1][1] = rest
        elif kw.startswith('end'):
            if not stack or stack[-1][0] != kw[3:]:
                raise Unsupported('template scan: unbalanced %s' % kw)
            stack.pop()
    out: typing.List[typing.Tuple[str, str]] = []
    for kind, header, branch in stack:
        if kind in ('macro', 'block'):
            out = []
        elif kind == 'set':
            continue
        else:
            out.append((branch, header))
    return out


def mcond_of(kind: str, header: str) -> str:
    h = header.strip()
    root = r'(?:t|T|type|composite_type)'
    if kind == 'else':
        return '(CondElse %s)' % mcond_of('if', header)
    if kind == 'if':
        if re.fullmatch(root + r' is ServiceType', h):
            return 'CondIsService'
        if re.fullmatch(root + r'\.has_fixed_port_id', h):
            return '(CondHas SrcPortId)'
        if re.fullmatch(root + r'\.fixed_port_id is not none', h):
            return '(CondNotNone SrcPortId)'
        if re.fullmatch(root + r'\.fixed_port_id', h):
            return '(CondTruthy SrcPortId)'
        if re.fullmatch(root + r' is not ServiceType', h):
            return 'CondNotService'
        return 'CondOther'
    if kind == 'for':
        if re.fullmatch(r'\w+ in ' + root + r'\.constants', h):
            return 'CondEach'
        if re.fullmatch(r'f in ' + root + r'\.fields_except_padding if f\.data_type is ArrayType', h):
            return 'CondEachArray'
        return 'CondOther'
    return 'CondOther'


def emit_rows() -> typing.List[typing.Tuple[str, str, str]]:
    rd = lambda rel: _blank_comments(gen.read_repo('src/nunavut/lang/' + rel))  # noqa: E731
    cdef, cbase = rd('c/templates/definitions.j2'), rd('c/templates/base.j2')
    cppc, pyb = rd('cpp/templates/_composite_type.j2'), rd('py/templates/base.j2')
    anchors = [
        ('TgtC', 'KPortId', cbase, r'#define\s+\{\{\s*T\s*\|\s*full_reference_name\s*\}\}_FIXED_PORT_ID_\s'),
        ('TgtCpp', 'KPortId', cppc, r'\sFixedPortId\s*='),
        ('TgtPy', 'KPortId', pyb, r'\s_FIXED_PORT_ID_\s*='),
        ('TgtPy', 'KSvcPortId', rd('py/templates/ServiceType.j2'), r'\s_FIXED_PORT_ID_\s*='),
        ('TgtC', 'KConst', cdef, r'#define\s+\{\{\s*t\s*\|\s*full_reference_name\s*\}\}_\{\{\s*constant\.name\s*\}\}'),
        ('TgtCpp', 'KConst', cppc, r'static constexpr\s+\{\{\s*constant\.data_type\s*\|\s*declaration\s*\}\}'),
        ('TgtPy', 'KConst', pyb, r'\{\{\s*target\s*\}\}\s*=\s*\{\{\s*c\.value\.as_native_integer\(\)'),
        ('TgtC', 'KCap', cdef, r'#define\s+\{\{\s*t\s*\|\s*full_reference_name\s*\}\}_\{\{\s*f\.name\s*\}\}_ARRAY_CAPACITY_\s'),
        ('TgtC', 'KExtentBytes', cdef, r'#define\s+\{\{\s*ref\s*\}\}_EXTENT_BYTES_\s'),
        ('TgtC', 'KBufferBytes', cdef, r'#define\s+\{\{\s*ref\s*\}\}_SERIALIZATION_BUFFER_SIZE_BYTES_\s'),
    ]
    rows = []
    for tg, key, text, pat in anchors:
        m = _one(pat, text, 'emit anchor %s %s' % (tg, key))
        conds = enclosing(text, m.start())
        if tg == 'TgtPy' and key == 'KConst':
            # the integer constant line sits in the type dispatch `elif c.data_type is IntegerType` inside the loop over constants:
            # the dispatch itself is total (bool / integer / float / assert False); what matters here is the loop header
            conds = [c for c in conds if c[0] == 'for' or not re.fullmatch(r'c\.data_type is \w+Type', c[1])]
        rows.append((tg, key, '[%s]' % '; '.join(mcond_of(k, h) for k, h in conds)))
    return rows


def pieces_of(text: str, roots: typing.Sequence[str]) -> str:
    """`abc{{ t.x.y }}def` -> [PText "abc"; PAttr ["x"; "y"]; PText "def"]   (root dropped; unknown roots / non-paths fail closed)"""
    out = []
    pos = 0
    for m in re.finditer(r'\{\{\s*(.*?)\s*\}\}', text):
        if m.start() > pos:
            out.append('PText %s' % pyfun_tr._str_lit(text[pos:m.start()]))
        parts = m.group(1).split('.')
        if parts[0] not in roots or not all(re.fullmatch(r'\w+(\(\))?', x) for x in parts[1:]) or len(parts) < 2:
            raise Unsupported('template scan: expression %r in a string template' % m.group(1))
        out.append('PAttr [%s]' % '; '.join(pyfun_tr._str_lit(x) for x in parts[1:]))
        pos = m.end()
    if pos < len(text):
        out.append('PText %s' % pyfun_tr._str_lit(text[pos:]))
    return '[%s]' % '; '.join(out)


def name_and_const_templates() -> str:
    cdef = _norm_template(gen.read_repo('src/nunavut/lang/c/templates/definitions.j2'))
    pyb = _norm_template(gen.read_repo('src/nunavut/lang/py/templates/base.j2'))
    fn = _one(r'#define \{\{ ref \}\}_FULL_NAME_ "(.*?)" ', cdef, 'C _FULL_NAME_ string').group(1)
    fnv = _one(r'#define \{\{ ref \}\}_FULL_NAME_AND_VERSION_ "(.*?)" ', cdef, 'C _FULL_NAME_AND_VERSION_ string').group(1)
    m = _one(r'\{%- if c\.data_type is BooleanType %\} \{\{ target \}\} = (.*?) \{%- elif c\.data_type is IntegerType %\} \{\{ target \}\} = (.*?) '
             r'\{%- elif c\.data_type is FloatType %\} \{\{ target \}\} = (.*?) \{%- else -%\}\{%- assert False -%\} \{%- endif %\}', pyb,
             'Python class constants')
    return '\n'.join([
        'Definition c_full_name_tpl : list piece := %s.' % pieces_of(fn, ROOTS),
        'Definition c_full_name_and_version_tpl : list piece := %s.' % pieces_of(fnv, ROOTS),
        'Definition py_bool_const_tpl : list piece := %s.' % pieces_of(m.group(1), ('c',)),
        'Definition py_int_const_tpl : list piece := %s.' % pieces_of(m.group(2), ('c',)),
        'Definition py_float_const_tpl : list piece := %s.' % pieces_of(m.group(3), ('c',))])


def names_and_flags() -> str:
    """every exported name the C / C++ templates declare (so that a name without a row in the model is noticed), and the boolean flags
    with the Jinja branch under which each literal value is rendered"""
    rd = lambda rel: _blank_comments(gen.read_repo('src/nunavut/lang/' + rel))  # noqa: E731
    cdef, cbase, cppc = rd('c/templates/definitions.j2'), rd('c/templates/base.j2'), rd('cpp/templates/_composite_type.j2')
    names: typing.List[typing.Tuple[str, str]] = []
    for text in (cbase, cdef):
        for m in re.finditer(r'#[ \t]*define[ \t]+\{\{[^}]*\}\}((?:_\{\{[^}]*\}\})?[A-Za-z_0-9]*)', text):
            nm = re.sub(r'\{\{\s*constant\.name\s*\}\}', '<const>', m.group(1))
            nm = re.sub(r'\{\{\s*f\.name\s*\}\}', '<field>', nm)
            if nm and ('TgtC', nm) not in names:
                if '{' in nm:
                    raise Unsupported('template scan: macro name %r' % m.group(1))
                names.append(('TgtC', nm))
    a = cppc.find('struct _traits_')
    b = cppc.find('struct TypeOf', a)
    if a < 0 or b < 0:
        raise Unsupported('template scan: C++ _traits_ block not found')
    traits = cppc[a:b]
    for m in re.finditer(r'static constexpr\s+(?:\{\{[^}]*\}\}|[\w:]+)\s+(\w+)\s*=', traits):
        if ('TgtCpp', m.group(1)) not in names:
            names.append(('TgtCpp', m.group(1)))
    if re.search(r'static constexpr\s+\{\{\s*constant\.data_type\s*\|\s*declaration\s*\}\}\s+\{\{\s*constant\.name\s*\|\s*id\s*\}\}\s*=', cppc):
        names.append(('TgtCpp', '<const>'))
    for rel in ('cpp/templates/_fields_as_variant.j2', 'cpp/templates/_fields_as_union.j2'):
        if re.search(r'static constexpr const std::size_t MAX_INDEX =', rd(rel)) and ('TgtCpp', 'MAX_INDEX') not in names:
            names.append(('TgtCpp', 'MAX_INDEX'))
    sites = []
    cppsvc = rd('cpp/templates/ServiceType.j2')
    sa = cppsvc.find('struct _traits_')
    if sa < 0:
        raise Unsupported('template scan: C++ service _traits_ block not found')
    sb = cppsvc.find('};', sa)
    for m in re.finditer(r'static constexpr\s+(?:\{\{[^}]*\}\}|[\w:]+)\s+(\w+)\s*=\s*(\w+);', cppsvc[sa:sb]):
        names.append(('TgtCpp', 'Svc.' + m.group(1)))
        sites.append(('TgtCpp', 'Svc.' + m.group(1), enclosing(cppsvc, sa + m.start()), m.group(2)))
    if len(re.findall(r'static constexpr', cppsvc)) != len([x for x in names if x[1].startswith('Svc.')]):
        raise Unsupported('template scan: a static constexpr of cpp/templates/ServiceType.j2 lies outside its _traits_ block')
    for alias, part in (('Request', 'request_type'), ('Response', 'response_type')):
        if not re.search(r'using %s\s*=\s*\{\{\s*T\s*\|\s*short_reference_name\s*\}\}::\{\{\s*T\.%s\s*\|\s*short_reference_name\s*\}\};' % (alias, part),
                         cppsvc):
            raise Unsupported('template scan: C++ service alias %s is not T.%s' % (alias, part))
        names.append(('TgtCpp', 'Svc.' + alias))
    for m in re.finditer(r'_HAS_FIXED_PORT_ID_[ \t]+(\w+)', cbase):
        sites.append(('TgtC', '_HAS_FIXED_PORT_ID_', enclosing(cbase, m.start()), m.group(1)))
    for nm in ('HasFixedPortID', 'IsServiceType'):
        for m in re.finditer(r'static constexpr bool ' + nm + r'\s*=\s*(\w+);', traits):
            sites.append(('TgtCpp', nm, enclosing(cppc, a + m.start()), m.group(1)))
    rows = []
    for tg, nm, conds, val in sites:
        if val not in ('true', 'false'):
            raise Unsupported('template scan: %s rendered as %r' % (nm, val))
        rows.append('{| fs_tgt := %s; fs_name := %s; fs_conds := [%s]; fs_value := %s |}'
                    % (tg, pyfun_tr._str_lit(nm), '; '.join(mcond_of(k, h) for k, h in conds), val))
    return ('Definition exported_names : list (mtarget * str) :=\n  [%s].\n\nDefinition flag_sites : list flag_site :=\n  [%s].'
            % (';\n   '.join('(%s, %s)' % (tg, pyfun_tr._str_lit(nm)) for tg, nm in names), ';\n   '.join(rows)))


CMP = {'<': 'CmpLt', '<=': 'CmpLe', '>': 'CmpGt', '>=': 'CmpGe'}


def scan_templates() -> str:
    rd = lambda rel: gen.read_repo('src/nunavut/lang/' + rel)  # noqa: E731
    cdef, cbase, cser = rd('c/templates/definitions.j2'), rd('c/templates/base.j2'), rd('c/templates/serialization.j2')
    cppc, cppser = rd('cpp/templates/_composite_type.j2'), rd('cpp/templates/serialization.j2')
    cppvar, cppuni = rd('cpp/templates/_fields_as_variant.j2'), rd('cpp/templates/_fields_as_union.j2')
    pyb = rd('py/templates/base.j2')
    rows: typing.List[typing.Tuple[str, str, str]] = []
    J = r'\{\{\s*(.+?)\s*\}\}'

    n = _norm_template(cdef)
    rows.append(('TgtC', 'KExtentBytes', mexp_of(_one(r'#define \{\{ ref \}\}_EXTENT_BYTES_ ' + J + r'UL ', n, 'C _EXTENT_BYTES_').group(1))))
    rows.append(('TgtC', 'KBufferBytes', mexp_of(_one(r'#define \{\{ ref \}\}_SERIALIZATION_BUFFER_SIZE_BYTES_ ' + J + r'UL ', n,
                                                      'C _SERIALIZATION_BUFFER_SIZE_BYTES_').group(1))))
    rows.append(('TgtC', 'KFullName', mexp_of(_one(r'#define \{\{ ref \}\}_FULL_NAME_ "' + J + '" ', n, 'C _FULL_NAME_').group(1))))
    # the `#define ..._ARRAY_CAPACITY_` line (the #if / #error lines of the override option repeat the expression: same check)
    caps = set(re.findall(r'_ARRAY_CAPACITY_ (?:> )?' + J + r'U ', n))
    if len(caps) != 1:
        raise Unsupported('template scan: C _ARRAY_CAPACITY_ rendered from %s' % sorted(caps))
    rows.append(('TgtC', 'KCap', mexp_of(caps.pop())))
    rows.append(('TgtC', 'KUnionCount', mexp_of(_one(r'_UNION_OPTION_COUNT_ ' + J + r'U ', n, 'C _UNION_OPTION_COUNT_').group(1))))
    c_asserts = ('{%- assert t.extent % 8 == 0 %}' in cdef) and ('{%- assert t.inner_type.extent % 8 == 0 %}' in cdef)
    n = _norm_template(cbase)
    rows.append(('TgtC', 'KPortId', mexp_of(_one(r'_FIXED_PORT_ID_ ' + J + r'U ', n, 'C _FIXED_PORT_ID_').group(1))))

    n = _norm_template(cppc)
    rows.append(('TgtCpp', 'KExtentBytes', mexp_of(_one(r' ExtentBytes = ' + J + r'UL;', n, 'C++ ExtentBytes').group(1))))
    rows.append(('TgtCpp', 'KBufferBytes', mexp_of(_one(r' SerializationBufferSizeBytes = ' + J + r'UL;', n,
                                                        'C++ SerializationBufferSizeBytes').group(1))))
    rows.append(('TgtCpp', 'KPortId', mexp_of(_one(r' FixedPortId = ' + J + r'U;', n, 'C++ FixedPortId').group(1))))
    for name, text in (('variant', cppvar), ('union', cppuni)):
        rows.append(('TgtCpp', 'KUnionCount', mexp_of(_one(r' MAX_INDEX = ' + J + r'U;', _norm_template(text), 'C++ MAX_INDEX (%s)' % name).group(1))))

    n = _norm_template(pyb)
    rows.append(('TgtPy', 'KExtentBytes', mexp_of(_one(r' _EXTENT_BYTES_ = ' + J + ' ', n, 'Python _EXTENT_BYTES_').group(1))))
    rows.append(('TgtPy', 'KPortId', mexp_of(_one(r' _FIXED_PORT_ID_ = ' + J + ' ', n, 'Python _FIXED_PORT_ID_').group(1))))
    # the service class itself (py/templates/ServiceType.j2)
    rows.append(('TgtPy', 'KSvcPortId', mexp_of(_one(r' _FIXED_PORT_ID_ = ' + J + ' ', _norm_template(rd('py/templates/ServiceType.j2')),
                                                     'Python service _FIXED_PORT_ID_').group(1))))
    py_asserts = '{%- assert type.extent % 8 == 0 %}' in pyb

    # up-front capacity checks
    def capcheck(name: str, text: str, pattern: str, in_bits: bool, times8: bool, macro: str) -> str:
        m0 = re.search(r'\{%-?\s*macro ' + macro + r'\(t\)\s*-?%\}(.*?)\{%-?\s*endmacro\s*-?%\}', text, flags=re.S)
        if not m0:
            raise Unsupported('template scan: macro %s not found (%s)' % (macro, name))
        body = _norm_template(m0.group(1))
        m = _one(pattern, body, name + ' capacity check')
        first_write = min([i for i in (body.find('_serialize_any('), body.find('buffer['), body.find('offset_bits = 0U'),
                                       body.find('out_buffer.')) if i >= 0] or [len(body)])
        # `out_buffer.size()` in the declaration of capacity_bits precedes the check in C++: look for uses after it
        if name == 'cpp':
            uses = [mm.start() for mm in re.finditer(r'out_buffer\.(?!size\(\))', body)] + [i for i in (body.find('_serialize_any('),) if i >= 0]
            first_write = min(uses or [len(body)])
        return ('{| cc_cap_in_bits := %s; cc_lhs_times8 := %s; cc_op := %s; cc_rhs := %s; cc_first := %s |}'
                % ('true' if in_bits else 'false', 'true' if times8 else 'false', CMP.get(m.group(1), 'CmpOther'), mexp_of(m.group(2)),
                   'true' if m.start() < first_write else 'false'))

    c_cc = capcheck('c', cser, r'if \(\(8U \* \(\{\{ typename_unsigned_bit_length \}\}\) capacity_bytes\) (<=|>=|<|>|==|!=) ' + J +
                    r'UL\) \{ return -NUNAVUT_ERROR_SERIALIZATION_BUFFER_TOO_SMALL; \}', False, True, '_serialize_impl')
    cpp_cc = capcheck('cpp', cppser, r'if \(\(static_cast<\{\{ typename_unsigned_bit_length \}\}>\(capacity_bits\)\) (<=|>=|<|>|==|!=) ' + J +
                      r'UL\) \{ return -nunavut::support::Error::SerializationBufferTooSmall; \}', True, False, '_serialize_impl')
    if not re.search(r'const \{\{ typename_unsigned_length \}\} capacity_bits = out_buffer\.size\(\);', cppser):
        raise Unsupported('template scan: C++ capacity_bits is not out_buffer.size()')
    if not re.search(r'const \{\{ typename_unsigned_length \}\} capacity_bytes = \*inout_buffer_size_bytes;', cser):
        raise Unsupported('template scan: C capacity_bytes is not *inout_buffer_size_bytes')
    # size handed to a nested composite serializer (C): ceil(max/8)
    nested = mexp_of(_one(r'\{% set size_bytes = (.+?) %\}', _norm_template(cser), 'C nested size_bytes').group(1))

    out = ['Definition exported_table : list export :=\n  [%s].' % ';\n   '.join(
        '{| ex_tgt := %s; ex_key := %s; ex_exp := %s |}' % r for r in rows),
        'Definition c_extent_mod8_asserted : bool := %s.' % ('true' if c_asserts else 'false'),
        'Definition py_extent_mod8_asserted : bool := %s.' % ('true' if py_asserts else 'false'),
        'Definition c_capcheck : capcheck :=\n  %s.' % c_cc,
        'Definition cpp_capcheck : capcheck :=\n  %s.' % cpp_cc,
        'Definition c_nested_size_bytes : mexp := %s.' % nested,
        name_and_const_templates(),
        names_and_flags(),
        'Definition emit_table : list emit :=\n  [%s].' % ';\n   '.join(
            '{| em_tgt := %s; em_key := %s; em_conds := %s |}' % r for r in emit_rows())]
    return '\n\n'.join(out)


# ---------------------------------------------------------------------------------------------------------------------
# storage types (C01's `storage_ok` proviso): which C / C++ type a primitive field or constant is declared with
# ---------------------------------------------------------------------------------------------------------------------

def _pin(fn: ast.FunctionDef, expected_return: str) -> None:
    body = [x for x in fn.body if not (isinstance(x, ast.Expr) and isinstance(x.value, ast.Constant))]
    if len(body) != 1 or ast.unparse(body[0]) != expected_return:
        raise Unsupported('%s: body is not `%s`' % (fn.name, expected_return))


def storage_part(jj: ast.Module, cc: ast.Module) -> str:
    import yaml
    cpp = gen.parse_repo('src/nunavut/lang/cpp/__init__.py')
    enum = enum_members(cc, '_CFit')
    out = []
    m = lambda name: pyfun_tr.find_function(cc, '_CFit', name)  # noqa: E731
    for name, params, ret, partial in (('to_std_int', [('self', T_INT), ('is_signed', T_BOOL)], T_STR, False),
                                       ('to_c_int', [('self', T_INT), ('is_signed', T_BOOL)], T_STR, False),
                                       ('to_c_float', [('self', T_INT)], T_STR, False),
                                       ('to_c_type', [('self', T_INT), ('value', T_PTY), ('language', T_LANG), ('inttype_prefix', T_OPT_STR)],
                                        T_STR, True)):
        fn = m(name)
        _decorators_ok(fn, ())
        out.append(translate(fn, 'CFit_' + name, params, ret, partial, enum, skip_params=('cls',)))
    fn = pyfun_tr.find_function(cc, None, 'filter_type_from_primitive')
    _decorators_ok(fn, ('template_language_filter',))
    out.append(translate(fn, 'c_filter_type_from_primitive', [('language', T_LANG), ('value', T_PTY)], T_STR, True, enum))
    fn = pyfun_tr.find_function(cpp, None, 'filter_type_from_primitive')
    _decorators_ok(fn, ('template_language_filter',))
    out.append(translate(fn, 'cpp_filter_type_from_primitive', [('language', T_LANG), ('value', T_PTY)], T_STR, True, enum))
    fn = pyfun_tr.find_function(cpp, None, 'filter_to_standard_bit_length')
    _decorators_ok(fn, ())
    out.append(translate(fn, 'cpp_filter_to_standard_bit_length', [('t', T_PTY)], T_INT, True, enum))
    fn = pyfun_tr.find_function(jj, 'DSDLCodeGenerator', 'is_saturated')
    _decorators_ok(fn, ('staticmethod',))
    out.append(translate(fn, 'is_saturated', [('t', T_PTY)], T_BOOL, True))
    # the C++ filters that merely delegate to the C ones, and the C constant filter
    imports = [ast.unparse(x) for x in cpp.body if isinstance(x, ast.ImportFrom) and x.module == 'nunavut.lang.c']
    if 'from nunavut.lang.c import _CFit' not in imports or 'from nunavut.lang.c import filter_literal as c_filter_literal' not in imports:
        raise Unsupported('cpp/__init__.py does not import _CFit / filter_literal from nunavut.lang.c: %s' % imports)
    _pin(pyfun_tr.find_function(cpp, None, 'filter_constant_value'),
         'return c_filter_literal(language, constant.value.native_value, constant.data_type)')
    _pin(pyfun_tr.find_function(cpp, None, 'filter_literal'), 'return c_filter_literal(language, value, ty, cast_format)')
    _pin(pyfun_tr.find_function(cc, None, 'filter_constant_value'),
         'return filter_literal(language, constant.value.native_value, constant.data_type)')
    for name, tree in (('cpp.filter_constant_value', cpp), ('cpp.filter_literal', cpp), ('c.filter_constant_value', cc)):
        _decorators_ok(pyfun_tr.find_function(tree, None, name.split('.')[1]), ('template_language_filter',))
    out.append('Definition literal_filters_delegate : bool := true.')
    # language configuration (properties.yaml)
    props = yaml.safe_load(gen.read_repo('src/nunavut/lang/properties.yaml'))
    for key, sec in (('c', 'nunavut.lang.c'), ('cpp', 'nunavut.lang.cpp')):
        cfg = props[sec]
        nt = cfg['named_types']
        ust = cfg.get('use_standard_types', cfg.get('options', {}).get('use_standard_types'))
        if not isinstance(ust, bool):
            raise Unsupported('properties.yaml: %s use_standard_types is %r' % (sec, ust))
        cf = cfg.get('options', {}).get('cast_format', cfg.get('cast_format'))
        if not isinstance(cf, str):
            raise Unsupported('properties.yaml: %s cast_format is %r' % (sec, cf))
        nv = cfg['named_values']
        out.append('Definition %s_lang : lang := {| lang_use_standard_types := %s; lang_named_boolean := %s;\n'
                   '  lang_valuetoken_true := %s; lang_valuetoken_false := %s |}.'
                   % (key, 'true' if ust else 'false', pyfun_tr._str_lit(str(nt['boolean'])), pyfun_tr._str_lit(str(nv['true'])),
                      pyfun_tr._str_lit(str(nv['false']))))
        out.append('Definition %s_named_float_32 : str := %s.\nDefinition %s_named_float_64 : str := %s.\nDefinition %s_cast_format : str := %s.'
                   % (key, pyfun_tr._str_lit(str(nt['float_32'])), key, pyfun_tr._str_lit(str(nt['float_64'])), key, pyfun_tr._str_lit(cf)))
    return '\n\n'.join(out)


# ---------------------------------------------------------------------------------------------------------------------

def gen_c05() -> typing.Tuple[bool, str]:
    try:
        jj = gen.parse_repo('src/nunavut/jinja/__init__.py')
        cc = gen.parse_repo('src/nunavut/lang/c/__init__.py')
        parts = []
        fn = pyfun_tr.find_function(jj, 'DSDLCodeGenerator', 'filter_bits2bytes_ceil')
        _decorators_ok(fn, ('staticmethod',))
        parts.append(translate(fn, 'filter_bits2bytes_ceil', [('n_bits', T_INT)], T_INT, True))
        enum = enum_members(cc, '_CFit')
        parts.append('Definition CFit_values : list Z := [%s].' % '; '.join(pyfun_tr._int_lit(v) for v in enum.values()))
        fn = pyfun_tr.find_function(cc, '_CFit', 'get_best_fit')
        _decorators_ok(fn, ('classmethod',))
        parts.append(translate(fn, 'get_best_fit', [('bit_length', T_INT)], T_INT, True, enum))
        fn = pyfun_tr.find_function(cc, None, 'filter_to_standard_bit_length')
        _decorators_ok(fn, ())
        parts.append(translate(fn, 'filter_to_standard_bit_length', [('t', T_PTY)], T_INT, True, enum))
        parts.append(storage_part(jj, cc))
        fn = pyfun_tr.find_function(cc, None, 'filter_literal')
        _decorators_ok(fn, ('template_language_filter',))
        before, int_body, float_body, bool_body = literal_branches(fn)
        parts.append(translate(fn, 'filter_literal_bool', [('language', T_LANG), ('value', T_BOOL)], T_STR, False, body=bool_body))
        guard = ' && '.join(['negb (py_isinstance ty C_%s)' % c for c in before] + ['py_isinstance ty C_IntegerType'])
        for c in before:
            if c not in PYDSDL_CLASSES:
                raise Unsupported('filter_literal: class %s tested before IntegerType' % c)
        parts.append('Definition filter_literal_int_guard (ty : pty) : bool :=\n  %s.' % guard)
        parts.append(translate(fn, 'filter_literal_int', [('value', T_INT), ('ty', T_PTY)], T_STR, False, body=int_body))
        # FloatType branch: `if value.denominator == 1: expr = ... else: expr = ...`, then the cast (cast_format from properties.yaml)
        if not (len(float_body) == 3 and isinstance(float_body[0], ast.If)
                and ast.unparse(float_body[1]) == 'cast = filter_type_from_primitive(language, ty)'
                and ast.unparse(float_body[2]) == 'return cast_format.format(type=cast, value=expr)'):
            raise Unsupported('filter_literal: FloatType branch has an unexpected shape')
        fd = pyfun_tr.find_function(cc, None, '_float_division_expr')
        _decorators_ok(fd, ())
        # the rule that selects the division form: operands below 2**1023 (before the repair of F-FLOAT-OPERAND-ROUNDING) or operands
        # exactly representable as doubles (helper _is_exact_double, pinned: `int(float(x)) == x`, OverflowError -> False)
        exact_helper = any(isinstance(x, ast.FunctionDef) and x.name == '_is_exact_double' for x in cc.body)
        if exact_helper:
            fh = pyfun_tr.find_function(cc, None, '_is_exact_double')
            _decorators_ok(fh, ())
            hb = [x for x in fh.body if not (isinstance(x, ast.Expr) and isinstance(x.value, ast.Constant))]
            if [a.arg for a in fh.args.args] != ['x'] or len(hb) != 1 or ast.unparse(hb[0]) != (
                    'try:\n    return int(float(x)) == x\nexcept OverflowError:\n    return False'):
                raise Unsupported('_is_exact_double has an unexpected shape')
        parts.append('Definition float_rule : frule := %s.' % ('DivIfExactOperands' if exact_helper else 'DivIfBelowLimit'))
        parts.append(translate(fd, 'float_division_expr', [('value', T_FRAC)], T_STR, False, oracle=True, exact_helper=exact_helper))
        if exact_helper != ('exact64' in parts[-1]) or (not exact_helper and 'Z.pow (2)%Z (1023)%Z' not in parts[-1]):
            raise Unsupported('_float_division_expr: the division rule is neither the 2**1023 limit nor _is_exact_double on both operands')
        ret_expr = ast.parse('return expr').body
        parts.append(translate(fn, 'filter_literal_float_expr', [('value', T_FRAC)], T_STR, False, body=[float_body[0]] + ret_expr,
                               oracle=True))
        parts.append(scan_templates())
    except (Unsupported, SyntaxError, OSError, KeyError, ImportError) as ex:
        gen.write_if_changed(OUT, HEAD + '(* translator failed closed: %s *)\n' % str(ex).replace('*)', '* )'))
        return False, 'C05 translator failed closed: %s' % ex
    gen.write_if_changed(OUT, HEAD + '\n\n'.join(parts) + '\n')
    return True, 'ok'


GENERATORS = {'c05': gen_c05}
