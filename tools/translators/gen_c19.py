"""C19 translator ('jinjascan' -> coq/theories/Generated/Gen_JinjaScan.v).  Fail closed.

What is regenerated from the working tree on every run:
  * bundled_root_rules : the alternatives of the ROOT-state rule of the bundled lexer
    (src/nunavut/jinja/jinja2/lexer.py, `Lexer.__init__`, self.rules['root'][0]).  The three format strings
    ('(.*?)(?:%s)', the raw_begin format and the per-delimiter format) are taken from the Python `ast` of the source
    and instantiated for the default delimiters with lstrip_blocks/trim_blocks off; the result must be identical to the
    `.pattern` of the live compiled rule of `Lexer(Environment())` (obtained in a subprocess) -- otherwise fail closed.
    The pattern `(.*?)(?:(?P<n1>B1)|...|(?P<nk>Bk))` is decomposed structurally; every body Bi is translated by the
    fail-closed regex translator (tools/translators/regex_tr.py) into the Regex.v AST.  The lazy prefix and the
    priority of the alternatives are modelled by Gen/JinjaScan.v `root_search`.
  * stock31_root_rules : the same decomposition of the live root rule of the *stock* Jinja2 installed in /venv
    (3.1.x; the whitespace control sign is a capture group there and stripping happens in code).
  * do_lineprefix : translation of filters.do_lineprefix by a dedicated shape-checking mini translator
    (str.splitlines / str.join over a generator expression are outside pyfun_tr's subset).
  * autoindent constants: the slice bound (token.value[:-3]), the filter name and the marker character tested by
    Parser.subparse, taken from the `ast` of parser.py.
  * the If-shaped skeleton facts of JinjaAssert.parse/_do_assert and UseQuery.parse (extensions.py).
"""
from __future__ import annotations

import ast
import json
import os
import re
import subprocess
import typing

from . import gen, regex_tr
from .pyfun_tr import Unsupported, find_function

OUT = os.path.join(gen.GEN_DIR, 'Gen_JinjaScan.v')
LEXER = 'src/nunavut/jinja/jinja2/lexer.py'
PARSER = 'src/nunavut/jinja/jinja2/parser.py'
FILTERS = 'src/nunavut/jinja/jinja2/filters.py'
EXT = 'src/nunavut/jinja/extensions.py'

DEFAULTS = {'block_start_string': '{%', 'block_end_string': '%}', 'variable_start_string': '{{',
            'variable_end_string': '}}', 'comment_start_string': '{#', 'comment_end_string': '#}'}


def _coq_str(s: str) -> str:
    return '([%s]%%N : str)' % '; '.join(str(ord(c)) for c in s)


# ---------------------------------------------------------------------------------------------
# root rule of the bundled lexer, from the ast
# ---------------------------------------------------------------------------------------------

def _const_str(e: ast.AST) -> str:
    if isinstance(e, ast.Constant) and isinstance(e.value, str):
        return e.value
    raise Unsupported('expected a string literal at line %d' % getattr(e, 'lineno', 0))


def _eval_arg(e: ast.AST, env: typing.Dict[str, str]) -> str:
    """e(environment.<x>) | <name bound in env> | prefix_re.get(n, r) (lstrip_blocks off: the default r)"""
    if isinstance(e, ast.Name):
        if e.id in env:
            return env[e.id]
        raise Unsupported('unbound name %s in root rule' % e.id)
    if isinstance(e, ast.Call) and isinstance(e.func, ast.Name) and e.func.id == 'e' and len(e.args) == 1:
        a = e.args[0]
        if isinstance(a, ast.Attribute) and isinstance(a.value, ast.Name) and a.value.id == 'environment' and a.attr in DEFAULTS:
            return re.escape(DEFAULTS[a.attr])
    if (isinstance(e, ast.Call) and isinstance(e.func, ast.Attribute) and e.func.attr == 'get'
            and isinstance(e.func.value, ast.Name) and e.func.value.id == 'prefix_re' and len(e.args) == 2):
        return _eval_arg(e.args[1], env)
    raise Unsupported('unsupported argument expression in root rule: %s' % ast.dump(e)[:120])


def _fmt(e: ast.AST, env: typing.Dict[str, str]) -> str:
    """<literal> % (args...)  or  <literal> % arg"""
    if not (isinstance(e, ast.BinOp) and isinstance(e.op, ast.Mod)):
        raise Unsupported('expected a %-format expression')
    f = _const_str(e.left)
    args = e.right.elts if isinstance(e.right, ast.Tuple) else [e.right]
    return f % tuple(_eval_arg(a, env) for a in args)


def _fmt_elt(e: ast.AST, env: typing.Dict[str, str]) -> str:
    """comprehension element: a %-format, or `<fmt1> if <n ==/!=/in/not in const> else <fmt2>` (a per-delimiter special case)"""
    if isinstance(e, ast.IfExp):
        t = e.test
        if not (isinstance(t, ast.Compare) and len(t.ops) == 1 and isinstance(t.left, ast.Name) and t.left.id == 'n'):
            raise Unsupported('root rule: conditional element with an unsupported test')
        c = t.comparators[0]
        if isinstance(c, ast.Constant) and isinstance(c.value, str):
            vals = [c.value]
        elif isinstance(c, (ast.Tuple, ast.List, ast.Set)) and all(isinstance(x, ast.Constant) and isinstance(x.value, str) for x in c.elts):
            vals = [x.value for x in c.elts]
        else:
            raise Unsupported('root rule: conditional element compares with a non-constant')
        op = t.ops[0]
        if isinstance(op, (ast.Eq, ast.In)):
            truth = env['n'] in vals
        elif isinstance(op, (ast.NotEq, ast.NotIn)):
            truth = env['n'] not in vals
        else:
            raise Unsupported('root rule: conditional element operator')
        return _fmt_elt(e.body if truth else e.orelse, env)
    return _fmt(e, env)


def _compile_rules_order(mod: ast.Module) -> typing.List[typing.Tuple[str, str]]:
    """compile_rules(environment) for the default environment: [x[1:] for x in sorted(rules, reverse=True)] over
    (len(start), name, e(start)) triples; line statement / line comment prefixes are None by default."""
    fn = find_function(mod, None, 'compile_rules')
    rules = None
    for st in fn.body:
        if isinstance(st, ast.Assign) and len(st.targets) == 1 and isinstance(st.targets[0], ast.Name) and st.targets[0].id == 'rules':
            if not isinstance(st.value, ast.List):
                raise Unsupported('compile_rules: rules is not a list literal')
            rules = []
            for t in st.value.elts:
                if not (isinstance(t, ast.Tuple) and len(t.elts) == 3):
                    raise Unsupported('compile_rules: rule is not a 3-tuple')
                ln, nm, ex = t.elts
                if not (isinstance(ln, ast.Call) and isinstance(ln.func, ast.Name) and ln.func.id == 'len'):
                    raise Unsupported('compile_rules: first component is not len(...)')
                a = ln.args[0]
                if not (isinstance(a, ast.Attribute) and a.attr in DEFAULTS):
                    raise Unsupported('compile_rules: len() of something unexpected')
                name = nm.value if isinstance(nm, ast.Constant) else None
                if name is None and isinstance(nm, ast.Name):
                    name = {'TOKEN_COMMENT_BEGIN': 'comment_begin', 'TOKEN_BLOCK_BEGIN': 'block_begin',
                            'TOKEN_VARIABLE_BEGIN': 'variable_begin'}.get(nm.id)
                if not isinstance(name, str):
                    raise Unsupported('compile_rules: rule name')
                rules.append((len(DEFAULTS[a.attr]), name, _eval_arg(ex, {})))
    ret = fn.body[-1]
    ok = (isinstance(ret, ast.Return) and isinstance(ret.value, ast.ListComp)
          and ast.unparse(ret.value).replace(' ', '') == '[x[1:]forxinsorted(rules,reverse=True)]')
    if rules is None or not ok:
        raise Unsupported('compile_rules: unexpected shape')
    return [x[1:] for x in sorted(rules, reverse=True)]


def bundled_root_pattern_from_ast(mod: ast.Module) -> str:
    init = find_function(mod, 'Lexer', '__init__')
    rules_dict = None
    for st in ast.walk(init):
        if (isinstance(st, ast.Assign) and len(st.targets) == 1 and isinstance(st.targets[0], ast.Attribute)
                and st.targets[0].attr == 'rules' and isinstance(st.value, ast.Dict)):
            rules_dict = st.value
    if rules_dict is None:
        raise Unsupported('Lexer.__init__: self.rules = {...} not found')
    root = None
    for k, v in zip(rules_dict.keys, rules_dict.values):
        if isinstance(k, ast.Constant) and k.value == 'root':
            root = v
    if not (isinstance(root, ast.List) and len(root.elts) == 2):
        raise Unsupported("rules['root'] is not a two-element list")
    first, second = root.elts
    # second rule: (c('.+'), TOKEN_DATA, None)
    if not (isinstance(second, ast.Tuple) and isinstance(second.elts[0], ast.Call) and _const_str(second.elts[0].args[0]) == '.+'
            and isinstance(second.elts[1], ast.Name) and second.elts[1].id == 'TOKEN_DATA'
            and isinstance(second.elts[2], ast.Constant) and second.elts[2].value is None):
        raise Unsupported("rules['root'][1] is not the plain data rule (c('.+'), TOKEN_DATA, None)")
    if not (isinstance(first, ast.Tuple) and len(first.elts) == 3):
        raise Unsupported("rules['root'][0] is not a 3-tuple")
    pat, toks, new_state = first.elts
    if not (isinstance(toks, ast.Tuple) and len(toks.elts) == 2 and isinstance(toks.elts[0], ast.Name) and toks.elts[0].id == 'TOKEN_DATA'
            and _const_str(toks.elts[1]) == '#bygroup' and _const_str(new_state) == '#bygroup'):
        raise Unsupported("rules['root'][0]: tokens/new-state are not (TOKEN_DATA, '#bygroup'), '#bygroup'")
    if not (isinstance(pat, ast.Call) and isinstance(pat.func, ast.Name) and pat.func.id == 'c' and len(pat.args) == 1):
        raise Unsupported('root pattern is not c(...)')
    body = pat.args[0]
    if not (isinstance(body, ast.BinOp) and isinstance(body.op, ast.Mod)):
        raise Unsupported('root pattern is not a %-format')
    outer = _const_str(body.left)
    j = body.right
    if not (isinstance(j, ast.Call) and isinstance(j.func, ast.Attribute) and j.func.attr == 'join' and _const_str(j.func.value) == '|'
            and len(j.args) == 1 and isinstance(j.args[0], ast.BinOp) and isinstance(j.args[0].op, ast.Add)):
        raise Unsupported("root pattern: expected '|'.join([raw] + [tag rules])")
    left, right = j.args[0].left, j.args[0].right
    if not (isinstance(left, ast.List) and len(left.elts) == 1 and isinstance(right, ast.ListComp) and len(right.generators) == 1):
        raise Unsupported('root pattern: unexpected list shapes')
    escaped_block = re.escape(DEFAULTS['block_start_string'])
    # lstrip_blocks is off in the default environment: block_prefix_re = '%s' % e(block_start_string), prefix_re = {}
    alts = [_fmt(left.elts[0], {'block_prefix_re': escaped_block})]
    g = right.generators[0]
    if not (isinstance(g.target, ast.Tuple) and [getattr(x, 'id', None) for x in g.target.elts] == ['n', 'r']
            and isinstance(g.iter, ast.Name) and g.iter.id == 'root_tag_rules' and not g.ifs):
        raise Unsupported('root pattern: comprehension is not `for n, r in root_tag_rules`')
    for n, r in _compile_rules_order(mod):
        alts.append(_fmt_elt(right.elt, {'n': n, 'r': r}))
    return outer % '|'.join(alts)


# ---------------------------------------------------------------------------------------------
# structural decomposition  (.*?)(?:(?P<n>B)|...)   ->  [(name, B)]
# ---------------------------------------------------------------------------------------------

def decompose_root(pattern: str) -> typing.List[typing.Tuple[str, str]]:
    head, tail = '(.*?)(?:', ')'
    if not (pattern.startswith(head) and pattern.endswith(tail)):
        raise Unsupported('root pattern does not have the form (.*?)(?:...)')
    inner = pattern[len(head):-len(tail)]
    parts, depth, cur, i, in_cls = [], 0, '', 0, False
    while i < len(inner):
        ch = inner[i]
        if ch == '\\':
            cur += inner[i:i + 2]
            i += 2
            continue
        if in_cls:
            if ch == ']':
                in_cls = False
        elif ch == '[':
            in_cls = True
        elif ch == '(':
            depth += 1
        elif ch == ')':
            depth -= 1
            if depth < 0:
                raise Unsupported('unbalanced root pattern')
        elif ch == '|' and depth == 0:
            parts.append(cur)
            cur = ''
            i += 1
            continue
        cur += ch
        i += 1
    parts.append(cur)
    if depth != 0 or in_cls:
        raise Unsupported('unbalanced root pattern')
    out = []
    for p in parts:
        m = re.fullmatch(r'\(\?P<([a-z_]+)>(.*)\)', p, flags=re.S)
        if not m:
            raise Unsupported('root alternative is not a named group: %r' % p)
        name, body = m.group(1), m.group(2)
        # the body must itself be balanced (the closing parenthesis we removed belongs to the named group)
        regex_tr.parse(body)
        out.append((name, body))
    return out


def lazy_end_def(coq_name: str, pattern: str) -> str:
    """(.*?)((?:END))  ->  Definition coq_name : re := <END>"""
    head, tail = '(.*?)(', ')'
    if not (pattern.startswith(head) and pattern.endswith(tail)):
        raise Unsupported('inner-state pattern does not have the form (.*?)(...): %r' % pattern)
    body = pattern[len(head):-len(tail)]
    ast_ = regex_tr.parse(body)
    if regex_tr.has_anchor(ast_):
        raise regex_tr.Unsupported('anchor in inner-state pattern')
    return '(* %s *)\nDefinition %s : re :=\n  %s.\n' % (body.replace('*)', '* )').replace('(*', '( *'), coq_name, regex_tr.to_coq(ast_))


def rules_def(coq_name: str, rules: typing.List[typing.Tuple[str, str]]) -> str:
    items = []
    for name, body in rules:
        ast_ = regex_tr.parse(body)
        if regex_tr.has_anchor(ast_):
            raise regex_tr.Unsupported('anchor in root alternative %s (lstrip_blocks variant not modelled)' % name)
        items.append('  (* %s : %s *)\n  (%s,\n   %s)' % (name, body.replace('*)', '* )').replace('(*', '( *'), _coq_str(name), regex_tr.to_coq(ast_)))
    return 'Definition %s : list (str * re) :=\n [\n%s\n ].\n' % (coq_name, ';\n'.join(items))


LIVE_SNIPPET = r'''
import json, sys
out = {}
try:
    from nunavut.jinja.jinja2 import Environment as BE
    from nunavut.jinja.jinja2.lexer import Lexer as BL
    be = BE()
    r = BL(be).rules['root']
    out['bundled'] = r[0][0].pattern
    out['bundled_flags'] = r[0][0].flags
    allr = BL(be).rules
    out['bundled_comment'] = allr['comment_begin'][0][0].pattern
    out['bundled_raw'] = allr['raw_begin'][0][0].pattern
    allt = BL(BE(trim_blocks=True)).rules
    out['bundled_comment_trim'] = allt['comment_begin'][0][0].pattern
    out['bundled_raw_trim'] = allt['raw_begin'][0][0].pattern
    out['bundled_comment_shape'] = [list(allr['comment_begin'][0][1]), allr['comment_begin'][0][2], len(allr['comment_begin'])]
    out['bundled_raw_shape'] = [list(allr['raw_begin'][0][1]), allr['raw_begin'][0][2], len(allr['raw_begin'])]
    out['bundled_defaults'] = [be.block_start_string, be.block_end_string, be.variable_start_string, be.variable_end_string,
                               be.comment_start_string, be.comment_end_string, be.line_statement_prefix, be.line_comment_prefix,
                               be.trim_blocks, be.lstrip_blocks]
except Exception as ex:
    out['bundled_error'] = repr(ex)
try:
    import jinja2
    from jinja2.lexer import Lexer as SL
    r = SL(jinja2.Environment()).rules['root']
    out['stock'] = r[0].pattern.pattern
    out['stock_version'] = jinja2.__version__
    out['stock_file'] = jinja2.__file__
except Exception as ex:
    out['stock_error'] = repr(ex)
json.dump(out, sys.stdout)
'''


def live_patterns() -> dict:
    env = dict(os.environ)
    env['PYTHONPATH'] = os.path.join(gen.REPO, 'src')
    env['PYTHONDONTWRITEBYTECODE'] = '1'
    p = subprocess.run(['/venv/bin/python', '-c', LIVE_SNIPPET], env=env, stdout=subprocess.PIPE, stderr=subprocess.PIPE, timeout=120, text=True)
    try:
        return json.loads(p.stdout)
    except Exception:
        raise Unsupported('could not obtain the live lexer patterns: %s' % (p.stderr[-300:],))


# ---------------------------------------------------------------------------------------------
# do_lineprefix: shape-checking mini translator (str -> str; the Markup branch only re-wraps the constants)
# ---------------------------------------------------------------------------------------------

def _tr_expr(e: ast.AST, strs: typing.Set[str], lists: typing.Set[str]) -> typing.Tuple[str, str]:
    """returns (gallina, type) with type in {'str', 'list'}"""
    if isinstance(e, ast.Constant) and isinstance(e.value, str):
        return _coq_str(e.value), 'str'
    if isinstance(e, ast.Name):
        if e.id in strs:
            return e.id, 'str'
        if e.id in lists:
            return e.id, 'list'
        raise Unsupported('do_lineprefix: unknown name %s' % e.id)
    if isinstance(e, ast.BinOp) and isinstance(e.op, ast.Add):
        a, ta = _tr_expr(e.left, strs, lists)
        b, tb = _tr_expr(e.right, strs, lists)
        if ta == tb == 'str':
            return '(%s ++ %s)' % (a, b), 'str'
        raise Unsupported('do_lineprefix: + on non-strings')
    if isinstance(e, ast.IfExp):
        t = e.test
        if isinstance(t, ast.Name) and t.id in strs:
            test = 'py_truthy %s' % t.id
        elif (isinstance(t, ast.Subscript) and isinstance(t.slice, ast.Constant) and t.slice.value == 0 and isinstance(t.value, ast.Call)
              and isinstance(t.value.func, ast.Attribute) and t.value.func.attr == 'splitlines' and not t.value.args and not t.value.keywords
              and isinstance(t.value.func.value, ast.Name) and t.value.func.value.id in strs):
            test = 'py_truthy (py_line_content %s)' % t.value.func.value.id     # <line>.splitlines()[0]: the line without its terminator
        else:
            raise Unsupported('do_lineprefix: conditional test is neither a string variable nor <line>.splitlines()[0]')
        a, ta = _tr_expr(e.body, strs, lists)
        b, tb = _tr_expr(e.orelse, strs, lists)
        if ta == tb == 'str':
            return '(if %s then %s else %s)' % (test, a, b), 'str'
        raise Unsupported('do_lineprefix: conditional branches')
    if (isinstance(e, ast.Call) and isinstance(e.func, ast.Name) and e.func.id in ('soft_unicode', 'soft_str', 'str', 'text_type')
            and len(e.args) == 1 and not e.keywords):
        v, tv = _tr_expr(e.args[0], strs, lists)     # conversion to text: the identity on the str inputs the model is about
        if tv == 'str':
            return v, 'str'
    if isinstance(e, ast.Call) and isinstance(e.func, ast.Attribute) and not e.keywords:
        recv, tr = _tr_expr(e.func.value, strs, lists)
        if e.func.attr == 'splitlines' and not e.args and tr == 'str':
            return '(py_splitlines %s)' % recv, 'list'
        if (e.func.attr == 'splitlines' and len(e.args) == 1 and isinstance(e.args[0], ast.Constant) and e.args[0].value is True and tr == 'str'):
            return '(py_splitlines_keep %s)' % recv, 'list'
        if e.func.attr == 'join' and len(e.args) == 1 and tr == 'str':
            a = e.args[0]
            if isinstance(a, (ast.GeneratorExp, ast.ListComp)) and len(a.generators) == 1 and not a.generators[0].ifs \
                    and isinstance(a.generators[0].target, ast.Name):
                it, ti = _tr_expr(a.generators[0].iter, strs, lists)
                if ti != 'list':
                    raise Unsupported('do_lineprefix: comprehension over a non-list')
                v = a.generators[0].target.id
                body, tb = _tr_expr(a.elt, strs | {v}, lists)
                if tb != 'str':
                    raise Unsupported('do_lineprefix: comprehension element')
                return '(py_join %s (map (fun %s : str => %s) %s))' % (recv, v, body, it), 'str'
            it, ti = _tr_expr(a, strs, lists)
            if ti == 'list':
                return '(py_join %s %s)' % (recv, it), 'str'
    raise Unsupported('do_lineprefix: unsupported expression %s' % ast.dump(e)[:100])


def translate_lineprefix(mod: ast.Module) -> str:
    fn = find_function(mod, None, 'do_lineprefix')
    if fn.decorator_list:
        raise Unsupported('do_lineprefix is decorated (environment/context filter): signature changed')
    params = [a.arg for a in fn.args.args]
    if params != ['s', 'prefix'] or fn.args.vararg or fn.args.kwarg or fn.args.kwonlyargs or fn.args.defaults:
        raise Unsupported('do_lineprefix: signature is not (s, prefix)')
    strs, lists = {'s', 'prefix'}, set()
    lets = []
    ret = None
    for st in fn.body:
        if isinstance(st, ast.Expr) and isinstance(st.value, ast.Constant) and isinstance(st.value.value, str):
            continue  # docstring
        if ret is not None:
            raise Unsupported('do_lineprefix: statement after return')
        if isinstance(st, ast.If):
            # only the Markup re-wrapping is accepted: if isinstance(s, Markup): x = Markup(x) ...
            t = st.test
            ok = (isinstance(t, ast.Call) and isinstance(t.func, ast.Name) and t.func.id == 'isinstance' and len(t.args) == 2
                  and isinstance(t.args[0], ast.Name) and t.args[0].id == 's' and isinstance(t.args[1], ast.Name) and t.args[1].id == 'Markup'
                  and not st.orelse)
            for b in st.body:
                ok = ok and (isinstance(b, ast.Assign) and len(b.targets) == 1 and isinstance(b.targets[0], ast.Name)
                             and isinstance(b.value, ast.Call) and isinstance(b.value.func, ast.Name) and b.value.func.id == 'Markup'
                             and len(b.value.args) == 1 and isinstance(b.value.args[0], ast.Name) and b.value.args[0].id == b.targets[0].id)
            if not ok:
                raise Unsupported('do_lineprefix: an `if` other than the Markup re-wrapping')
            continue
        if isinstance(st, ast.Assign) and len(st.targets) == 1 and isinstance(st.targets[0], ast.Name):
            v, tv = _tr_expr(st.value, strs, lists)
            name = st.targets[0].id
            if name in ('s', 'prefix'):
                raise Unsupported('do_lineprefix: parameter re-assigned')
            lets.append((name, v, tv))
            (strs if tv == 'str' else lists).add(name)
            (lists if tv == 'str' else strs).discard(name)
            continue
        if isinstance(st, ast.Return) and st.value is not None:
            v, tv = _tr_expr(st.value, strs, lists)
            if tv != 'str':
                raise Unsupported('do_lineprefix: returns a non-string')
            ret = v
            continue
        raise Unsupported('do_lineprefix: unsupported statement %s' % type(st).__name__)
    if ret is None:
        raise Unsupported('do_lineprefix: no return')
    body = ''.join('  let %s : %s := %s in\n' % (n, 'str' if t == 'str' else 'list str', v) for n, v, t in lets)
    text = ast.unparse(fn)
    keep = 'splitlines(True)' in text
    soft = any(isinstance(n, ast.Call) and isinstance(n.func, ast.Name) and n.func.id in ('soft_unicode', 'soft_str', 'str', 'text_type')
               and len(n.args) == 1 and isinstance(n.args[0], ast.Name) and n.args[0].id == 's' for n in ast.walk(fn))
    return ('Definition do_lineprefix (s prefix : str) : str :=\n%s  %s.\n'
            '(* true: the lines keep their terminators (splitlines(True); design_notes/C19_lineprefix_terminator_fix.patch) *)\n'
            'Definition lineprefix_keepends : bool := %s.\n'
            '(* true: the value is converted to text first (fix 6038635), so any printed value can be auto-indented *)\n'
            'Definition lineprefix_soft_unicode : bool := %s.\n' % (body, ret, 'true' if keep else 'false', 'true' if soft else 'false'))


# ---------------------------------------------------------------------------------------------
# Parser.subparse / autoindent
# ---------------------------------------------------------------------------------------------

MARKER_START_SRC = """def marker_start(token, starts):
    for start in sorted((s for s in starts if s), key=len, reverse=True):
        if token.value and token.value.endswith(start + '*'):
            return start
    return None"""


def translate_autoindent(mod: ast.Module) -> str:
    """two accepted shapes of the marker code in Parser.subparse:
       legacy           : token.value.endswith('*') / prefix = token.value[:-3]
       delimiter-aware  : start = marker_start(token, (<env start strings>)) / prefix = token.value[:-(len(start) + 1)]
                          (design_notes/C19_marker_delimiter_fix.patch)"""
    sub = find_function(mod, 'Parser', 'subparse')
    inner = {st.name: st for st in sub.body if isinstance(st, ast.FunctionDef)}
    auto = inner.get('autoindent')
    if auto is None:
        raise Unsupported('Parser.subparse: inner function autoindent not found')
    aware = 'marker_start' in inner
    if sorted(inner) != sorted(['flush_data', 'autoindent'] + (['marker_start'] if aware else [])):
        raise Unsupported('Parser.subparse: unexpected inner functions %r' % sorted(inner))
    if [a.arg for a in auto.args.args] != (['rv', 'token', 'start'] if aware else ['rv', 'token']):
        raise Unsupported('autoindent: signature')
    src = [ast.unparse(s) for s in auto.body]
    if aware:
        if src[0] != 'prefix = token.value[:-(len(start) + 1)]':
            raise Unsupported('autoindent: first statement is not prefix = token.value[:-(len(start) + 1)]')
        if ast.unparse(inner['marker_start']) != MARKER_START_SRC:
            raise Unsupported('marker_start: body changed')
        drop = 0
    else:
        m = re.fullmatch(r'prefix = token\.value\[:-(\d+)\]', src[0])
        if not m:
            raise Unsupported('autoindent: first statement is not prefix = token.value[:-N]')
        drop = int(m.group(1))
    if len(auto.body) != 3 or not isinstance(auto.body[1], ast.If) or src[2] != 'return node':
        raise Unsupported('autoindent: unexpected body shape')
    iff = auto.body[1]
    if ast.unparse(iff.test) != 'isinstance(rv, list)':
        raise Unsupported('autoindent: test is not isinstance(rv, list)')
    then = [ast.unparse(s) for s in iff.body]
    els = [ast.unparse(s) for s in iff.orelse]
    fm = re.fullmatch(r"node\.filter = nodes\.Filter\(None, '(\w+)', \[nodes\.Const\(prefix\)\], \[\], None, None, lineno=token\.lineno\)", then[1]) if len(then) == 3 else None
    em = re.fullmatch(r"node = nodes\.Filter\(rv, '(\w+)', \[nodes\.Const\(prefix\)\], \[\], None, None, lineno=token\.lineno\)", els[0]) if len(els) == 1 else None
    if not (fm and em and then[0] == 'node = nodes.FilterBlock(lineno=token.lineno)' and then[2] == 'node.body = rv'):
        raise Unsupported('autoindent: node construction changed')
    if fm.group(1) != em.group(1):
        raise Unsupported('autoindent: two different filters')
    # the two call sites inside the token loop
    sites = []
    want_test = 'start is not None' if aware else "token.value and token.value.endswith('*')"
    for n in ast.walk(sub):
        if isinstance(n, ast.If) and ast.unparse(n.test) == want_test:
            sites.append(ast.unparse(n.body[0]) if len(n.body) == 1 else '?')
    n_sites = ast.unparse(sub).count('autoindent(')
    extra = ', start' if aware else ''
    if not (sorted(sites) == sorted(['rv = autoindent(rv, token%s)' % extra, 'body.append(autoindent(rv if isinstance(rv, list) else [rv], token%s))' % extra])
            and n_sites == 3):
        raise Unsupported('subparse: autoindent call sites changed (%d occurrences, guarded: %r)' % (n_sites, sites))
    if aware:
        starts = sorted(ast.unparse(n) for n in ast.walk(sub) if isinstance(n, ast.Assign) and ast.unparse(n.targets[0]) == 'start')
        if starts != ['start = marker_start(token, (self.environment.block_start_string, self.environment.line_statement_prefix))',
                      'start = marker_start(token, (self.environment.variable_start_string,))']:
            raise Unsupported('subparse: marker_start call sites changed: %r' % (starts,))
    return ('Definition autoindent_drop : nat := %d.\n'
            'Definition autoindent_filter_name : str := %s.\n'
            'Definition autoindent_marker_char : N := %d%%N.\n'
            '(* true: the marker test and the prefix are computed from the environment start strings (delimiter-aware patch) *)\n'
            'Definition autoindent_delimiter_aware : bool := %s.\n'
            "(* true: a print statement whose marker is directly followed by the operator '-' is a syntax error (C19_marker_minus_fix.patch) *)\n"
            'Definition autoindent_minus_guard : bool := %s.\n'
            % (drop, _coq_str(fm.group(1)), ord('*'), 'true' if aware else 'false', 'true' if _minus_guard(sub) else 'false'))


MINUS_GUARD_TEST = "self.stream.current.type == 'sub' and marker_start(token, (self.environment.variable_start_string,)) is not None"


def _minus_guard(sub: ast.FunctionDef) -> bool:
    """the optional guard in the variable_begin branch; any other statement mentioning marker_start is rejected elsewhere"""
    guards = [n for n in ast.walk(sub) if isinstance(n, ast.If) and ast.unparse(n.test) == MINUS_GUARD_TEST]
    if not guards:
        return False
    g = guards[0]
    ok = (len(guards) == 1 and not g.orelse and len(g.body) == 1 and isinstance(g.body[0], ast.Expr) and isinstance(g.body[0].value, ast.Call)
          and ast.unparse(g.body[0].value.func) == 'self.fail' and len(g.body[0].value.args) == 2 and ast.unparse(g.body[0].value.args[1]) == 'token.lineno')
    if not ok:
        raise Unsupported('subparse: the minus guard changed shape')
    return True


# ---------------------------------------------------------------------------------------------
# extensions: skeleton facts
# ---------------------------------------------------------------------------------------------

def translate_extensions(mod: ast.Module) -> str:
    out = []
    # JinjaAssert.parse returns CallBlock(call_method('_do_assert', args), [], [], '') and _do_assert is
    #   if not expression: raise TemplateAssertionError(...) ; return caller()
    p = find_function(mod, 'JinjaAssert', 'parse')
    ret = p.body[-1]
    want = "return nodes.CallBlock(self.call_method('_do_assert', args), [], [], '').set_lineno(token.lineno)"
    if ast.unparse(ret) != want:
        raise Unsupported('JinjaAssert.parse: return shape changed')
    d = find_function(mod, 'JinjaAssert', '_do_assert')
    body = [s for s in d.body if not (isinstance(s, ast.Expr) and isinstance(s.value, ast.Constant))]
    if not (len(body) == 2 and isinstance(body[0], ast.If) and ast.unparse(body[0].test) == 'not expression' and not body[0].orelse
            and len(body[0].body) == 1 and isinstance(body[0].body[0], ast.Raise)
            and ast.unparse(body[0].body[0]).startswith('raise TemplateAssertionError(message,')
            and ast.unparse(body[1]) == 'return caller()'):
        raise Unsupported('JinjaAssert._do_assert: body shape changed')
    args_ok = False
    for st in p.body:
        if isinstance(st, ast.Assign) and ast.unparse(st.targets[0]) == 'args' and isinstance(st.value, ast.List):
            args_ok = ast.unparse(st.value.elts[0]) == 'parser.parse_expression()'
    if not args_ok:
        raise Unsupported('JinjaAssert.parse: first argument is not the parsed expression')
    out.append('Definition assert_callblock_body_empty : bool := true.\n'
               'Definition assert_raises_when_falsy : bool := true.\n')
    # UseQuery: tags, test method per polarity, and the method bodies
    q = find_function(mod, 'UseQuery', '_use_query')
    nq = find_function(mod, 'UseQuery', '_use_nquery')

    def last_stmt(f):
        return ast.unparse([s for s in f.body if not (isinstance(s, ast.Expr) and isinstance(s.value, ast.Constant))][-1])
    if last_stmt(q) != 'return self._use_query_common(uses_query_name, lineno, name, filename)':
        raise Unsupported('UseQuery._use_query changed')
    if last_stmt(nq) != 'return not self._use_query_common(uses_query_name, lineno, name, filename)':
        raise Unsupported('UseQuery._use_nquery changed')
    pu = find_function(mod, 'UseQuery', 'parse')
    text = ast.unparse(pu)
    needed = [
        "if parser.stream.current.test('name:ifnuses'):\n        negate = True",
        "negate = False\n        ifname = 'name:ifuses'",
        "node = result = nodes.If(lineno=parser.stream.expect(ifname).lineno)",
        "test_name = '_use_query' if not negate else '_use_nquery'",
        "node.test = self.call_method(test_name, args)",
        "node.body = parser.parse_statements(('name:elifuses', 'name:elifnuses', 'name:else', 'name:endifuses', 'name:endifnuses'))",
        "if token.test('name:elifuses'):\n            negate = False\n            node = nodes.If(lineno=parser.stream.current.lineno)\n            result.elif_.append(node)\n            continue",
        "if token.test('name:elifnuses'):\n            negate = True\n            node = nodes.If(lineno=parser.stream.current.lineno)\n            result.elif_.append(node)\n            continue",
        "if token.test('name:else'):\n            result.else_ = parser.parse_statements(('name:endifuses', 'name:endifnuses'), drop_needle=True)\n        break",
        "return result",
    ]
    for n in needed:
        if n not in text:
            raise Unsupported('UseQuery.parse: expected fragment missing: %s' % n.splitlines()[0])
    out.append('Definition ifuses_test_negated_for_nuses : bool := true.\n'
               'Definition ifuses_elif_appended_to_result : bool := true.\n')
    return ''.join(out)


# ---------------------------------------------------------------------------------------------

def gen_jinjascan() -> typing.Tuple[bool, str]:
    head = (gen.HEADER % ('%s, %s, %s, %s and the stock Jinja2 installed in /venv' % (LEXER, PARSER, FILTERS, EXT))
            + 'From Verif Require Import Regex JinjaScanBase.\nOpen Scope N_scope.\n\n')
    try:
        lex = gen.parse_repo(LEXER)
        pat = bundled_root_pattern_from_ast(lex)
        live = live_patterns()
        if 'bundled' not in live:
            raise Unsupported('bundled lexer cannot be instantiated: %s' % live.get('bundled_error'))
        if live['bundled'] != pat:
            raise Unsupported('root pattern rebuilt from the ast differs from the live compiled rule:\n ast : %s\n live: %s' % (pat, live['bundled']))
        if live['bundled_defaults'] != ['{%', '%}', '{{', '}}', '{#', '#}', None, None, False, False]:
            raise Unsupported('bundled Environment() defaults changed: %r' % (live['bundled_defaults'],))
        if (live['bundled_flags'] & (re.M | re.S)) != (re.M | re.S) or (live['bundled_flags'] & (re.I | re.X)):
            raise Unsupported('root rule flags are not re.M | re.S')
        if live['bundled_comment_shape'] != [['comment', 'comment_end'], '#pop', 2] or live['bundled_raw_shape'] != [['data', 'raw_end'], '#pop', 2]:
            raise Unsupported('comment/raw state rules changed shape: %r %r' % (live['bundled_comment_shape'], live['bundled_raw_shape']))
        if 'stock' not in live:
            raise Unsupported('stock jinja2 cannot be imported: %s' % live.get('stock_error'))
        parts = ['(* bundled root pattern: %s *)\n' % pat.replace('*)', '* )').replace('(*', '( *'),
                 rules_def('bundled_root_rules', decompose_root(pat)),
                 '(* stock Jinja2 %s root pattern: %s *)\n' % (live['stock_version'], live['stock'].replace('*)', '* )').replace('(*', '( *')),
                 rules_def('stock31_root_rules', decompose_root(live['stock'])),
                 lazy_end_def('bundled_comment_end', live['bundled_comment']),
                 lazy_end_def('bundled_raw_end', live['bundled_raw']),
                 lazy_end_def('bundled_comment_end_trim', live['bundled_comment_trim']),
                 lazy_end_def('bundled_raw_end_trim', live['bundled_raw_trim']),
                 translate_lineprefix(gen.parse_repo(FILTERS)),
                 translate_autoindent(gen.parse_repo(PARSER)),
                 translate_extensions(gen.parse_repo(EXT))]
    except (Unsupported, regex_tr.Unsupported, SyntaxError, OSError, ValueError, TypeError, IndexError) as ex:
        gen.write_if_changed(OUT, head + '(* translator failed closed: %s *)\n' % str(ex).replace('*)', '* )').replace('(*', '( *'))
        return False, 'C19 translator failed closed: %s' % ex
    gen.write_if_changed(OUT, head + '\n'.join(parts))
    return True, 'ok'


GENERATORS = {'jinjascan': gen_jinjascan}


# =============================================================================================
# 'jinjarules' -> Generated/Gen_JinjaRules.v : EVERY rule of EVERY lexer state, for a list of Environment option
# combinations, of the bundled lexer and of the stock lexer (pattern text, token spec, state transition), plus the
# parts (escaped delimiters, flags, compile_rules order) from which Gen/JinjaRules.v rebuilds the expected tables.
# =============================================================================================
OUT_RULES = os.path.join(gen.GEN_DIR, 'Gen_JinjaRules.v')

ASP = dict(block_start_string='<%', block_end_string='%>', variable_start_string='${', variable_end_string='}',
           comment_start_string='<!--', comment_end_string='-->')
LS = dict(line_statement_prefix='%%', line_comment_prefix='##')
COMBOS = [
    dict(),
    dict(lstrip_blocks=True),
    dict(trim_blocks=True),
    dict(lstrip_blocks=True, trim_blocks=True),
    dict(LS),
    dict(LS, lstrip_blocks=True, trim_blocks=True),
    dict(ASP),
    dict(ASP, lstrip_blocks=True, trim_blocks=True),
    # a block delimiter ending in '*' and a variable delimiter that is not two characters long (marker code: D2 / D1)
    dict(block_start_string='<*', block_end_string='*>', variable_start_string='\\VAR{', variable_end_string='}'),
]

RULES_SNIPPET = r'''
import hashlib, json, re, sys
combos = json.loads(sys.argv[1])
def tok(t):
    if isinstance(t, str):
        return t
    if t.__class__.__name__ == 'Failure':
        return 'Failure:' + t.message
    return repr(t)
def table(lexer):
    out = []
    for state, rules in lexer.rules.items():
        rs = []
        for r in rules:
            pat = r[0].pattern
            if len(pat) > 600:      # the Unicode identifier class of name_re
                pat = 'sha256:' + hashlib.sha256(pat.encode('utf-8')).hexdigest()
            spec = r[1]
            if isinstance(spec, tuple):
                spec = type(spec).__name__ + '(' + ','.join(tok(x) for x in spec) + ')'
            else:
                spec = tok(spec)
            rs.append([pat, spec, 'None' if r[2] is None else str(r[2]), int(r[0].flags)])
        out.append([str(state), rs])
    return out
res = []
import nunavut.jinja.jinja2 as B
from nunavut.jinja.jinja2 import lexer as BLX
import jinja2 as S
from jinja2 import lexer as SLX
for kw in combos:
    be, se = B.Environment(**kw), S.Environment(**kw)
    e = re.escape
    parts = dict(bs=e(be.block_start_string), be=e(be.block_end_string), vs=e(be.variable_start_string), ve=e(be.variable_end_string),
                 cs=e(be.comment_start_string), ce=e(be.comment_end_string), lstrip=bool(be.lstrip_blocks), trim=bool(be.trim_blocks))
    res.append(dict(opts=kw, parts=parts,
                    order_b=[[str(n), r] for n, r in BLX.compile_rules(be)], order_s=[[str(n), r] for n, r in SLX.compile_rules(se)],
                    bundled=table(BLX.Lexer(be)), stock=table(SLX.Lexer(se)), stock_version=S.__version__))
json.dump(res, sys.stdout)
'''


def _coq_table(name: str, rows) -> str:
    out = ['Definition %s : list (list (str * list (str * str * str))) :=\n [' % name]
    combos = []
    for tab in rows:
        states = []
        for state, rules in tab:
            rs = ';\n      '.join('(%s, %s, %s)' % (_coq_str(p), _coq_str(t), _coq_str(n)) for p, t, n, _f in rules)
            states.append('   (%s,\n     [%s])' % (_coq_str(state), rs))
        combos.append('  [\n' + ';\n'.join(states) + '\n  ]')
    return out[0] + '\n' + ';\n'.join(combos) + '\n ].\n'


def gen_jinjarules() -> typing.Tuple[bool, str]:
    head = (gen.HEADER % ('the live rule tables of %s and of the stock Jinja2 installed in /venv' % LEXER)
            + 'From Verif Require Import JinjaRulesBase.\nOpen Scope N_scope.\n\n')
    try:
        env = dict(os.environ)
        env['PYTHONPATH'] = os.path.join(gen.REPO, 'src')
        env['PYTHONDONTWRITEBYTECODE'] = '1'
        p = subprocess.run(['/venv/bin/python', '-c', RULES_SNIPPET, json.dumps(COMBOS)], env=env, stdout=subprocess.PIPE, stderr=subprocess.PIPE,
                           timeout=120, text=True)
        try:
            res = json.loads(p.stdout)
        except Exception:
            raise Unsupported('could not obtain the live rule tables: %s' % p.stderr[-400:])
        parts = []
        combos = []
        for r in res:
            for tab in (r['bundled'], r['stock']):
                for _state, rules in tab:
                    for _p, _t, _n, flags in rules:
                        if (flags & (re.I | re.X)) and _t not in ('float', 'integer'):
                            raise Unsupported('unexpected regex flags %d on rule %r' % (flags, _p))
            pa = r['parts']

            def order(o):
                return '[%s]' % '; '.join('(%s, %s)' % (_coq_str(n), _coq_str(x)) for n, x in o)
            combos.append('  {| c_bs := %s; c_be := %s; c_vs := %s; c_ve := %s; c_cs := %s; c_ce := %s;\n     c_lstrip := %s; c_trim := %s;\n'
                          '     c_order_bundled := %s;\n     c_order_stock := %s |}'
                          % (_coq_str(pa['bs']), _coq_str(pa['be']), _coq_str(pa['vs']), _coq_str(pa['ve']), _coq_str(pa['cs']), _coq_str(pa['ce']),
                             'true' if pa['lstrip'] else 'false', 'true' if pa['trim'] else 'false', order(r['order_b']), order(r['order_s'])))
        parts.append('(* option combinations: %s *)\n' % json.dumps(COMBOS).replace('*)', '* )').replace('(*', '( *'))
        parts.append('Definition lexer_combos : list combo :=\n [\n%s\n ].\n' % ';\n'.join(combos))
        parts.append(_coq_table('bundled_lexer_tables', [r['bundled'] for r in res]))
        parts.append(_coq_table('stock_lexer_tables', [r['stock'] for r in res]))
    except (Unsupported, OSError, ValueError, KeyError, TypeError) as ex:
        gen.write_if_changed(OUT_RULES, head + '(* translator failed closed: %s *)\n' % str(ex).replace('*)', '* )').replace('(*', '( *'))
        return False, 'C19 rule-table translator failed closed: %s' % ex
    gen.write_if_changed(OUT_RULES, head + '\n'.join(parts))
    return True, 'ok'


GENERATORS['jinjarules'] = gen_jinjarules


# =============================================================================================
# 'jinjapins' -> Generated/Gen_JinjaPins.v : source-level tie of the MODIFIED python regions outside the lexer tables
#   * Parser.subparse with Nunavut's additions removed (inner `autoindent`, the two marker-guarded statements) must be the
#     stock Parser.subparse (both normalised: docstrings, annotations dropped, ast.unparse) -- texts exported, compared in Coq;
#   * every other Parser method: normalised text digest of the bundled and of the stock method (Gen/JinjaPins.v accepts
#     "equal to stock" or a reviewed upstream-version difference pinned by digest); rest of parser.py by digest;
#   * extensions.py: normalised text digest of every method of JinjaAssert / UseQuery, class member lists, every attribute
#     stored on `self`/`cls` or module-level mutable state (expected: none), and FILTERS['lineprefix'] registration.
# =============================================================================================
import hashlib  # noqa: E402

OUT_PINS = os.path.join(gen.GEN_DIR, 'Gen_JinjaPins.v')
STOCK_PARSER = '/venv/lib/python3.12/site-packages/jinja2/parser.py'
MARK_TEST = "token.value and token.value.endswith('*')"


class _Norm(ast.NodeTransformer):
    def visit_FunctionDef(self, n):
        self.generic_visit(n)
        n.returns = None
        for a in n.args.args + n.args.kwonlyargs + n.args.posonlyargs:
            a.annotation = None
        if n.args.vararg:
            n.args.vararg.annotation = None
        if n.args.kwarg:
            n.args.kwarg.annotation = None
        if n.body and isinstance(n.body[0], ast.Expr) and isinstance(n.body[0].value, ast.Constant) and isinstance(n.body[0].value.value, str):
            n.body = n.body[1:] or [ast.Pass()]
        return n

    def visit_ClassDef(self, n):
        self.generic_visit(n)
        if n.body and isinstance(n.body[0], ast.Expr) and isinstance(n.body[0].value, ast.Constant) and isinstance(n.body[0].value.value, str):
            n.body = n.body[1:] or [ast.Pass()]
        return n

    def visit_AnnAssign(self, n):
        self.generic_visit(n)
        if n.value is None:
            return None
        return ast.copy_location(ast.Assign(targets=[n.target], value=n.value), n)


class _MaskText(ast.NodeTransformer):
    """message texts (string constants containing white space) are not part of the pinned shape"""

    def visit_Constant(self, n):
        if isinstance(n.value, str) and any(ch.isspace() for ch in n.value):
            return ast.copy_location(ast.Constant(value='<text>'), n)
        return n


class _Demark(ast.NodeTransformer):
    """removes exactly Nunavut's additions from Parser.subparse"""

    def __init__(self):
        self.removed = []

    def _block(self, stmts):
        out = []
        for st in stmts:
            if isinstance(st, ast.FunctionDef) and st.name == 'autoindent':
                self.removed.append('def autoindent')
                continue
            if isinstance(st, ast.FunctionDef) and st.name == 'marker_start':
                self.removed.append('def marker_start')
                continue
            if isinstance(st, ast.Assign) and ast.unparse(st.targets[0]) == 'start' and ast.unparse(st.value).startswith('marker_start(token, '):
                self.removed.append('start = marker_start')
                continue
            if isinstance(st, ast.If) and ast.unparse(st.test) == MINUS_GUARD_TEST:
                self.removed.append('minus guard')
                continue
            if isinstance(st, ast.If) and ast.unparse(st.test) in (MARK_TEST, 'start is not None'):
                self.removed.append('if marker: ' + ast.unparse(st.body[0]).replace(', start)', ')'))
                if st.orelse:
                    out.extend(self._block(st.orelse))
                continue
            out.append(self.generic_visit(st))
        res, i = [], 0
        while i < len(out):
            a = out[i]
            if (i + 1 < len(out) and isinstance(a, ast.Assign) and ast.unparse(a.targets[0]) == 'rv' and ast.unparse(out[i + 1]) == 'add_data(rv)'):
                res.append(ast.parse('add_data(%s)' % ast.unparse(a.value)).body[0])
                i += 2
                continue
            res.append(a)
            i += 1
        return res

    def generic_visit(self, node):
        for f in ('body', 'orelse', 'finalbody'):
            v = getattr(node, f, None)
            if isinstance(v, list) and v and isinstance(v[0], ast.stmt):
                setattr(node, f, self._block(v))
        return node


def _sha(text: str) -> str:
    return hashlib.sha256(text.encode('utf-8')).hexdigest()


def _class(mod: ast.Module, name: str) -> ast.ClassDef:
    for n in mod.body:
        if isinstance(n, ast.ClassDef) and n.name == name:
            return n
    raise Unsupported('class %s not found' % name)


def _norm_text(node: ast.AST, mask: bool = True) -> str:
    import copy
    n = _Norm().visit(copy.deepcopy(node))
    if mask:
        n = _MaskText().visit(n)
    ast.fix_missing_locations(n)
    return ast.unparse(n)


def _method_digests(cls: ast.ClassDef) -> typing.List[typing.Tuple[str, str]]:
    return [(m.name, _sha(_norm_text(m))) for m in cls.body if isinstance(m, (ast.FunctionDef, ast.AsyncFunctionDef))]


def _rest_digest(mod: ast.Module, classes: typing.Set[str]) -> str:
    """everything of the module that is not a method of the given classes (imports excluded: they only name the package)"""
    import copy
    m = copy.deepcopy(mod)
    body = []
    for n in m.body:
        if isinstance(n, (ast.Import, ast.ImportFrom)):
            continue
        if isinstance(n, ast.ClassDef) and n.name in classes:
            n.body = [x for x in n.body if not isinstance(x, (ast.FunctionDef, ast.AsyncFunctionDef))] or [ast.Pass()]
        body.append(n)
    m.body = body
    return _sha(_norm_text(m))


def _pairs(name: str, items) -> str:
    return 'Definition %s : list (str * str) :=\n [%s].\n' % (name, ';\n  '.join('(%s, %s)' % (_coq_str(a), _coq_str(b)) for a, b in items))


def _strs(name: str, items) -> str:
    return 'Definition %s : list str := [%s].\n' % (name, '; '.join(_coq_str(a) for a in items))


def gen_jinjapins() -> typing.Tuple[bool, str]:
    head = (gen.HEADER % ('%s, %s, %s and %s' % (PARSER, EXT, FILTERS, STOCK_PARSER)) + 'From Verif Require Import Str.\nOpen Scope N_scope.\n\n')
    try:
        import copy
        bp = gen.parse_repo(PARSER)
        with open(STOCK_PARSER, encoding='utf-8') as f:
            sp = ast.parse(f.read())
        bcls, scls = _class(bp, 'Parser'), _class(sp, 'Parser')
        bsub = copy.deepcopy(find_function(bp, 'Parser', 'subparse'))
        bsub = _Norm().visit(bsub)
        dm = _Demark()
        bsub = _MaskText().visit(dm.generic_visit(bsub))
        ast.fix_missing_locations(bsub)
        legacy_set = ['def autoindent', 'if marker: rv = autoindent(rv, token)',
                      'if marker: body.append(autoindent(rv if isinstance(rv, list) else [rv], token))']
        aware_set = legacy_set + ['def marker_start', 'start = marker_start', 'start = marker_start']
        if sorted(dm.removed) not in (sorted(legacy_set), sorted(aware_set), sorted(aware_set + ['minus guard'])):
            raise Unsupported('Parser.subparse: the set of marker-specific statements changed: %r' % (dm.removed,))
        parts = [
            '(* Parser.subparse of the bundled parser with the three marker-specific pieces removed, and the stock method *)\n'
            'Definition subparse_bundled_demarked : str :=\n  %s.\n' % _coq_str(ast.unparse(bsub)),
            'Definition subparse_stock : str :=\n  %s.\n' % _coq_str(_norm_text(find_function(sp, 'Parser', 'subparse'))),
            _pairs('parser_methods_bundled', _method_digests(bcls)),
            _pairs('parser_methods_stock', _method_digests(scls)),
            'Definition parser_rest_bundled : str := %s.\n' % _coq_str(_rest_digest(bp, {'Parser'})),
        ]
        ex = gen.parse_repo(EXT)
        meths, members = [], []
        for cname in ('JinjaAssert', 'UseQuery'):
            c = _class(ex, cname)
            if c.decorator_list or c.keywords or [ast.unparse(b) for b in c.bases] != ['Extension']:
                raise Unsupported('%s: bases/decorators changed' % cname)
            for m in c.body:
                if isinstance(m, (ast.FunctionDef, ast.AsyncFunctionDef)):
                    if m.decorator_list:
                        raise Unsupported('%s.%s is decorated' % (cname, m.name))
                    meths.append(('%s.%s' % (cname, m.name), _sha(_norm_text(m))))
            members.append((cname, ','.join(ast.unparse(t) if not isinstance(t, (ast.FunctionDef, ast.AsyncFunctionDef)) else 'def ' + t.name
                                            for t in _Norm().visit(copy.deepcopy(c)).body)))
        stores = sorted({ast.unparse(n) for n in ast.walk(ex)
                         if isinstance(n, ast.Attribute) and isinstance(n.ctx, (ast.Store, ast.Del)) and isinstance(n.value, ast.Name)
                         and n.value.id in ('self', 'cls')}
                        | {'global ' + ','.join(n.names) for n in ast.walk(ex) if isinstance(n, (ast.Global, ast.Nonlocal))}
                        | {'call ' + ast.unparse(n.func) for n in ast.walk(ex)
                           if isinstance(n, ast.Call) and isinstance(n.func, ast.Name) and n.func.id in ('setattr', 'delattr', 'globals', 'vars')})
        toplevel = []
        for n in ex.body:
            if isinstance(n, (ast.Import, ast.ImportFrom)) or (isinstance(n, ast.Expr) and isinstance(n.value, ast.Constant)):
                continue
            toplevel.append('class ' + n.name if isinstance(n, ast.ClassDef) else ast.unparse(n)[:80])
        parts += [_pairs('ext_methods', meths), _pairs('ext_class_members', members), _strs('ext_state_stores', stores),
                  _strs('ext_toplevel', toplevel)]
        # FILTERS registration of lineprefix
        fl = gen.parse_repo(FILTERS)
        reg = None
        for n in fl.body:
            if isinstance(n, ast.Assign) and ast.unparse(n.targets[0]) == 'FILTERS' and isinstance(n.value, ast.Dict):
                for k, v in zip(n.value.keys, n.value.values):
                    if isinstance(k, ast.Constant) and k.value == 'lineprefix':
                        reg = ast.unparse(v)
        if reg != 'do_lineprefix':
            raise Unsupported("FILTERS['lineprefix'] is %r" % reg)
    except (Unsupported, OSError, SyntaxError, ValueError, TypeError, IndexError, AttributeError) as ex_:
        gen.write_if_changed(OUT_PINS, head + '(* translator failed closed: %s *)\n' % str(ex_).replace('*)', '* )').replace('(*', '( *'))
        return False, 'C19 pin translator failed closed: %s' % ex_
    gen.write_if_changed(OUT_PINS, head + '\n'.join(parts))
    return True, 'ok'


GENERATORS['jinjapins'] = gen_jinjapins


# =============================================================================================
# 'jinjavendor' -> Generated/Gen_JinjaVendor.v : EVERY function of EVERY module of the vendored copy
#   (src/nunavut/jinja/jinja2/*.py): shape digest (tools/translators/shape_pin.py normalisation: docstrings, comments,
#   annotations dropped, locals alpha-renamed; plus the package rename nunavut.jinja.jinja2 -> jinja2 undone) per function /
#   method, one digest per module for the code outside functions, the same digests of the stock Jinja2 in /venv as a structural
#   reference (VERSION CAVEAT: 3.1.x, not the 2.11 commit recorded in /repo/subtree.json, which is not available offline),
#   and the list of DOCUMENTED delta sites derived from the tree's own evidence: marker comments / docstrings / identifiers
#   (auto-indent, autoindent, lineprefix), the package rename performed by /repo/embed_jinja.py, and the functions touched by
#   the commits of /repo's git log of that directory after the initial snapshot.
# =============================================================================================
import io  # noqa: E402
import tokenize  # noqa: E402

from . import shape_pin  # noqa: E402

OUT_VENDOR = os.path.join(gen.GEN_DIR, 'Gen_JinjaVendor.v')
VENDOR_DIR = 'src/nunavut/jinja/jinja2'
STOCK_DIR = '/venv/lib/python3.12/site-packages/jinja2'
MARK_RE = re.compile(r'auto-?indent|lineprefix', re.I)


class _Unrename(ast.NodeTransformer):
    def visit_Constant(self, n):
        if isinstance(n.value, str) and 'nunavut.jinja.' in n.value:
            return ast.copy_location(ast.Constant(value=n.value.replace('nunavut.jinja.jinja2', '<vendored>').replace('nunavut.jinja.markupsafe', '<vendored-markupsafe>')), n)
        return n

    def visit_ImportFrom(self, n):
        # the vendored package imports ITSELF by absolute name: nunavut.jinja.jinja2.X is mapped to the marker <vendored>.X.
        # An import of the real top-level `jinja2` / `markupsafe` (stock code!) keeps its name, so it can never hash like the
        # vendored import it replaced.
        if n.module and (n.module == 'nunavut.jinja.jinja2' or n.module.startswith('nunavut.jinja.jinja2.')):
            n.module = '<vendored>' + n.module[len('nunavut.jinja.jinja2'):]
        elif n.module and (n.module == 'nunavut.jinja.markupsafe' or n.module.startswith('nunavut.jinja.markupsafe.')):
            n.module = '<vendored-markupsafe>' + n.module[len('nunavut.jinja.markupsafe'):]
        return n

    def visit_Import(self, n):
        return n


class _StockSelf(ast.NodeTransformer):
    """stock side of the structural reference: its own package (relative imports, `jinja2.`, `markupsafe.`) -> the same markers"""

    def visit_ImportFrom(self, n):
        if n.level and n.level > 0:
            n.module = '<vendored>' + ('.' + n.module if n.module else '')
            n.level = 0
        elif n.module and (n.module == 'jinja2' or n.module.startswith('jinja2.')):
            n.module = '<vendored>' + n.module[len('jinja2'):]
        elif n.module and (n.module == 'markupsafe' or n.module.startswith('markupsafe.')):
            n.module = '<vendored-markupsafe>' + n.module[len('markupsafe'):]
        return n

    def visit_Constant(self, n):
        return n


_REFERENCE_SIDE = [False]


def _fn_digest(fn: ast.AST) -> str:
    import copy
    f = copy.deepcopy(fn)
    f.returns = None
    f = (_StockSelf() if _REFERENCE_SIDE[0] else _Unrename()).visit(f)
    f = shape_pin._Norm(f).visit(f)
    for node in ast.walk(f):
        if hasattr(node, 'type_comment'):
            node.type_comment = None
    f.name = 'f'
    return _sha(ast.dump(f, annotate_fields=True, include_attributes=False))


def _functions(mod: ast.Module) -> typing.List[typing.Tuple[str, ast.AST]]:
    out = []

    def walk(body, prefix):
        for n in body:
            if isinstance(n, (ast.FunctionDef, ast.AsyncFunctionDef)):
                out.append((prefix + n.name, n))
            elif isinstance(n, ast.ClassDef):
                walk(n.body, prefix + n.name + '.')
            elif isinstance(n, (ast.If, ast.Try)):     # conditionally defined functions (compat shims)
                for blk in [n.body, getattr(n, 'orelse', []), getattr(n, 'finalbody', [])] + [h.body for h in getattr(n, 'handlers', [])]:
                    walk(blk, prefix)
    walk(mod.body, '')
    return out


def _module_rest_digest(mod: ast.Module) -> str:
    """the module with every function body replaced by `pass` (class attributes, module-level statements, signatures stay)"""
    import copy
    m = (_StockSelf() if _REFERENCE_SIDE[0] else _Unrename()).visit(copy.deepcopy(mod))

    class Strip(ast.NodeTransformer):
        def visit_FunctionDef(self, n):
            n.body = [ast.Pass()]
            n.returns = None
            for a in n.args.args + n.args.kwonlyargs + n.args.posonlyargs:
                a.annotation = None
            return n
        visit_AsyncFunctionDef = visit_FunctionDef

        def visit_Expr(self, n):
            return None if isinstance(n.value, ast.Constant) and isinstance(n.value.value, str) else n
    m = Strip().visit(m)
    for n in ast.walk(m):
        for f in ('body', 'orelse', 'finalbody'):
            if isinstance(getattr(n, f, None), list) and f == 'body' and not n.body and not isinstance(n, ast.Module):
                n.body = [ast.Pass()]
    ast.fix_missing_locations(m)
    return _sha(ast.dump(m, include_attributes=False))


def _dedup(items):
    seen, out = {}, []
    for k, v in items:
        seen[k] = seen.get(k, 0) + 1
        out.append((k if seen[k] == 1 else '%s#%d' % (k, seen[k]), v))
    return out


def _module_table(path: str, modname: str):
    with open(path, encoding='utf-8') as f:
        src = f.read()
    mod = ast.parse(src)
    fns = _dedup(_functions(mod))
    return src, mod, fns, [('%s:%s' % (modname, q), _fn_digest(n)) for q, n in fns] + [('%s:<module>' % modname, _module_rest_digest(mod))]


def _enclosing(fns, lineno: int) -> str:
    best = '<module>'
    for q, n in fns:
        if n.lineno <= lineno <= (n.end_lineno or n.lineno):
            best = q
    return best


def _documented_sites(repo: str) -> typing.List[typing.Tuple[str, str]]:
    """(module:qualname, evidence) for every function that the tree itself documents as modified"""
    sites: typing.Dict[str, typing.Set[str]] = {}

    def add(key, why):
        sites.setdefault(key, set()).add(why)
    vdir = os.path.join(repo, VENDOR_DIR)
    for name in sorted(_walk_package(vdir)):
        src, mod, fns, _ = _module_table(os.path.join(vdir, name), name[:-3])
        for tok in tokenize.generate_tokens(io.StringIO(src).readline):
            if tok.type == tokenize.COMMENT and MARK_RE.search(tok.string):
                add('%s:%s' % (name[:-3], _enclosing(fns, tok.start[0])), 'marker comment')
        for q, n in fns:
            doc = n.body[0].value if (n.body and isinstance(n.body[0], ast.Expr) and isinstance(n.body[0].value, ast.Constant)) else None
            for x in ast.walk(n):
                if x is doc and not MARK_RE.search(str(x.value)):
                    continue          # docstrings are not part of the digest; only a marker inside one counts as evidence
                if isinstance(x, ast.Constant) and isinstance(x.value, str) and MARK_RE.search(x.value):
                    add('%s:%s' % (name[:-3], q), 'marker string/docstring')
                if isinstance(x, ast.Constant) and isinstance(x.value, str) and 'nunavut.jinja.' in x.value and not x.value.lstrip().startswith('>>>') \
                        and '>>> from nunavut' not in x.value:
                    add('%s:%s' % (name[:-3], q), 'package rename in a string')
                if isinstance(x, (ast.Name, ast.FunctionDef)) and MARK_RE.search(getattr(x, 'id', getattr(x, 'name', ''))):
                    add('%s:%s' % (name[:-3], q), 'marker identifier')
        for x in mod.body:
            if isinstance(x, ast.Assign):
                for c in ast.walk(x):
                    if isinstance(c, ast.Constant) and isinstance(c.value, str) and MARK_RE.search(c.value):
                        add('%s:<module>' % name[:-3], 'marker string at module level')
    # git log of the directory: every commit after the initial snapshot documents itself
    try:
        log = subprocess.run(['git', '-C', repo, 'log', '--format=%H', '--', VENDOR_DIR], stdout=subprocess.PIPE, stderr=subprocess.DEVNULL, text=True, timeout=60).stdout.split()
    except Exception:
        log = []
    for commit in log[:-1]:
        d = subprocess.run(['git', '-C', repo, 'diff', '-U0', commit + '^', commit, '--', VENDOR_DIR], stdout=subprocess.PIPE, stderr=subprocess.DEVNULL, text=True, timeout=60).stdout
        cur = None
        for line in d.splitlines():
            if line.startswith('+++ b/'):
                cur = line[6:]
            m = re.match(r'@@ -\d+(?:,\d+)? \+(\d+)(?:,(\d+))? @@', line)
            if m and cur and cur.endswith('.py'):
                blob = subprocess.run(['git', '-C', repo, 'show', '%s:%s' % (commit, cur)], stdout=subprocess.PIPE, stderr=subprocess.DEVNULL, text=True, timeout=60).stdout
                fns = _dedup(_functions(ast.parse(blob)))
                start, cnt = int(m.group(1)), int(m.group(2) or 1)
                for ln in range(start, start + max(cnt, 1)):
                    add('%s:%s' % (os.path.basename(cur)[:-3], _enclosing(fns, ln)), 'git ' + commit[:7])
    return sorted((k, ', '.join(sorted(v))) for k, v in sites.items())


VENDOR_PACKAGES = [('src/nunavut/jinja/jinja2', '', STOCK_DIR), ('src/nunavut/jinja/markupsafe', 'markupsafe/', '/venv/lib/python3.12/site-packages/markupsafe')]
ALLOWED_NON_PY = {'_speedups.c', '__pycache__', 'py.typed', '_speedups.pyi'}


def _walk_package(root: str):
    """every *.py below root (recursively); fails on anything that could shadow a module or carry code we do not hash"""
    found = []
    for dirpath, dirnames, filenames in os.walk(root):
        dirnames[:] = sorted(d for d in dirnames if d != '__pycache__')
        rel = os.path.relpath(dirpath, root)
        for d in dirnames:
            if os.path.exists(os.path.join(dirpath, d + '.py')):
                raise Unsupported('vendored copy: package directory %s shadows module %s.py' % (os.path.join(rel, d), d))
        for f in sorted(filenames):
            if f.endswith('.py'):
                found.append(os.path.normpath(os.path.join(rel, f)))
            elif f.endswith(('.pyc', '.pyo')) or f in ALLOWED_NON_PY:
                continue
            elif f.endswith(('.so', '.pyd', '.pth', '.pyx')):
                raise Unsupported('vendored copy: unhashed code file %s' % os.path.join(rel, f))
    return found


def vendor_tables(repo: str):
    bund, stock = [], {}
    for rel_root, prefix, stock_root in VENDOR_PACKAGES:
        vdir = os.path.join(repo, rel_root)
        for relpy in _walk_package(vdir):
            modname = prefix + relpy[:-3].replace(os.sep, '.')
            _REFERENCE_SIDE[0] = False
            bund += _module_table(os.path.join(vdir, relpy), modname)[3]
            sp = os.path.join(stock_root, relpy)
            if os.path.exists(sp):
                _REFERENCE_SIDE[0] = True
                try:
                    stock.update(_module_table(sp, modname)[3])
                finally:
                    _REFERENCE_SIDE[0] = False
    return bund, stock


def gen_jinjavendor() -> typing.Tuple[bool, str]:
    head = gen.HEADER % ('every module of %s, %s and the git log of that directory' % (VENDOR_DIR, STOCK_DIR)) + 'From Verif Require Import Str.\nOpen Scope N_scope.\n\n'
    try:
        bund, stock = vendor_tables(gen.REPO)
        docs = _documented_sites(gen.REPO)
        parts = [_pairs('vendored_digests', bund),
                 _pairs('stock31_digests', [(k, stock[k]) for k, _ in bund if k in stock]),
                 _pairs('documented_sites', docs)]
    except (Unsupported, OSError, SyntaxError, ValueError, TypeError, KeyError, tokenize.TokenError) as ex:
        gen.write_if_changed(OUT_VENDOR, head + '(* translator failed closed: %s *)\n' % str(ex).replace('*)', '* )').replace('(*', '( *'))
        return False, 'C19 vendored-copy translator failed closed: %s' % ex
    gen.write_if_changed(OUT_VENDOR, head + '\n'.join(parts))
    return True, 'ok'


GENERATORS['jinjavendor'] = gen_jinjavendor


def update_vendor_pins() -> None:
    """development-time only: (re)writes coq/theories/Gen/JinjaVendorPins.v from the current tree; every changed line of that
    file is an edit of the vendored copy that must be classified in its header comment"""
    bund, _stock = vendor_tables(gen.REPO)
    docs = _documented_sites(gen.REPO)
    out = os.path.join(gen.VERIF, 'coq', 'theories', 'Gen', 'JinjaVendorPins.v')
    with open(out, 'w', encoding='utf-8') as f:
        f.write("""(* C19: committed shape-digest table of EVERY function of the vendored Jinja2 (src/nunavut/jinja/jinja2/*.py, 27 modules) and
   the committed list of DOCUMENTED deltas.  Regenerate with `python -m tools.translators.gen_c19 --update-vendor-pins` ONLY
   when an edit of the vendored copy has been reviewed; classify it here:
     documented-delta : listed in `documented_delta_keys` (must then also be derivable from the tree's own evidence, see
                        Gen_JinjaVendor.documented_sites: marker comment/docstring/identifier, package rename, git log);
     neutral          : any other digest change (refactoring without behavioural effect) -- say so in the commit message.
   Covers src/nunavut/jinja/jinja2 AND src/nunavut/jinja/markupsafe, walked recursively (a package directory shadowing a module,
   or an unhashed extension/code file, makes the translator fail closed); imports are part of the digests: the vendored
   package's own absolute imports are mapped to <vendored>.X, an import of the real top-level jinja2/markupsafe is NOT.
   Baseline = the vendored tree at /repo HEAD (upstream pallets/jinja commit 7e417c5c, per /repo/subtree.json, is NOT
   available offline: digests cannot be compared with it; Gen_JinjaVendor.stock31_digests is a 3.1.x structural reference). *)
From Coq Require Import String.
From Verif Require Export JinjaRules.
Open Scope N_scope.

Definition documented_delta_keys : list str :=
 [%s].

Definition expected_vendored : list (str * str) :=
 [%s].
""" % ('; '.join('s2l "%s"' % k for k, _ in docs), ';\n  '.join('(s2l "%s", s2l "%s")' % kv for kv in bund)))
    print('wrote', out, len(bund), 'entries,', len(docs), 'documented deltas')


if __name__ == '__main__':
    import sys as _sys
    if '--update-vendor-pins' in _sys.argv:
        update_vendor_pins()


# =============================================================================================
# 'jinjarx' -> Generated/Gen_JinjaRx.v : the ROOT rule (and the comment / raw end rules) of the bundled lexer for EVERY listed
# option combination, parsed into the extended regex AST of Gen/JinjaRx.v (multi-line ^, (?!..), (?<=[..]), \S in classes).
# Fail closed outside that syntax.
# =============================================================================================
OUT_RX = os.path.join(gen.GEN_DIR, 'Gen_JinjaRx.v')


class _RxP:
    def __init__(self, s):
        self.s, self.i = s, 0

    def peek(self, n=1):
        return self.s[self.i:self.i + n]

    def eat(self, t=None):
        if t is not None:
            if not self.s.startswith(t, self.i):
                raise Unsupported('rx: expected %r at %d in %r' % (t, self.i, self.s))
            self.i += len(t)
            return t
        c = self.s[self.i]
        self.i += 1
        return c


_RX_ESC = {'n': 10, 'r': 13, 't': 9, 'f': 12, 'v': 11}


def _rx_cls(neg=False, ranges=(), space=False, nonspace=False, digit=False, word=False):
    return ('cls', neg, list(ranges), space, nonspace, digit, word)


def _rx_escape(p):
    c = p.eat()
    if c in _RX_ESC:
        return ('chr', _RX_ESC[c])
    if c in 'sSdw':
        return ('named', c)
    if not c.isalnum():
        return ('chr', ord(c))
    raise Unsupported('rx: escape \\%s' % c)


def _rx_class(p):
    neg = False
    if p.peek() == '^':
        p.eat()
        neg = True
    ranges, flags, first = [], set(), True
    while True:
        c = p.peek()
        if c == '':
            raise Unsupported('rx: unterminated class')
        if c == ']' and not first:
            p.eat()
            break
        first = False
        if c == '\\':
            p.eat()
            k = _rx_escape(p)
            if k[0] == 'named':
                flags.add(k[1])
                continue
            lo = k[1]
        else:
            lo = ord(p.eat())
        if p.peek() == '-' and p.peek(2) != '-]':
            raise Unsupported('rx: class ranges are not used by the lexer rules')
        ranges.append((lo, lo))
    return _rx_cls(neg, ranges, 's' in flags, 'S' in flags, 'd' in flags, 'w' in flags)


def _rx_nullable(r):
    t = r[0]
    if t in ('eps', 'bolm', 'notahead', 'behind', 'star'):
        return True
    if t == 'cls':
        return False
    if t == 'seq':
        return _rx_nullable(r[1]) and _rx_nullable(r[2])
    return _rx_nullable(r[1]) or _rx_nullable(r[2])


def _rx_atom(p):
    c = p.eat()
    if c == '(':
        if p.peek(2) == '?:':
            p.eat('?:')
            r = _rx_alt(p)
        elif p.peek(2) == '?!':
            p.eat('?!')
            r = ('notahead', _rx_alt(p))
        elif p.peek(3) == '?<=':
            p.eat('?<=')
            a = _rx_atom(p)
            if a[0] != 'cls':
                raise Unsupported('rx: lookbehind of more than one character class')
            r = ('behind', a)
        elif p.peek() == '?':
            raise Unsupported('rx: group extension (%s' % p.peek(3))
        else:
            r = _rx_alt(p)
        p.eat(')')
        return r
    if c == '[':
        return _rx_class(p)
    if c == '\\':
        k = _rx_escape(p)
        if k[0] == 'named':
            return _rx_cls(space=k[1] == 's', nonspace=k[1] == 'S', digit=k[1] == 'd', word=k[1] == 'w')
        return _rx_cls(ranges=[(k[1], k[1])])
    if c == '^':
        return ('bolm',)
    if c in '.$*+?{':
        raise Unsupported('rx: metacharacter %r' % c)
    return _rx_cls(ranges=[(ord(c), ord(c))])


def _rx_seq(p):
    items = []
    while p.peek() not in ('', '|', ')'):
        a = _rx_atom(p)
        q = p.peek()
        if q in ('*', '+', '?'):
            p.eat()
            if p.peek() in ('?', '+', '*'):
                raise Unsupported('rx: lazy/possessive quantifier')
            if q in '*+' and _rx_nullable(a):
                raise Unsupported('rx: repetition of a nullable body')
            a = ('star', a) if q == '*' else (('seq', a, ('star', a)) if q == '+' else ('alt', a, ('eps',)))
        elif q == '{':
            raise Unsupported('rx: counted repetition')
        items.append(a)
    if not items:
        return ('eps',)
    r = items[-1]
    for x in reversed(items[:-1]):
        r = ('seq', x, r)
    return r


def _rx_alt(p):
    alts = [_rx_seq(p)]
    while p.peek() == '|':
        p.eat()
        alts.append(_rx_seq(p))
    r = alts[-1]
    for x in reversed(alts[:-1]):
        r = ('alt', x, r)
    return r


def rx_parse(pattern: str):
    p = _RxP(pattern)
    r = _rx_alt(p)
    if p.i != len(pattern):
        raise Unsupported('rx: trailing input at %d in %r' % (p.i, pattern))
    return r


def rx_to_coq(r) -> str:
    t = r[0]
    if t == 'eps':
        return 'XEps'
    if t == 'bolm':
        return 'XBolM'
    if t == 'cls':
        _, neg, ranges, sp, nsp, dg, wd = r
        b = lambda x: 'true' if x else 'false'   # noqa: E731
        return ('(XCls {| x_neg := %s; x_ranges := [%s]%%N; x_space := %s; x_nonspace := %s; x_digit := %s; x_word := %s |})'
                % (b(neg), '; '.join('(%d, %d)' % x for x in ranges), b(sp), b(nsp), b(dg), b(wd)))
    if t == 'behind':
        return '(XBehind %s)' % rx_to_coq(r[1])[6:-1]
    if t == 'notahead':
        return '(XNotAhead %s)' % rx_to_coq(r[1])
    if t == 'star':
        return '(XStar %s)' % rx_to_coq(r[1])
    return '(%s %s %s)' % ('XSeq' if t == 'seq' else 'XAlt', rx_to_coq(r[1]), rx_to_coq(r[2]))


def _split_named_alts(pattern: str):
    head, tail = '(.*?)(?:', ')'
    if not (pattern.startswith(head) and pattern.endswith(tail)):
        raise Unsupported('root pattern does not have the form (.*?)(?:...)')
    inner = pattern[len(head):-len(tail)]
    parts, depth, cur, i, in_cls = [], 0, '', 0, False
    while i < len(inner):
        ch = inner[i]
        if ch == '\\':
            cur += inner[i:i + 2]
            i += 2
            continue
        if in_cls:
            in_cls = ch != ']'
        elif ch == '[':
            in_cls = True
        elif ch == '(':
            depth += 1
        elif ch == ')':
            depth -= 1
        elif ch == '|' and depth == 0:
            parts.append(cur)
            cur = ''
            i += 1
            continue
        cur += ch
        i += 1
    parts.append(cur)
    out = []
    for part in parts:
        m = re.fullmatch(r'\(\?P<([a-z_]+)>(.*)\)', part, flags=re.S)
        if not m:
            raise Unsupported('root alternative is not a named group: %r' % part)
        out.append((m.group(1), m.group(2)))
    return out


def gen_jinjarx() -> typing.Tuple[bool, str]:
    head = gen.HEADER % ('the live rule tables of %s for %d option combinations' % (LEXER, len(COMBOS))) + 'From Verif Require Import JinjaRx.\nOpen Scope N_scope.\n\n'
    try:
        env = dict(os.environ)
        env['PYTHONPATH'] = os.path.join(gen.REPO, 'src')
        env['PYTHONDONTWRITEBYTECODE'] = '1'
        p = subprocess.run(['/venv/bin/python', '-c', RULES_SNIPPET, json.dumps(COMBOS)], env=env, stdout=subprocess.PIPE, stderr=subprocess.PIPE, timeout=120, text=True)
        try:
            res = json.loads(p.stdout)
        except Exception:
            raise Unsupported('could not obtain the live rule tables: %s' % p.stderr[-400:])
        roots, cends, rends = [], [], []
        for r in res:
            tab = dict((st, rules) for st, rules in r['bundled'])
            root = tab['root'][0][0]
            if root.startswith('sha256:'):
                raise Unsupported('root pattern too long to be exported')
            alts = _split_named_alts(root)
            roots.append(' [%s]' % ';\n  '.join('(* %s *)\n  (%s, %s)' % (b.replace('*)', '* )').replace('(*', '( *'), _coq_str(n), rx_to_coq(rx_parse(b))) for n, b in alts))
            for state, acc in (('comment_begin', cends), ('raw_begin', rends)):
                pat = tab[state][0][0]
                if not (pat.startswith('(.*?)(') and pat.endswith(')')):
                    raise Unsupported('%s rule is not (.*?)(...)' % state)
                acc.append(' %s' % rx_to_coq(rx_parse(pat[6:-1])))
        parts = ['(* option combinations: %s *)\n' % json.dumps(COMBOS).replace('*)', '* )').replace('(*', '( *'),
                 'Definition root_rules_x : list xrules :=\n [\n%s\n ].\n' % ';\n'.join(roots),
                 'Definition comment_end_x : list rx :=\n [\n%s\n ].\n' % ';\n'.join(cends),
                 'Definition raw_end_x : list rx :=\n [\n%s\n ].\n' % ';\n'.join(rends)]
    except (Unsupported, OSError, ValueError, KeyError, TypeError, IndexError) as ex:
        gen.write_if_changed(OUT_RX, head + '(* translator failed closed: %s *)\n' % str(ex).replace('*)', '* )').replace('(*', '( *'))
        return False, 'C19 rx translator failed closed: %s' % ex
    gen.write_if_changed(OUT_RX, head + '\n'.join(parts))
    return True, 'ok'


GENERATORS['jinjarx'] = gen_jinjarx
