"""Shape pins: a hand-written Coq model of an imperative function is valid for ONE shape of that function.

`normalized_dump(rel_path, qualname)` parses the function from /repo's working tree and returns a canonical text of its
AST: docstrings, comments, type comments, annotations and logging calls dropped; local variable names alpha-renamed in
order of first binding (so a renamed temporary is not a change) — everything else (control flow, operators, constants,
attribute and callee names, argument order) is kept.  `check_pin(name, ...)` compares it with the dump committed in
tools/translators/pins/<name>.txt (written by `python -m tools.translators.shape_pin --update <name> ...` at development
time only) and writes Generated/Gen_Pin_<name>.v defining `pin_<name>_ok := true` — or a stub without the definition
when the shape differs (fail closed: the property file's `pin_<name>_ok = true` obligation then no longer builds and the
check's verdict protocol searches the implementation for a failing input)."""
from __future__ import annotations

import ast
import os
import sys
import typing

from . import gen

PINS = os.path.join(os.path.dirname(os.path.abspath(__file__)), 'pins')


def _find(tree: ast.AST, qualname: str) -> ast.AST:
    """The definition Python binds to `qualname`.  A scope that defines the name more than once (a second `def`/`class`
    further down silently replaces the first: Python binds the LAST one) fails closed: the pin would otherwise describe
    code that never runs."""
    node: ast.AST = tree
    for part in qualname.split('.'):
        hits = [ch for ch in ast.iter_child_nodes(node)
                if isinstance(ch, (ast.FunctionDef, ast.ClassDef, ast.AsyncFunctionDef)) and ch.name == part]
        if not hits:
            raise KeyError(qualname)
        if len(hits) > 1:
            raise KeyError('%s: %d definitions of %r in one scope (lines %s): the last one wins at run time; pin refuses'
                           % (qualname, len(hits), part, ', '.join(str(h.lineno) for h in hits)))
        node = hits[0]
    return node


def _rebindings(tree: ast.AST, qualname: str) -> typing.List[ast.stmt]:
    """Statements of the enclosing scope that re-bind the pinned name after its definition (`f = decorate(f)`,
    `del f`, `f: T = ...`): they change what the name means at run time, so they are part of the pin."""
    scope: ast.AST = tree
    parts = qualname.split('.')
    for part in parts[:-1]:
        scope = _find(scope, part)
    name = parts[-1]
    out: typing.List[ast.stmt] = []
    for ch in ast.iter_child_nodes(scope):
        targets: typing.List[ast.expr] = []
        if isinstance(ch, ast.Assign):
            targets = list(ch.targets)
        elif isinstance(ch, (ast.AnnAssign, ast.AugAssign)):
            targets = [ch.target]
        elif isinstance(ch, ast.Delete):
            targets = list(ch.targets)
        for t in targets:
            for n in ast.walk(t):
                if isinstance(n, ast.Name) and n.id == name:
                    out.append(ch)
    return out


class _Norm(ast.NodeTransformer):
    def __init__(self, fn: ast.FunctionDef):
        self.names: typing.Dict[str, str] = {}
        for a in fn.args.posonlyargs + fn.args.args + fn.args.kwonlyargs:
            self._bind(a.arg)

    def _bind(self, n: str) -> str:
        if n not in self.names:
            self.names[n] = 'v%d' % len(self.names)
        return self.names[n]

    def visit_arg(self, node: ast.arg):
        return ast.arg(arg=self._bind(node.arg), annotation=None)

    def visit_Name(self, node: ast.Name):
        if isinstance(node.ctx, ast.Store):
            return ast.Name(id=self._bind(node.id), ctx=node.ctx)
        return ast.Name(id=self.names.get(node.id, node.id), ctx=node.ctx)

    def visit_AnnAssign(self, node: ast.AnnAssign):
        self.generic_visit(node)
        if node.value is None:
            return None
        return ast.Assign(targets=[node.target], value=node.value)

    def visit_Expr(self, node: ast.Expr):
        v = node.value
        if isinstance(v, ast.Constant) and isinstance(v.value, str):
            return None  # docstring / bare string
        if isinstance(v, ast.Call) and isinstance(v.func, ast.Attribute) and isinstance(v.func.value, ast.Name) \
                and v.func.value.id in ('logger', 'logging') and v.func.attr in ('debug', 'info', 'warning'):
            return None
        self.generic_visit(node)
        return node


def normalized_dump(rel_path: str, qualname: str) -> str:
    fn = _find(gen.parse_repo(rel_path), qualname)
    assert isinstance(fn, ast.FunctionDef)
    fn.returns = None
    fn.decorator_list = [d for d in fn.decorator_list]
    n = _Norm(fn)
    fn = n.visit(fn)
    for node in ast.walk(fn):
        if hasattr(node, 'type_comment'):
            node.type_comment = None
    fn.name = 'f'
    text = ast.dump(fn, annotate_fields=True, include_attributes=False, indent=1)
    for stmt in _rebindings(gen.parse_repo(rel_path), qualname):
        text += '\n# REBOUND in the enclosing scope: ' + ast.dump(stmt, annotate_fields=True, include_attributes=False)
    return text


def check_pin(name: str, targets: typing.List[typing.Tuple[str, str]]) -> typing.Tuple[bool, str]:
    out = os.path.join(gen.GEN_DIR, 'Gen_Pin_%s.v' % name)
    head = gen.HEADER % ', '.join('%s:%s' % t for t in targets)
    try:
        cur = '\n'.join('## %s:%s\n%s' % (p, q, normalized_dump(p, q)) for p, q in targets) + '\n'
        pinned = open(os.path.join(PINS, name + '.txt'), encoding='utf-8').read()
    except (OSError, KeyError, SyntaxError, AssertionError) as ex:
        gen.write_if_changed(out, head + '(* shape pin failed closed: %r *)\n' % (ex,))
        return False, 'shape pin %s failed closed: %r' % (name, ex)
    if cur != pinned:
        gen.write_if_changed(out, head + '(* shape of the pinned function(s) changed: the hand model is no longer known to describe the code *)\n')
        return False, 'shape pin %s: the code no longer has the shape the hand model was written for' % name
    gen.write_if_changed(out, head + 'Definition pin_%s_ok : bool := true.\n' % name)
    return True, 'ok'


def main(argv):
    if len(argv) >= 3 and argv[0] == '--update':
        name = argv[1]
        targets = [tuple(a.split(':', 1)) for a in argv[2:]]
        os.makedirs(PINS, exist_ok=True)
        with open(os.path.join(PINS, name + '.txt'), 'w', encoding='utf-8') as f:
            f.write('\n'.join('## %s:%s\n%s' % (p, q, normalized_dump(p, q)) for p, q in targets) + '\n')
        print('pinned', name)
        return 0
    print(__doc__)
    return 2


if __name__ == '__main__':
    sys.exit(main(sys.argv[1:]))
