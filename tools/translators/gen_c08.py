"""Translator for C08 (listing and dry-run modes): cli/runners.py, cli/__init__.py, _generators.py, jinja/__init__.py
-> coq/theories/Generated/Gen_Listing.v   (generator name: 'listing')

What is translated (fail closed on anything outside the tiny subset):
  * ArgparseRunner.run with _list_outputs_only/_list_inputs_only/_generate inlined  -> `stmt` (Gen/Listing.v): the if/elif/else
    structure, the local `omit`, and for every generator call WHICH generator is called with WHICH argument expressions
    (missing keywords are filled in from the defaults of the generate_all/get_templates signatures);
  * ArgparseRunner._should_generate_support, the argparse rejection rule (_post_process_args), the condition under which
    ArgparseRunner.__init__ reads the DSDL namespace                              -> `bexp`;
  * the generate_namespace_types argument (runner) and AbstractGenerator.__init__'s decision          -> Gallina functions;
  * SupportGenerator.get_templates (which resource types, which are guarded by `not omit_serialization_support`);
  * the `if not is_dryrun:` guards of _generate_type/_generate_header/_copy_header (every effect must be inside);
  * DSDLCodeGenerator.generate_all's provider choice.
  * structural checks (fail closed when they no longer match): _stdout_lister, the two generate_all loops, the generator pair
    returned by create_default_generators, search policies of the two generators, argparse flag definitions.
  * data: per language extension / namespace stem / has_standard_namespace_files / support namespace, everything the two package
    loaders list, what list_support_files yields per resource type (read in a subprocess from the tree under test).
"""
from __future__ import annotations

import ast
import json
import os
import re
import subprocess
import typing

from . import gen
from .pyfun_tr import Unsupported, find_function

OUT = os.path.join(gen.GEN_DIR, 'Gen_Listing.v')
SRC_R = 'src/nunavut/cli/runners.py'
SRC_C = 'src/nunavut/cli/__init__.py'
SRC_G = 'src/nunavut/_generators.py'
SRC_J = 'src/nunavut/jinja/__init__.py'

FLAG_ARGS = {
    'omit_serialization_support': 'AOmit', 'dry_run': 'ADryRun', 'list_outputs': 'AListOutputs', 'list_inputs': 'AListInputs',
    'list_configuration': 'AListConfig', 'no_overwrite': 'ANoOverwrite', 'embed_auditing_info': 'AEmbedAudit',
    'generate_namespace_types': 'ANsTypes',
}
MODES = {'always': 'SAlways', 'never': 'SNever', 'as-needed': 'SAsNeeded', 'only': 'SOnly'}
GENS = {'self._generator': 'GTypes', 'self._support_generator': 'GSupport'}
LANGS = ['c', 'cpp', 'py', 'html']


def s2c(s: str) -> str:
    return '[' + '; '.join(str(ord(ch)) for ch in s) + ']'


def _u(n: ast.AST) -> str:
    return ast.unparse(n)


def _strip_doc(body: typing.Sequence[ast.stmt]) -> typing.List[ast.stmt]:
    return [s for s in body if not (isinstance(s, ast.Expr) and isinstance(s.value, ast.Constant) and isinstance(s.value.value, str))]


# ---------------------------------------------------------------------------------------------
# boolean expressions over the parsed arguments
# ---------------------------------------------------------------------------------------------
class BexpTr:
    def __init__(self, args_prefixes: typing.Sequence[str], locals_: typing.Set[str]):
        self.prefixes = tuple(args_prefixes)
        self.locals = locals_

    def arg_attr(self, e: ast.expr) -> typing.Optional[str]:
        if isinstance(e, ast.Attribute) and _u(e.value) in self.prefixes:
            return e.attr
        return None

    def tr(self, e: ast.expr) -> str:
        if isinstance(e, ast.Constant) and e.value is True:
            return 'BTrue'
        if isinstance(e, ast.Constant) and e.value is False:
            return 'BFalse'
        a = self.arg_attr(e)
        if a is not None:
            if a in FLAG_ARGS:
                return '(BArg %s)' % FLAG_ARGS[a]
            raise Unsupported('argument %s used as a boolean' % a)
        if isinstance(e, ast.Name) and e.id == 'omit' and 'omit' in self.locals:
            return 'BLocalOmit'
        if isinstance(e, ast.UnaryOp) and isinstance(e.op, ast.Not):
            return '(BNot %s)' % self.tr(e.operand)
        if isinstance(e, ast.BoolOp):
            ctor = 'BAnd' if isinstance(e.op, ast.And) else 'BOr'
            parts = [self.tr(v) for v in e.values]
            out = parts[-1]
            for p in reversed(parts[:-1]):
                out = '(%s %s %s)' % (ctor, p, out)
            return out
        if isinstance(e, ast.IfExp):
            return '(BIte %s %s %s)' % (self.tr(e.test), self.tr(e.body), self.tr(e.orelse))
        if isinstance(e, ast.Call) and isinstance(e.func, ast.Name) and e.func.id == 'bool' and len(e.args) == 1 and not e.keywords:
            return self.tr(e.args[0])      # bool() of a bool
        if isinstance(e, ast.Call) and _u(e) == 'self._should_generate_support()':
            return 'BShouldGenSupport'
        if _u(e) == 'self._generator.generate_namespace_types':
            return 'BGenNsTypes'
        if isinstance(e, ast.Compare) and len(e.ops) == 1:
            op, lhs, rhs = e.ops[0], e.left, e.comparators[0]
            la = self.arg_attr(lhs)
            if la == 'generate_support':
                if isinstance(op, (ast.Eq, ast.NotEq)) and isinstance(rhs, ast.Constant) and rhs.value in MODES:
                    r = '(BSupportIs %s)' % MODES[rhs.value]
                    return r if isinstance(op, ast.Eq) else '(BNot %s)' % r
                if isinstance(op, (ast.In, ast.NotIn)) and isinstance(rhs, (ast.Tuple, ast.List)) and all(
                        isinstance(x, ast.Constant) and x.value in MODES for x in rhs.elts):
                    r = '(BSupportIn [%s])' % '; '.join(MODES[x.value] for x in rhs.elts)
                    return r if isinstance(op, ast.In) else '(BNot %s)' % r
            if la in FLAG_ARGS and isinstance(op, (ast.Is, ast.IsNot)) and isinstance(rhs, ast.Constant) and rhs.value is None:
                r = '(BArgIsNone %s)' % FLAG_ARGS[la]
                return r if isinstance(op, ast.Is) else '(BNot %s)' % r
        raise Unsupported('expression outside the subset: %s' % _u(e)[:120])


def tr_return_fn(fn: ast.FunctionDef, bt: BexpTr) -> str:
    """if c: return a  ...  return b   ->  BIte c a b"""
    def block(stmts: typing.List[ast.stmt]) -> str:
        if not stmts:
            raise Unsupported('%s: path without return' % fn.name)
        s = stmts[0]
        if isinstance(s, ast.Return) and s.value is not None:
            return bt.tr(s.value)
        if isinstance(s, ast.If):
            then = block(_strip_doc(s.body))
            rest = _strip_doc(s.orelse) if s.orelse else stmts[1:]
            return '(BIte %s %s %s)' % (bt.tr(s.test), then, block(list(rest)))
        raise Unsupported('%s: statement %s' % (fn.name, _u(s)[:80]))
    return block(_strip_doc(fn.body))


# ---------------------------------------------------------------------------------------------
# the run methods
# ---------------------------------------------------------------------------------------------
class ProgTr:
    INLINE = ('_list_outputs_only', '_list_inputs_only', '_generate')

    def __init__(self, tree: ast.Module, defaults: typing.Dict[str, typing.Dict[str, str]]):
        self.tree = tree
        self.defaults = defaults
        self.lists_deps = False

    def kwargs(self, call: ast.Call, meth: str, bt: BexpTr, wanted: typing.Sequence[str]) -> typing.List[str]:
        if call.args:
            raise Unsupported('%s called with positional arguments: %s' % (meth, _u(call)[:100]))
        d = dict(self.defaults[meth])
        for kw in call.keywords:
            if kw.arg is None or kw.arg not in d:
                raise Unsupported('%s: unknown keyword %s' % (meth, kw.arg))
            d[kw.arg] = bt.tr(kw.value)
        return [d[w] for w in wanted]

    def gen_call(self, e: ast.expr, meth: str) -> typing.Optional[typing.Tuple[str, ast.Call]]:
        if isinstance(e, ast.Call) and isinstance(e.func, ast.Attribute) and e.func.attr == meth and _u(e.func.value) in GENS:
            return GENS[_u(e.func.value)], e
        return None

    def lister(self, call: ast.Call, bt: BexpTr) -> str:
        if len(call.args) != 2 or call.keywords:
            raise Unsupported('_stdout_lister arity')
        things, to_string = call.args
        g = self.gen_call(things, 'generate_all')
        if g is not None:
            if _u(to_string) != 'str':
                raise Unsupported('_stdout_lister(generate_all) with %s' % _u(to_string))
            given = {kw.arg for kw in g[1].keywords}
            if given - {'is_dryrun', 'omit_serialization_support'}:
                raise Unsupported('listing call of generate_all passes %s' % sorted(given))
            dry, omit = self.kwargs(g[1], 'generate_all', bt, ['is_dryrun', 'omit_serialization_support'])
            return '(Do (DoListGenerate %s %s %s))' % (g[0], dry, omit)
        g = self.gen_call(things, 'get_templates')
        if g is not None:
            if _u(to_string) != 'lambda p: str(p.resolve())':
                raise Unsupported('_stdout_lister(get_templates) with %s' % _u(to_string))
            (omit,) = self.kwargs(g[1], 'get_templates', bt, ['omit_serialization_support'])
            return '(Do (DoListTemplates %s %s))' % (g[0], omit)
        src = _u(things)
        if src == 'self._dependency_source_files()' and _u(to_string) == 'lambda p: str(p.as_posix())':
            # the repair of F-LIST-INPUTS-LOOKUP; the helper itself must have the pinned shape (variant_of below)
            self.lists_deps = True
            return '(Do DoListDepSources)'
        if _u(to_string) == 'lambda p: str(p.source_file_path.as_posix())':
            if src == '[x for x, _ in self._root_namespace.get_all_types()]':
                return '(Do (DoListSources true))'
            if src == '[x for x, _ in self._root_namespace.get_all_datatypes()]':
                return '(Do (DoListSources false))'
        raise Unsupported('_stdout_lister of %s' % src[:100])

    def stmts(self, body: typing.Sequence[ast.stmt], bt: BexpTr, depth: int) -> str:
        out = [self.stmt(s, bt, depth) for s in _strip_doc(body)]
        if not out:
            return 'Skip'
        res = out[-1]
        for s in reversed(out[:-1]):
            res = '(Seq %s %s)' % (s, res)
        return res

    def stmt(self, s: ast.stmt, bt: BexpTr, depth: int) -> str:
        if isinstance(s, ast.Pass):
            return 'Skip'
        if isinstance(s, ast.If):
            return '(If %s %s %s)' % (bt.tr(s.test), self.stmts(s.body, bt, depth), self.stmts(s.orelse, bt, depth) if s.orelse else 'Skip')
        if isinstance(s, ast.Assign) and len(s.targets) == 1 and isinstance(s.targets[0], ast.Name) and s.targets[0].id == 'omit':
            v = bt.tr(s.value)
            bt.locals.add('omit')
            return '(LetOmit %s)' % v
        if isinstance(s, ast.Expr) and isinstance(s.value, ast.Call):
            c = s.value
            if isinstance(c.func, ast.Attribute) and _u(c.func.value) == 'self' and not c.args and not c.keywords:
                if c.func.attr in self.INLINE:
                    if depth <= 0:
                        raise Unsupported('call depth')
                    fn = find_function(self.tree, 'ArgparseRunner', c.func.attr)
                    return self.stmts(fn.body, BexpTr(bt.prefixes, set()), depth - 1)
                if c.func.attr == '_list_configuration_only':
                    return '(Do DoListConfig)'
            if _u(c.func) == 'self._stdout_lister':
                return self.lister(c, bt)
            g = self.gen_call(c, 'generate_all')
            if g is not None:
                dry, aow, omit, emb = self.kwargs(g[1], 'generate_all', bt,
                                                  ['is_dryrun', 'allow_overwrite', 'omit_serialization_support', 'embed_auditing_info'])
                return '(Do (DoGenerate %s %s %s %s %s))' % (g[0], dry, aow, omit, emb)
        raise Unsupported('run method statement outside the subset: %s' % _u(s)[:120])


def signature_defaults(fn: ast.FunctionDef) -> typing.Dict[str, str]:
    names = [a.arg for a in fn.args.args]
    defs = fn.args.defaults
    out = {}
    for n, d in zip(names[len(names) - len(defs):], defs):
        if isinstance(d, ast.Constant) and d.value is True:
            out[n] = 'BTrue'
        elif isinstance(d, ast.Constant) and d.value is False:
            out[n] = 'BFalse'
        else:
            raise Unsupported('default of %s.%s is not a bool constant' % (fn.name, n))
    return out


def collect_defaults(gg: ast.Module, jj: ast.Module) -> typing.Dict[str, typing.Dict[str, str]]:
    res = {}
    for meth, want in (('generate_all', ['is_dryrun', 'allow_overwrite', 'omit_serialization_support', 'embed_auditing_info']),
                       ('get_templates', ['omit_serialization_support'])):
        sigs = [signature_defaults(find_function(gg, 'AbstractGenerator', meth))]
        for cls in ('CodeGenerator', 'DSDLCodeGenerator', 'SupportGenerator'):
            try:
                sigs.append(signature_defaults(find_function(jj, cls, meth)))
            except Unsupported as ex:
                if 'not found' not in str(ex):
                    raise
        for s in sigs:
            if s != sigs[0] or sorted(s) != sorted(want):
                raise Unsupported('%s: signatures/defaults differ between generator classes: %r' % (meth, sigs))
        res[meth] = sigs[0]
    return res


# ---------------------------------------------------------------------------------------------
# smaller pieces
# ---------------------------------------------------------------------------------------------
def tr_read_cond(rr: ast.Module) -> str:
    fn = find_function(rr, 'ArgparseRunner', '__init__')
    for s in fn.body:
        if isinstance(s, ast.If) and 'read_dsdl_namespace' in _u(s):
            if len(s.body) != 1 or len(s.orelse) != 1 or not _u(s.body[0]).startswith('type_map = read_dsdl_namespace(') \
                    or _u(s.orelse[0]) != 'type_map = []':
                raise Unsupported('ArgparseRunner.__init__: shape of the read_dsdl_namespace branch')
            if 'build_namespace_tree(type_map,' not in _u(fn).replace('\n', ' ').replace('( ', '(').replace('(  ', '('):
                if 'type_map' not in _u(fn).split('build_namespace_tree', 1)[1][:40]:
                    raise Unsupported('ArgparseRunner.__init__: type_map is not what build_namespace_tree receives')
            return BexpTr(('self._args',), set()).tr(s.test)
    raise Unsupported('ArgparseRunner.__init__: read_dsdl_namespace branch not found')


def tr_ns_arg(rr: ast.Module) -> str:
    fn = find_function(rr, 'ArgparseRunner', '__init__')
    for n in ast.walk(fn):
        if isinstance(n, ast.Dict):
            for k, v in zip(n.keys, n.values):
                if isinstance(k, ast.Constant) and k.value == 'generate_namespace_types':
                    if isinstance(v, ast.IfExp) and _u(v.test) == 'self._args.generate_namespace_types':
                        m = {'YesNoDefault.YES': 'Yes', 'YesNoDefault.NO': 'No', 'YesNoDefault.DEFAULT': 'Default'}
                        if _u(v.body) in m and _u(v.orelse) in m:
                            return '(fun b : bool => if b then %s else %s)' % (m[_u(v.body)], m[_u(v.orelse)])
                    raise Unsupported('generate_namespace_types argument: %s' % _u(v))
    raise Unsupported('generator_args["generate_namespace_types"] not found')


def tr_ns_decide(gg: ast.Module) -> str:
    fn = find_function(gg, 'AbstractGenerator', '__init__')
    if [a.arg for a in fn.args.args] != ['self', 'namespace', 'generate_namespace_types']:
        raise Unsupported('AbstractGenerator.__init__ signature')
    ymap = {'YesNoDefault.YES': 'Yes', 'YesNoDefault.NO': 'No', 'YesNoDefault.DEFAULT': 'Default'}

    def run(stmts, y: str, std: bool) -> typing.Optional[bool]:
        val = None
        for s in _strip_doc(stmts):
            if isinstance(s, ast.Assign) and len(s.targets) == 1:
                t = _u(s.targets[0])
                if t == 'self._generate_namespace_types' and isinstance(s.value, ast.Constant) and isinstance(s.value.value, bool):
                    val = s.value.value
                    continue
                if t == 'self._namespace' and _u(s.value) == 'namespace':
                    continue
                if t == 'target_language' and _u(s.value) == 'self._namespace.get_language_context().get_target_language()':
                    continue
                raise Unsupported('AbstractGenerator.__init__: assignment %s' % _u(s)[:80])
            if isinstance(s, ast.If):
                t = s.test
                if isinstance(t, ast.Compare) and len(t.ops) == 1 and isinstance(t.ops[0], ast.Eq) and _u(t.left) == 'generate_namespace_types' \
                        and _u(t.comparators[0]) in ymap:
                    c = ymap[_u(t.comparators[0])] == y
                elif _u(t) == 'target_language.has_standard_namespace_files':
                    c = std
                else:
                    raise Unsupported('AbstractGenerator.__init__: test %s' % _u(t)[:80])
                r = run(s.body if c else s.orelse, y, std)
                if r is not None:
                    val = r
                continue
            raise Unsupported('AbstractGenerator.__init__: statement %s' % _u(s)[:80])
        return val

    cells = {}
    for y in ('Yes', 'No', 'Default'):
        for std in (True, False):
            v = run(fn.body, y, std)
            if v is None:
                raise Unsupported('AbstractGenerator.__init__: _generate_namespace_types unassigned for %s/%s' % (y, std))
            cells[(y, std)] = 'true' if v else 'false'
    arms = ' '.join('| %s => if std then %s else %s' % (y, cells[(y, True)], cells[(y, False)]) for y in ('Yes', 'No', 'Default'))
    return '(fun (y : ynd) (std : bool) => match y with %s end)' % arms


def tr_reject(cc: ast.Module) -> str:
    fn = find_function(cc, '_NunavutArgumentParser', '_post_process_args')
    body = _strip_doc(fn.body)
    conds = []
    for s in body:
        if isinstance(s, ast.If) and not s.orelse and len(s.body) == 1 and _u(s.body[0]).startswith('self.error('):
            conds.append(BexpTr(('args',), set()).tr(s.test))
        else:
            raise Unsupported('_post_process_args: statement %s' % _u(s)[:80])
    out = 'BFalse'
    for c in reversed(conds):
        out = '(BOr %s %s)' % (c, out)
    # parse_known_args must call it
    pk = find_function(cc, '_NunavutArgumentParser', 'parse_known_args')
    if 'self._post_process_args(parsed_args)' not in _u(pk):
        raise Unsupported('parse_known_args no longer applies _post_process_args')
    return out


def check_argparse(cc: ast.Module) -> None:
    fn = find_function(cc, None, '_make_parser')
    seen = {}
    for n in ast.walk(fn):
        if isinstance(n, ast.Call) and isinstance(n.func, ast.Attribute) and n.func.attr == 'add_argument' and n.args \
                and isinstance(n.args[0], ast.Constant) and isinstance(n.args[0].value, str):
            longs = [a.value for a in n.args if isinstance(a, ast.Constant) and isinstance(a.value, str) and a.value.startswith('--')]
            for lg in longs:
                seen[lg[2:].replace('-', '_')] = {k.arg: k.value for k in n.keywords}
    for flag in FLAG_ARGS:
        kw = seen.get(flag)
        if kw is None or 'action' not in kw or _u(kw['action']) != "'store_true'" or 'default' in kw:
            raise Unsupported('--%s is no longer a plain store_true flag' % flag.replace('_', '-'))
    gs = seen.get('generate_support')
    if gs is None or 'choices' not in gs or sorted(ast.literal_eval(gs['choices'])) != sorted(MODES) or _u(gs.get('default')) != "'as-needed'":
        raise Unsupported('--generate-support choices/default changed')


def tr_sup_templates(jj: ast.Module) -> str:
    fn = find_function(jj, 'SupportGenerator', 'get_templates')
    body = _strip_doc(fn.body)
    rmap = {'ResourceType.SERIALIZATION_SUPPORT': 'RSer', 'ResourceType.TYPE_SUPPORT': 'RTypeSup'}
    if len(body) < 2 or _u(body[0]) != 'files = []' or _u(body[-1]) != 'return files':
        raise Unsupported('SupportGenerator.get_templates: frame')

    def loop(s: ast.stmt) -> str:
        if isinstance(s, ast.For) and not s.orelse and len(s.body) == 1 and _u(s.body[0]) == 'files.append(%s)' % _u(s.target) \
                and isinstance(s.iter, ast.Call) and _u(s.iter.func) == 'self._get_templates_by_support_type' and len(s.iter.args) == 1 \
                and _u(s.iter.args[0]) in rmap:
            return rmap[_u(s.iter.args[0])]
        raise Unsupported('SupportGenerator.get_templates: %s' % _u(s)[:80])
    out = []
    for s in body[1:-1]:
        if isinstance(s, ast.If):
            if _u(s.test) != 'not omit_serialization_support' or s.orelse:
                raise Unsupported('SupportGenerator.get_templates: guard %s' % _u(s.test))
            out += ['(true, %s)' % loop(x) for x in s.body]
        else:
            out.append('(false, %s)' % loop(s))
    h = find_function(jj, 'SupportGenerator', '_get_templates_by_support_type')
    if 'target_language.get_support_files(resource_type)' not in _u(h):
        raise Unsupported('_get_templates_by_support_type no longer enumerates get_support_files(resource_type)')
    return '[%s]' % '; '.join(out)


PURE_CALLS = {'self.filter_type_to_template', 'self._env.get_template', 'template.generate'}
EFFECT_ATTRS = {'mkdir', 'makedirs', 'open', 'write', 'write_text', 'write_bytes', 'touch', 'unlink', 'rmdir', 'chmod', 'copy', 'copyfile',
                'copy2', 'rename', 'replace', '_generate_code', '_handle_overwrite', '_copy_header_using_line_pps', 'rmtree', 'symlink_to'}


def leaf_guard(jj: ast.Module, cls: str, name: str) -> str:
    """'true' iff every effect of the leaf is inside `if not is_dryrun:`; unknown calls fail closed"""
    fn = find_function(jj, cls, name)
    if 'is_dryrun' not in [a.arg for a in fn.args.args]:
        raise Unsupported('%s.%s has no is_dryrun parameter' % (cls, name))
    guarded = True
    n_guard = 0
    for s in _strip_doc(fn.body):
        if isinstance(s, ast.If) and _u(s.test) == 'not is_dryrun' and not s.orelse:
            n_guard += 1
            continue
        for c in ast.walk(s):
            if isinstance(c, ast.Call):
                f = _u(c.func)
                last = f.split('.')[-1]
                if f in PURE_CALLS:
                    continue
                if last in EFFECT_ATTRS or f == 'open':
                    guarded = False
                    continue
                raise Unsupported('%s.%s: call %s outside the dry-run guard is not classified' % (cls, name, f))
        if not isinstance(s, (ast.Assign, ast.AnnAssign, ast.Return, ast.Expr)):
            raise Unsupported('%s.%s: statement %s' % (cls, name, _u(s)[:60]))
    if n_guard != 1:
        raise Unsupported('%s.%s: expected exactly one `if not is_dryrun:` block' % (cls, name))
    return 'true' if guarded else 'false'


def tr_types_loop(jj: ast.Module) -> str:
    fn = find_function(jj, 'DSDLCodeGenerator', 'generate_all')
    src = _u(fn)
    a = 'provider = self.namespace.get_all_types if self.generate_namespace_types else self.namespace.get_all_datatypes'
    b = 'provider = self.namespace.get_all_datatypes if self.generate_namespace_types else self.namespace.get_all_types'
    if a in src:
        flag = 'true'
    elif b in src:
        flag = 'false'
    else:
        raise Unsupported('DSDLCodeGenerator.generate_all: provider choice')
    loops = [s for s in fn.body if isinstance(s, ast.For)]
    if len(loops) != 1 or _u(loops[0].iter) != 'provider()' or _u(loops[0].target) != '(parsed_type, output_path)':
        raise Unsupported('DSDLCodeGenerator.generate_all: loop header')
    calls = [c for c in ast.walk(loops[0]) if isinstance(c, ast.Call) and _u(c.func) == 'self._generate_type']
    if len(calls) != 1 or _u(calls[0]) != 'self._generate_type(parsed_type, output_path, is_dryrun, allow_overwrite)':
        raise Unsupported('DSDLCodeGenerator.generate_all: _generate_type call')
    if 'generated.append(self._generate_type(' not in _u(loops[0]) or _u(fn.body[-1]) != 'return generated':
        raise Unsupported('DSDLCodeGenerator.generate_all: result list')
    for s in loops[0].body:
        if isinstance(s, (ast.If, ast.Continue, ast.Break, ast.Try)):
            raise Unsupported('DSDLCodeGenerator.generate_all: conditional inside the loop')
    return flag


def check_support_loop(jj: ast.Module) -> None:
    fn = find_function(jj, 'SupportGenerator', 'generate_all')
    loops = [s for s in fn.body if isinstance(s, ast.For) and _u(s.target) == 'resource']
    if len(loops) != 1 or _u(loops[0].iter) != 'self.get_templates(omit_serialization_support)':
        raise Unsupported('SupportGenerator.generate_all: loop over self.get_templates(omit_serialization_support)')
    lp = loops[0]
    src = _u(lp)
    if 'target = (target_path / resource.name).with_suffix(target_language.extension)' not in src:
        raise Unsupported('SupportGenerator.generate_all: target path')
    ifs = [s for s in lp.body if isinstance(s, ast.If)]
    if len(ifs) != 1 or _u(ifs[0].test) != 'resource.suffix == TEMPLATE_SUFFIX':
        raise Unsupported('SupportGenerator.generate_all: dispatch')
    for branch, meth in ((ifs[0].body, '_generate_header'), (ifs[0].orelse, '_copy_header')):
        b = ' ; '.join(_u(x) for x in branch)
        if 'self.%s(resource, target, is_dryrun, allow_overwrite' % meth not in b or 'generated.append(target)' not in b:
            raise Unsupported('SupportGenerator.generate_all: %s branch' % meth)
    if 'target_path = pathlib.Path(self.namespace.get_support_output_folder()) / self._sub_folders' not in _u(fn) \
            or _u(fn.body[-1]) != 'return generated':
        raise Unsupported('SupportGenerator.generate_all: frame')
    init = _u(find_function(jj, 'SupportGenerator', '__init__'))
    if 'kwargs.update(use_support_templates_dir=True)' not in init or "builtin_template_path='support'" not in init \
            or 'for namespace_part in target_language.support_namespace' not in init or 'search_policy' in init:
        raise Unsupported('SupportGenerator.__init__: loader setup')
    dinit = _u(find_function(jj, 'DSDLCodeGenerator', '__init__'))
    if 'search_policy=ResourceSearchPolicy.FIND_FIRST' not in dinit:
        raise Unsupported('DSDLCodeGenerator.__init__: search policy')
    cg = _u(find_function(jj, 'CodeGenerator', 'get_templates'))
    if 'return self._dsdl_template_loader.get_templates()' not in cg:
        raise Unsupported('CodeGenerator.get_templates')
    cinit = _u(find_function(jj, 'CodeGenerator', '__init__'))
    if 'templates_dirs=support_templates_dir if use_support_templates_dir else templates_dir' not in cinit:
        raise Unsupported('CodeGenerator.__init__: template dir selection')


def check_runner_misc(rr: ast.Module, gg: ast.Module) -> None:
    lister = find_function(rr, 'ArgparseRunner', '_stdout_lister')
    b = _strip_doc(lister.body)
    if len(b) != 1 or not isinstance(b[0], ast.For) or _u(b[0].iter) != 'things_to_list' \
            or [_u(x) for x in b[0].body] != ['sys.stdout.write(to_string(thing))', "sys.stdout.write(';')"]:
        raise Unsupported('_stdout_lister body')
    init = _u(find_function(rr, 'ArgparseRunner', '__init__'))
    if 'self._generator, self._support_generator = create_default_generators(self._root_namespace, **generator_args)' not in init:
        raise Unsupported('ArgparseRunner.__init__: generator pair')
    for key, val in (("'templates_dir'", 'self._args.templates'), ("'support_templates_dir'", 'self._args.support_templates')):
        if key not in init or val not in init:
            raise Unsupported('ArgparseRunner.__init__: %s' % key)
    cd = _u(find_function(gg, None, 'create_default_generators'))
    if 'return (DSDLCodeGenerator(namespace, **kwargs), SupportGenerator(namespace, **kwargs))' not in cd:
        raise Unsupported('create_default_generators: order of the pair')
    clc = _u(find_function(rr, 'ArgparseRunner', '_create_language_context'))
    if 'builder.set_target_language_extension(self._args.output_extension)' not in clc \
            or 'Language.WKCV_NAMESPACE_FILE_STEM, self._args.namespace_output_stem' not in clc:
        raise Unsupported('_create_language_context: extension / namespace stem plumbing')


# ---------------------------------------------------------------------------------------------
# language data (subprocess: imports the tree under test)
# ---------------------------------------------------------------------------------------------
DATA_SCRIPT = r'''
import json, os, pathlib, sys
from nunavut.lang import LanguageContextBuilder, Language
from nunavut._utilities import ResourceType, TEMPLATE_SUFFIX
from nunavut.jinja.jinja2 import PackageLoader
out = {}
for name in sys.argv[1:]:
    lang = LanguageContextBuilder(include_experimental_languages=True).set_target_language(name).create().get_target_language()
    def listing(sub):
        pl = PackageLoader(lang.get_templates_package_name(), package_path=sub)
        root = pathlib.Path(pl._template_root)
        return [(t, str((root / t).resolve())) for t in sorted(pl.list_templates()) if '__pycache__' not in t]
    def res(rt):
        return [(p.name, p.stem, p.suffix == TEMPLATE_SUFFIX, str(p.resolve())) for p in lang.get_support_files(rt)]
    out[name] = {
        'ext': lang.extension, 'stem': lang.get_config_value(Language.WKCV_NAMESPACE_FILE_STEM, '_'),
        'std_ns': bool(lang.has_standard_namespace_files), 'support_ns': list(lang.support_namespace),
        'templates': listing('templates'), 'support_dir': listing('support'),
        'ser': res(ResourceType.SERIALIZATION_SUPPORT), 'typ': res(ResourceType.TYPE_SUPPORT),
        'suffix': TEMPLATE_SUFFIX,
    }
print('DATA' + json.dumps(out))
'''

CLS_OF_STEM = {'StructureType': 'CStructure', 'UnionType': 'CUnion', 'DelimitedType': 'CDelimited', 'ServiceType': 'CService',
               'CompositeType': 'CComposite', 'SerializableType': 'CSerializable', 'Any': 'CAny', 'Namespace': 'CNamespace'}


def coq_path(p: str) -> str:
    return '[%s]' % '; '.join(s2c(c) for c in p.split('/'))


REF_RE = re.compile(r"""\{%[-+*]?\s*(?:include|import|from|extends)\s+(?:(["'])([^"']+)\1|([^\s"']))""")


def scan_refs(text: str) -> typing.Tuple[typing.List[str], bool]:
    """template reference graph: constant targets of include/import/from/extends statements, and whether there is one with a
    computed target (e.g. `include x | type_to_template`), which can name any class template"""
    refs, dyn = [], False
    for m in REF_RE.finditer(text):
        if m.group(2) is not None:
            if m.group(2) not in refs:
                refs.append(m.group(2))
        else:
            dyn = True
    return refs, dyn


def scan_refs_file(path: str) -> typing.Tuple[typing.List[str], bool]:
    try:
        with open(path, 'r', encoding='utf-8', errors='replace') as f:
            return scan_refs(f.read())
    except OSError:
        return [], False


def coq_tfile(name: str, path: str, suffix: str = '.j2', refs: typing.Optional[typing.Tuple[typing.List[str], bool]] = None) -> str:
    if refs is None:
        refs = scan_refs_file(path)
    return _coq_tfile(name, path, suffix) + '; tf_refs := [%s]; tf_dyn := %s |}' % ('; '.join(s2c(r) for r in refs[0]), 'true' if refs[1] else 'false')


def _coq_tfile(name: str, path: str, suffix: str = '.j2') -> str:
    j2 = name.endswith(suffix) and os.path.splitext(name)[1] == suffix
    stem = os.path.splitext(os.path.basename(name))[0]
    cls = CLS_OF_STEM.get(stem) if (j2 and '/' not in name) else None
    py = os.path.splitext(name)[1] in ('.py', '.pyc', '.pyo') or '__pycache__' in name.split('/')
    pkg = os.path.basename(name) == '__init__.py' or os.path.splitext(name)[1] in ('.pyc', '.pyo') or '__pycache__' in name.split('/')
    return '{| tf_name := %s; tf_path := %s; tf_j2 := %s; tf_py := %s; tf_pkg := %s; tf_linked := false; tf_cls := %s' % (
        s2c(name), coq_path(path), 'true' if j2 else 'false', 'true' if py else 'false', 'true' if pkg else 'false',
        ('Some %s' % cls) if cls else 'None')


def lang_data() -> typing.Dict[str, dict]:
    env = dict(os.environ)
    env['PYTHONPATH'] = os.path.join(gen.REPO, 'src')
    env['PYTHONDONTWRITEBYTECODE'] = '1'
    p = subprocess.run(['/venv/bin/python', '-c', DATA_SCRIPT] + LANGS, env=env, stdout=subprocess.PIPE, stderr=subprocess.STDOUT,
                       text=True, timeout=120)
    for line in p.stdout.splitlines():
        if line.startswith('DATA'):
            return json.loads(line[4:])
    raise Unsupported('language data could not be read from the tree: %s' % p.stdout[-300:])


def coq_lang(name: str, d: dict) -> str:
    if d['suffix'] != '.j2':
        raise Unsupported('TEMPLATE_SUFFIX changed')

    def tdir(lst):
        return '[%s]' % ';\n      '.join(coq_tfile(n, p) for n, p in lst)

    def sres(lst):
        return '[%s]' % '; '.join('{| sr_name := %s; sr_stem := %s; sr_j2 := %s; sr_path := %s |}' % (
            s2c(n), s2c(st), 'true' if j else 'false', coq_path(p)) for n, st, j, p in lst)
    return ('Definition lang_%s : langinfo := {|\n  l_ext := %s; l_stem := %s; l_std_ns := %s; l_support_ns := [%s];\n'
            '  l_templates := %s;\n  l_support_dir := %s;\n  l_sup_ser := %s;\n  l_sup_type := %s;\n  l_properties := %s |}.' % (
                name, s2c(d['ext']), s2c(d['stem']), 'true' if d['std_ns'] else 'false', '; '.join(s2c(x) for x in d['support_ns']),
                tdir(d['templates']), tdir(d['support_dir']), sres(d['ser']), sres(d['typ']),
                coq_path(os.path.realpath(os.path.join(gen.REPO, 'src', 'nunavut', 'lang', 'properties.yaml')))))


HEAD = (gen.HEADER % ', '.join([SRC_R, SRC_C, SRC_G, SRC_J, 'src/nunavut/lang/*/ (package data)'])
        + 'From Coq Require Import NArith List Bool.\nFrom Verif Require Import Str Listing.\nImport ListNotations.\nOpen Scope N_scope.\n\n')


def gen_listing() -> typing.Tuple[bool, str]:
    try:
        rr, cc, gg, jj = (gen.parse_repo(x) for x in (SRC_R, SRC_C, SRC_G, SRC_J))
        check_argparse(cc)
        check_runner_misc(rr, gg)
        check_support_loop(jj)
        defaults = collect_defaults(gg, jj)
        sgs = tr_return_fn(find_function(rr, 'ArgparseRunner', '_should_generate_support'), BexpTr(('self._args',), set()))
        if 'BShouldGenSupport' in sgs or 'BLocalOmit' in sgs or 'BGenNsTypes' in sgs:
            raise Unsupported('_should_generate_support refers to run-time state')
        ptr = ProgTr(rr, defaults)
        prog = ptr.stmts(find_function(rr, 'ArgparseRunner', 'run').body, BexpTr(('self._args',), set()), 1)
        dep_variant = variant_of('depsrc') if ptr.lists_deps else None
        if ptr.lists_deps and dep_variant not in ('fix', 'fix2'):
            raise Unsupported('_dependency_source_files does not have the pinned shape')
        tpl_variant, sup_variant = variant_of('tplenum'), variant_of('supenum')
        if tpl_variant is None or sup_variant is None:
            raise Unsupported('get_templates / _get_templates_by_support_type have none of the pinned shapes')
        fields = [
            ('k_sgs', sgs), ('k_reject', tr_reject(cc)), ('k_read', tr_read_cond(rr)), ('k_prog', prog),
            ('k_ns_arg', tr_ns_arg(rr)), ('k_ns_decide', tr_ns_decide(gg)), ('k_sup_tpl', tr_sup_templates(jj)),
            ('k_guard_type', leaf_guard(jj, 'DSDLCodeGenerator', '_generate_type')),
            ('k_guard_header', leaf_guard(jj, 'SupportGenerator', '_generate_header')),
            ('k_guard_copy', leaf_guard(jj, 'SupportGenerator', '_copy_header')),
            ('k_types_all_when_ns', tr_types_loop(jj)),
            ('k_fix_lookup', 'true' if ptr.lists_deps else 'false'),
            ('k_fix_nonj2', 'true' if tpl_variant in ('fix', 'fix3') else 'false'),
            ('k_fix_suptpl', 'true' if sup_variant == 'fix' else 'false'),
            ('k_path_pure', 'true' if path_effects() == [] else 'false'),
            ('k_ns_check', ns_check_flag()),
            ('k_fix_constref', 'true' if dep_variant == 'fix2' else 'false'),
            ('k_stem_check', stem_check_flag()),
            ('k_fix_pyres', 'true' if tpl_variant == 'fix3' else 'false'),
            ('k_fix_linkdir', 'true' if tpl_variant == 'fix3' else 'false'),
        ]
        data = lang_data()
        parts = ['Definition the_code : code := {|\n%s |}.' % ';\n'.join('  %s := %s' % f for f in fields)]
        for name in LANGS:
            parts.append(coq_lang(name, data[name]))
    except (Unsupported, SyntaxError, OSError, AttributeError, IndexError, KeyError, ValueError, subprocess.SubprocessError) as ex:
        gen.write_if_changed(OUT, HEAD + '(* translator failed closed: %s *)\n' % str(ex).replace('*)', '* )').replace('(*', '( *'))
        return False, 'C08 translator failed closed: %s' % ex
    gen.write_if_changed(OUT, HEAD + '\n\n'.join(parts) + '\n')
    return True, 'ok'


# ---------------------------------------------------------------------------------------------
# effect scan of the whole listing / dry-run call path
# ---------------------------------------------------------------------------------------------
SCAN_FILES = ['src/nunavut/cli/runners.py', 'src/nunavut/cli/__init__.py', 'src/nunavut/_generators.py', 'src/nunavut/_namespace.py',
              'src/nunavut/jinja/__init__.py', 'src/nunavut/jinja/loaders.py', 'src/nunavut/jinja/environment.py',
              'src/nunavut/lang/__init__.py', 'src/nunavut/lang/_language.py', 'src/nunavut/lang/_config.py', 'src/nunavut/lang/_common.py',
              'src/nunavut/_dependencies.py', 'src/nunavut/_utilities.py', 'src/nunavut/_postprocessors.py']
# functions that ARE the effects of a real run; they may only be reached from inside an `if not is_dryrun:` block
SINKS = {'CodeGenerator._generate_code', 'CodeGenerator._handle_overwrite', 'SupportGenerator._copy_header_using_line_pps',
         'CodeGenerator._generate_with_line_buffer', 'CodeGenerator._filter_and_write_line'}
SINK_CALLS = {'_generate_code', '_handle_overwrite', '_copy_header_using_line_pps', '_generate_with_line_buffer', '_filter_and_write_line'}
FS_ATTRS = {'mkdir', 'makedirs', 'write_text', 'write_bytes', 'touch', 'unlink', 'rmdir', 'chmod', 'lchmod', 'rmtree', 'symlink_to',
            'hardlink_to', 'link_to', 'truncate', 'rename', 'utime', 'mkstemp', 'mkdtemp', 'NamedTemporaryFile', 'TemporaryDirectory',
            'copyfile', 'copy2', 'copytree', 'move', 'remove', 'removedirs', 'renames', 'mkfifo', 'mknod', 'chown'}
# core functions of the call path: besides the deny-list above, every callee NAME outside the dry-run guards must be one that
# was there when the pins were taken (pins/c08_enum.json "callees"); a new one fails closed
CORE = {
    'src/nunavut/cli/runners.py': ['ArgparseRunner.*'],
    'src/nunavut/cli/__init__.py': ['main', '_extra_includes_from_env', '_NunavutArgumentParser.*'],
    'src/nunavut/_generators.py': ['AbstractGenerator.__init__', 'create_default_generators'],
    'src/nunavut/jinja/__init__.py': ['CodeGenerator.__init__', 'CodeGenerator._handle_post_processors', 'CodeGenerator.get_templates',
                                      'DSDLCodeGenerator.__init__', 'DSDLCodeGenerator.generate_all', 'DSDLCodeGenerator._generate_type',
                                      'DSDLCodeGenerator.filter_type_to_template', 'SupportGenerator.*'],
    'src/nunavut/jinja/loaders.py': ['DSDLTemplateLoader.*', '_is_template_resource'],
    'src/nunavut/_namespace.py': ['build_namespace_tree', 'Namespace.__init__', '_NamespaceFactory.*'],
}


def _is_guard(st: ast.stmt) -> bool:
    return isinstance(st, ast.If) and _u(st.test) == 'not is_dryrun'


def _calls_outside_guard(fn: ast.AST) -> typing.List[ast.Call]:
    out: typing.List[ast.Call] = []

    def visit(node: ast.AST) -> None:
        if _is_guard(node):
            for x in node.orelse:          # type: ignore[attr-defined]
                visit(x)
            return
        if isinstance(node, ast.Call):
            out.append(node)
        for ch in ast.iter_child_nodes(node):
            visit(ch)
    for st in fn.body:                     # type: ignore[attr-defined]
        visit(st)
    return out


def _effect_of(c: ast.Call) -> typing.Optional[str]:
    f = _u(c.func)
    last = f.split('.')[-1]
    if last in SINK_CALLS:
        return 'call of the effectful %s' % last
    if last in FS_ATTRS or f.startswith(('shutil.', 'subprocess.')) or f in ('os.replace', 'os.system', 'os.popen'):
        return 'file-system effect %s' % f
    if last == 'write' and not f.startswith(('sys.stdout.', 'sys.stderr.')):
        return 'write through %s' % f
    if last == 'open':
        mode = None
        if len(c.args) >= 2:
            mode = c.args[1]
        for kw in c.keywords:
            if kw.arg == 'mode':
                mode = kw.value
        if mode is not None and not (isinstance(mode, ast.Constant) and isinstance(mode.value, str) and not set(mode.value) & set('wax+')):
            return 'open for writing (%s)' % _u(mode)
    return None


def _functions(tree: ast.Module) -> typing.Iterator[typing.Tuple[str, ast.AST]]:
    for n in tree.body:
        if isinstance(n, (ast.FunctionDef, ast.AsyncFunctionDef)):
            yield n.name, n
        elif isinstance(n, ast.ClassDef):
            for m in n.body:
                if isinstance(m, (ast.FunctionDef, ast.AsyncFunctionDef)):
                    yield '%s.%s' % (n.name, m.name), m


def _is_sink(rel: str, q: str) -> bool:
    return q in SINKS or (rel.endswith('_postprocessors.py') and q.endswith('.__call__'))


def _core_match(rel: str, q: str) -> bool:
    for pat in CORE.get(rel, []):
        if pat == q or (pat.endswith('.*') and q.startswith(pat[:-1])):
            return True
    return False


def scan_call_path() -> typing.Tuple[typing.List[str], typing.Dict[str, typing.List[str]]]:
    """(effects found outside the dry-run guards, callee names per core function)"""
    effects: typing.List[str] = []
    callees: typing.Dict[str, typing.List[str]] = {}
    for rel in SCAN_FILES:
        tree = gen.parse_repo(rel)
        for q, fn in _functions(tree):
            if _is_sink(rel, q):
                continue
            calls = _calls_outside_guard(fn)
            for c in calls:
                e = _effect_of(c)
                if e:
                    effects.append('%s:%s line %d: %s' % (rel, q, c.lineno, e))
            if _core_match(rel, q):
                # calls already classified as effects make k_path_pure false (a failing proof); only the others need the allow-set
                callees['%s:%s' % (rel, q)] = sorted({_u(c.func).split('.')[-1].split('(')[0] for c in calls if _effect_of(c) is None})
    return effects, callees


def path_effects() -> typing.List[str]:
    effects, callees = scan_call_path()
    pinned = _pins().get('callees', {})
    for fn, names in callees.items():
        if fn not in pinned:
            raise Unsupported('new function on the listing/dry-run call path: %s' % fn)
        new = sorted(set(names) - set(pinned[fn]))
        if new:
            raise Unsupported('unclassified call(s) %s in %s (outside the dry-run guard)' % (', '.join(new), fn))
    return effects


# ---------------------------------------------------------------------------------------------
# shape pins of the enumeration logic that Gen/Listing.v models by hand (listed_templates, chain, resolve_name, support_resources,
# listed_dep_sources).  Parts with several recognised shapes ("variants": the tree as found and the tree with one of the
# --list-inputs repairs of design_notes/C08_fix_*.patch) select the corresponding behaviour of the model (k_fix_*).
# Pins live in tools/translators/pins/c08_enum.json, written at development time only by
#   VERIF_REPO=<tree> python -m tools.translators.gen_c08 --update-pins
# ---------------------------------------------------------------------------------------------
JL, JI, RU = 'src/nunavut/jinja/loaders.py', 'src/nunavut/jinja/__init__.py', 'src/nunavut/cli/runners.py'
NS = 'src/nunavut/_namespace.py'
PIN_COMMON = [
    (JL, 'DSDLTemplateLoader.__init__'), (JL, 'DSDLTemplateLoader.get_source'), (JL, 'DSDLTemplateLoader._filter_template_list_by_suffix'),
    (JI, 'CodeGenerator.get_templates'), (JI, 'SupportGenerator.get_templates'), (JI, 'CodeGenerator._generate_code'),
    ('src/nunavut/lang/_language.py', 'Language.get_support_files'), ('src/nunavut/_utilities.py', 'iter_package_resources'),
    # what _dependency_source_files() relies on: the transitive walk over the types of fields (arrays, services, delimited types)
    ('src/nunavut/_dependencies.py', 'DependencyBuilder.transitive'), ('src/nunavut/_dependencies.py', 'DependencyBuilder._build_dependency_list'),
    ('src/nunavut/_dependencies.py', 'DependencyBuilder._extract_data_types'), ('src/nunavut/_dependencies.py', 'DependencyBuilder._extract_dependent_types'),
]
PIN_VARIANTS = {
    'tplenum': {'orig': [(JL, 'DSDLTemplateLoader.get_templates')],
                'fix': [(JL, 'DSDLTemplateLoader.get_templates'), (JL, '_is_template_resource')],
                # design_notes/C08_list_inputs_closure_fix.patch: .py resources are listed, linked sub-directories are walked
                'fix3': [(JL, 'DSDLTemplateLoader.get_templates'), (JL, '_is_template_resource'), (JL, '_walk_template_files')]},
    'supenum': {'orig': [(JI, 'SupportGenerator._get_templates_by_support_type')],
                'fix': [(JI, 'SupportGenerator._get_templates_by_support_type'), (JI, 'SupportGenerator._rendered_template')]},
    # fix: composite dependencies only (bf5515b); fix2: also every definition the front end read (design_notes/C08_constref_fix.patch)
    'depsrc': {'fix': [(RU, 'ArgparseRunner._dependency_source_files')], 'fix2': [(RU, 'ArgparseRunner._dependency_source_files')]},
    # optional functions: when the tree has them they must have the pinned shape
    'nscheck': {'fix': [(NS, '_NamespaceFactory.check_namespace_files_are_not_type_files')]},
    'typetpl': {'fix': [(JL, 'DSDLTemplateLoader._type_templates'), (JL, 'DSDLTemplateLoader.type_to_template')]},
    'stemcheck': {'fix': [(NS, '_checked_namespace_file_stem')]},
}
OPTIONAL_PARTS = ('nscheck', 'typetpl', 'stemcheck')
PIN_FILE = os.path.join(os.path.dirname(os.path.abspath(__file__)), 'pins', 'c08_enum.json')


def _dump(targets) -> typing.Optional[str]:
    from . import shape_pin
    try:
        return '\n'.join('## %s:%s\n%s' % (p, q, shape_pin.normalized_dump(p, q)) for p, q in targets) + '\n'
    except (OSError, KeyError, SyntaxError, AssertionError):
        return None


def _pins() -> dict:
    with open(PIN_FILE, encoding='utf-8') as f:
        return json.load(f)


def variant_of(part: str) -> typing.Optional[str]:
    """name of the pinned variant the tree under test has for `part` (the richest first), None when it has none of them"""
    pins = _pins()
    for name in ('fix3', 'fix2', 'fix', 'orig'):
        targets = PIN_VARIANTS[part].get(name)
        if targets is not None and pins.get(part, {}).get(name) is not None and _dump(targets) == pins[part][name]:
            return name
    return None


def _optional_part_state(part: str) -> str:
    """'absent' (the tree does not have the function), 'fix' (pinned shape) or 'other'"""
    first = PIN_VARIANTS[part]['fix'][0]
    if _dump([first]) is None:
        return 'absent'
    return 'fix' if variant_of(part) == 'fix' else 'other'


def ns_check_flag() -> str:
    """'true' iff build_namespace_tree ends by calling the (pinned) namespace-file/type-file clash check on its factory"""
    st = _optional_part_state('nscheck')
    fn = find_function(gen.parse_repo(NS), None, 'build_namespace_tree')
    calls = [c for c in ast.walk(fn) if isinstance(c, ast.Call) and _u(c.func).endswith('.check_namespace_files_are_not_type_files')]
    if st == 'absent' and not calls:
        return 'false'
    if st != 'fix' or len(calls) != 1 or _u(calls[0]) != 'nsf.check_namespace_files_are_not_type_files()':
        raise Unsupported('namespace file / type file clash check: unknown shape or call')
    body = _strip_doc(fn.body)
    if not (isinstance(body[-1], ast.Return) and isinstance(body[-2], ast.Expr) and body[-2].value is calls[0]):
        raise Unsupported('the clash check is no longer the last statement of build_namespace_tree before its return')
    return 'true'


def stem_check_flag() -> str:
    """'true' iff Namespace.__init__ passes the configured namespace file stem through the (pinned) _checked_namespace_file_stem"""
    st = _optional_part_state('stemcheck')
    init = _u(find_function(gen.parse_repo(NS), 'Namespace', '__init__'))
    used = '_checked_namespace_file_stem(' in init
    if st == 'absent' and not used:
        return 'false'
    wanted = 'output_stem = _checked_namespace_file_stem(target_language.get_config_value(Language.WKCV_NAMESPACE_FILE_STEM, self.DefaultOutputStem))'
    if st != 'fix' or wanted not in init or init.count('_checked_namespace_file_stem(') != 1:
        raise Unsupported('namespace file stem check: unknown shape or use')
    return 'true'


def pin_c08_enum() -> typing.Tuple[bool, str]:
    out = os.path.join(gen.GEN_DIR, 'Gen_Pin_c08_enum.v')
    head = gen.HEADER % 'the enumeration functions listed in tools/translators/gen_c08.py (PIN_COMMON, PIN_VARIANTS)'
    why = None
    try:
        if _dump(PIN_COMMON) != _pins().get('common'):
            why = 'one of %s changed shape' % ', '.join(q for _, q in PIN_COMMON)
        else:
            for part in ('tplenum', 'supenum'):
                if variant_of(part) is None:
                    why = '%s has none of the pinned shapes' % PIN_VARIANTS[part]['orig'][0][1]
            for part in OPTIONAL_PARTS:
                if _optional_part_state(part) == 'other':
                    why = '%s does not have the pinned shape' % PIN_VARIANTS[part]['fix'][0][1]
    except (OSError, ValueError) as ex:
        why = 'pin file unreadable: %r' % (ex,)
    if why:
        gen.write_if_changed(out, head + '(* shape pin failed closed: %s -- the hand model is no longer known to describe the code *)\n' % why)
        return False, 'shape pin c08_enum: ' + why
    gen.write_if_changed(out, head + 'Definition pin_c08_enum_ok : bool := true.\n')
    return True, 'ok'


def update_pins(named: typing.Optional[typing.Dict[str, str]] = None) -> None:
    """record the shapes of the tree VERIF_REPO points to (common part always; of each variant part the variant the tree has:
    `fix` when the repair's helper function exists, else `orig`)"""
    try:
        pins = _pins()
    except (OSError, ValueError):
        pins = {}
    common = _dump(PIN_COMMON)
    assert common is not None
    pins['common'] = common
    effects, callees = scan_call_path()
    assert effects == [], effects
    merged = pins.get('callees', {})
    for fn, names in callees.items():            # union over the trees the pins were taken from
        merged[fn] = sorted(set(merged.get(fn, [])) | set(names))
    pins['callees'] = merged
    for part, variants in PIN_VARIANTS.items():
        name = (named or {}).get(part, 'fix')
        d = _dump(variants.get(name, variants['fix']))
        if d is None and 'orig' in variants:
            d, name = _dump(variants['orig']), 'orig'
        if d is not None:
            pins.setdefault(part, {})[name] = d
            print('pinned', part, name)
    os.makedirs(os.path.dirname(PIN_FILE), exist_ok=True)
    with open(PIN_FILE, 'w', encoding='utf-8') as f:
        json.dump(pins, f, indent=1, sort_keys=True)
        f.write('\n')


GENERATORS = {'listing': gen_listing, 'pin_c08_enum': pin_c08_enum}

if __name__ == '__main__':
    import sys
    if sys.argv[1:2] == ['--update-pins']:          # optional: part=variant (e.g. depsrc=fix2) to name the variant the tree has
        update_pins(dict(a.split('=', 1) for a in sys.argv[2:]))
