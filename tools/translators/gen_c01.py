"""C01 translator tie (T2, code) -> coq/theories/Generated/Gen_C01.v

The small pure functions that the C / C++ / Python serialization templates call to turn bit lengths into byte counts,
storage widths and "is the in-memory image already the wire image" decisions are translated from their `ast` into
Gallina; coq/theories/Codec/GenC01Thm.v proves that they compute what the code-shaped walker (Codec/Walker.v:
`std_width`, `is_std`, `o / 8`) assumes.  Translated (what the code SAYS, statement by statement):

  src/nunavut/jinja/__init__.py   DSDLCodeGenerator.filter_bits2bytes_ceil, DSDLCodeGenerator.filter_alignment_prefix
  src/nunavut/lang/c/__init__.py  class _CFit (member values), _CFit.get_best_fit, filter_to_standard_bit_length,
                                  is_zero_cost_primitive

Supported subset (anything else raises Unsupported => the generated file becomes a stub defining nothing, the
dependent proof file no longer builds => fail closed):
  statements   docstring; `if/elif/else`; `return e`; `raise Exc(...)` (modelled as None, the message is not
               evaluated); `name = e`; `assert isinstance(name, bool)` for a name whose static type is bool (no-op)
  expressions  int/str constants, True/False, typed names, + - * on int, `e // k` with a positive literal k,
               comparisons (< <= > >= == != on int, == != on str), `e in (k1, .., kn)` with int literals, `not`,
               `a if c else b`, `int(e)` on an int (identity), and a closed list of typed attribute reads / calls on the
               abstract parameters (see `_Fn.attr` / `_Fn.call`): language.get_option("target_endianness"),
               t.bit_length, t.standard_bit_length, isinstance(t, pydsdl.IntegerType|FloatType|BooleanType),
               offset.is_aligned_at_byte(), isinstance(offset, pydsdl.BitLengthSet), _CFit.<member>, cls(<member>),
               <member>.value, _CFit.get_best_fit(e) (partial: bound with `match`)
Python `int` is Z (unbounded); `//` is Z.div (floor division, identical for a positive divisor); a raise is None.
`if` statements are translated by duplicating the continuation into both branches (`if c then [body; rest] else
[orelse; rest]`), statements after a return/raise are dead.
Parameter and local names do not leak into the output except as `v_<name>` for locals, so that comment, docstring,
annotation and parameter-name edits leave the generated file byte-identical.
"""
from __future__ import annotations

import ast
import os
import re
import typing

from . import gen
from .pyfun_tr import Unsupported

OUT = os.path.join(gen.GEN_DIR, 'Gen_C01.v')
JINJA_PY = 'src/nunavut/jinja/__init__.py'
C_PY = 'src/nunavut/lang/c/__init__.py'
HEAD = (gen.HEADER % ('%s, %s' % (JINJA_PY, C_PY))
        + 'From Coq Require Import ZArith String Bool.\nLocal Open Scope Z_scope.\n\n')

# fixed vocabulary of the abstract argument `t : pydsdl.PrimitiveType` (not derived from the source)
PRELUDE = '''(* abstract view of the pydsdl.PrimitiveType argument: which of the three tested classes it is an instance of
   (IntegerType covers Signed/Unsigned; anything else, e.g. VoidType, is KOther), and the two attributes read *)
Inductive prim_kind : Type := KInteger | KFloat | KBoolean | KOther.
Definition prim_kind_eqb (a b : prim_kind) : bool :=
  match a, b with
  | KInteger, KInteger | KFloat, KFloat | KBoolean, KBoolean | KOther, KOther => true
  | _, _ => false
  end.
Record PrimDesc : Type := { pd_kind : prim_kind; pd_bit_length : Z; pd_standard_bit_length : bool }.
'''

T_Z, T_BOOL, T_STR, T_CFIT = 'Z', 'bool', 'string', 'CFit'
KINDS = {'IntegerType': 'KInteger', 'FloatType': 'KFloat', 'BooleanType': 'KBoolean'}
ENUM_FORBIDDEN_METHODS = {'_missing_', '__new__', '__init__', '__call__', '_generate_next_value_', 'value', 'name',
                          '__init_subclass__', '__class_getitem__'}


def _is_name(e: ast.AST, n: str) -> bool:
    return isinstance(e, ast.Name) and e.id == n


def _is_attr(e: ast.AST, base: str, attr: str) -> bool:
    return isinstance(e, ast.Attribute) and _is_name(e.value, base) and e.attr == attr


def _zlit(n: int) -> str:
    return str(n) if n >= 0 else '(%d)' % n


def _slit(s: str) -> str:
    if not all(32 <= ord(c) < 127 and c != '"' for c in s):
        raise Unsupported('string literal %r' % s)
    return '"%s"%%string' % s


def _par(a: str) -> str:
    """parenthesise a Coq term for use as an argument unless it is atomic or already one parenthesised group"""
    if re.fullmatch(r'\w+', a) or re.fullmatch(r'"[^"]*"%string', a):
        return a
    if a.startswith('('):
        depth = 0
        for i, ch in enumerate(a):
            depth += (ch == '(') - (ch == ')')
            if depth == 0:
                if i == len(a) - 1:
                    return a
                break
    return '(%s)' % a


def _strip_doc(body: typing.List[ast.stmt]) -> typing.List[ast.stmt]:
    if body and isinstance(body[0], ast.Expr) and isinstance(body[0].value, ast.Constant) and isinstance(body[0].value.value, str):
        return list(body[1:])
    return list(body)


# ---------------------------------------------------------------------------------------------
# locating definitions (a name must be bound exactly once where we look, builtins must not be shadowed)
# ---------------------------------------------------------------------------------------------
def _bound_names(body: typing.List[ast.stmt]) -> typing.List[str]:
    out: typing.List[str] = []
    for n in body:
        if isinstance(n, (ast.FunctionDef, ast.AsyncFunctionDef, ast.ClassDef)):
            out.append(n.name)
        elif isinstance(n, (ast.Assign, ast.AnnAssign, ast.AugAssign)):
            tgts = n.targets if isinstance(n, ast.Assign) else [n.target]
            for t in tgts:
                out.extend(x.id for x in ast.walk(t) if isinstance(x, ast.Name))
        elif isinstance(n, (ast.Import, ast.ImportFrom)):
            for a in n.names:
                if a.name == '*':
                    raise Unsupported('star import')
                out.append(a.asname or a.name.split('.')[0])
    return out


def _check_module(tree: ast.Module, rel: str, need_once: typing.Sequence[str]) -> None:
    names = _bound_names(tree.body)
    for b in ('int', 'isinstance', 'bool', 'ValueError', 'TypeError', 'RuntimeError'):
        if b in names:
            raise Unsupported('%s: builtin %s is rebound at module level' % (rel, b))
    for n in need_once:
        if names.count(n) != 1:
            raise Unsupported('%s: %s is bound %d times at module level (expected once)' % (rel, n, names.count(n)))
    if not any(isinstance(s, ast.Import) and any(a.name == 'pydsdl' and a.asname is None for a in s.names) for s in tree.body):
        raise Unsupported('%s: `import pydsdl` not found' % rel)


def _find_class(tree: ast.Module, name: str) -> ast.ClassDef:
    for n in tree.body:
        if isinstance(n, ast.ClassDef) and n.name == name:
            return n
    raise Unsupported('class %s not found' % name)


def _find_fn(body: typing.List[ast.stmt], name: str, where: str) -> ast.FunctionDef:
    if _bound_names(body).count(name) != 1:
        raise Unsupported('%s: %s is bound %d times (expected once)' % (where, name, _bound_names(body).count(name)))
    for n in body:
        if isinstance(n, ast.FunctionDef) and n.name == name:
            return n
    raise Unsupported('%s: function %s not found' % (where, name))


def _params(fn: ast.FunctionDef, n: int) -> typing.List[str]:
    a = fn.args
    if a.vararg or a.kwarg or a.kwonlyargs or a.posonlyargs or a.defaults or a.kw_defaults or len(a.args) != n:
        raise Unsupported('%s: unexpected signature' % fn.name)
    return [x.arg for x in a.args]


def _decorators(fn: ast.FunctionDef, want: str) -> None:
    """want: '' (undecorated) | 'staticmethod' | 'classmethod' | 'template_language_test' (called with __name__; hands the
    Language object as first argument)"""
    ds = fn.decorator_list
    ok = (not ds) if not want else len(ds) == 1 and (
        _is_name(ds[0], want) if want in ('staticmethod', 'classmethod') else
        (isinstance(ds[0], ast.Call) and _is_name(ds[0].func, want) and len(ds[0].args) == 1 and not ds[0].keywords
         and _is_name(ds[0].args[0], '__name__')))
    if not ok:
        raise Unsupported('%s: decorators are not exactly %s' % (fn.name, ('@' + want) if want else 'none'))


# ---------------------------------------------------------------------------------------------
# the strict statement / expression translator
# ---------------------------------------------------------------------------------------------
class _Fn:
    """one function; env: python name -> (type, coq term) for values, or ('obj:<role>', None) for abstract objects"""

    def __init__(self, name: str, env: typing.Dict[str, typing.Tuple[str, typing.Optional[str]]], ret: str,
                 members: typing.Optional[typing.List[str]] = None, partial_calls: bool = False) -> None:
        self.name = name
        self.env0 = dict(env)
        self.ret = ret
        self.members = members or []
        self.partial_calls = partial_calls
        self.fresh = 0

    def bad(self, what: str, node: typing.Optional[ast.AST] = None) -> Unsupported:
        src = ''
        if node is not None:
            try:
                src = ': `%s`' % ast.unparse(node)[:80]
            except Exception:  # pragma: no cover
                pass
        return Unsupported('%s: %s%s' % (self.name, what, src))

    # ---- expressions: returns (coq, type); `binds` collects partial calls in evaluation order
    def expr(self, e: ast.AST, env, binds: typing.List[typing.Tuple[str, str]]) -> typing.Tuple[str, str]:
        if isinstance(e, ast.Constant):
            v = e.value
            if type(v) is bool:
                return ('true' if v else 'false'), T_BOOL
            if type(v) is int:
                return _zlit(v), T_Z
            if type(v) is str:
                return _slit(v), T_STR
            raise self.bad('constant', e)
        if isinstance(e, ast.Name):
            if e.id in env and env[e.id][1] is not None:
                return env[e.id][1], env[e.id][0]
            raise self.bad('name without a value type', e)
        if isinstance(e, ast.Attribute):
            return self.attr(e, env, binds)
        if isinstance(e, ast.Call):
            return self.call(e, env, binds)
        if isinstance(e, ast.BinOp):
            a, ta = self.expr(e.left, env, binds)
            b, tb = self.expr(e.right, env, binds)
            if ta != T_Z or tb != T_Z:
                raise self.bad('arithmetic on non-int', e)
            if isinstance(e.op, ast.Add):
                return '(%s + %s)' % (a, b), T_Z
            if isinstance(e.op, ast.Sub):
                return '(%s - %s)' % (a, b), T_Z
            if isinstance(e.op, ast.Mult):
                return '(%s * %s)' % (a, b), T_Z
            if isinstance(e.op, ast.FloorDiv):
                if not (isinstance(e.right, ast.Constant) and type(e.right.value) is int and e.right.value > 0):
                    raise self.bad('// by something that is not a positive literal', e)
                return '(%s / %s)' % (a, b), T_Z
            raise self.bad('binary operator', e)
        if isinstance(e, ast.UnaryOp) and isinstance(e.op, ast.Not):
            a, ta = self.expr(e.operand, env, binds)
            if ta != T_BOOL:
                raise self.bad('`not` on non-bool (truthiness is not modelled)', e)
            return 'negb (%s)' % a, T_BOOL
        if isinstance(e, ast.Compare):
            if len(e.ops) != 1:
                raise self.bad('chained comparison', e)
            op, rhs = e.ops[0], e.comparators[0]
            a, ta = self.expr(e.left, env, binds)
            if isinstance(op, ast.In):
                if not (isinstance(rhs, (ast.Tuple, ast.List, ast.Set)) and rhs.elts and ta == T_Z
                        and all(isinstance(x, ast.Constant) and type(x.value) is int for x in rhs.elts)):
                    raise self.bad('`in` over something that is not a literal collection of ints', e)
                return '(%s)' % ' || '.join('(%s =? %s)' % (a, _zlit(x.value)) for x in rhs.elts), T_BOOL
            b, tb = self.expr(rhs, env, binds)
            if ta != tb:
                raise self.bad('comparison of different types', e)
            if ta == T_Z:
                ops = {ast.Lt: '<?', ast.LtE: '<=?', ast.Gt: '>?', ast.GtE: '>=?', ast.Eq: '=?'}
                if type(op) in ops:
                    return '(%s %s %s)' % (a, ops[type(op)], b), T_BOOL
                if isinstance(op, ast.NotEq):
                    return 'negb (%s =? %s)' % (a, b), T_BOOL
            if ta == T_STR:
                if isinstance(op, ast.Eq):
                    return '(String.eqb %s %s)' % (a, b), T_BOOL
                if isinstance(op, ast.NotEq):
                    return 'negb (String.eqb %s %s)' % (a, b), T_BOOL
            raise self.bad('comparison', e)
        if isinstance(e, ast.IfExp):
            c, tc = self.expr(e.test, env, binds)
            n1 = len(binds)
            a, ta = self.expr(e.body, env, binds)
            b, tb = self.expr(e.orelse, env, binds)
            if tc != T_BOOL or ta != tb:
                raise self.bad('conditional expression types', e)
            if len(binds) != n1:
                raise self.bad('partial call inside a conditional branch', e)
            return '(if %s then %s else %s)' % (c, a, b), ta
        raise self.bad('expression', e)

    def attr(self, e: ast.Attribute, env, binds) -> typing.Tuple[str, str]:
        if isinstance(e.value, ast.Name):
            base = e.value.id
            role = env.get(base, (None, None))[0]
            if role == 'obj:prim':
                if e.attr == 'bit_length':
                    return '(pd_bit_length t)', T_Z
                if e.attr == 'standard_bit_length':
                    return '(pd_standard_bit_length t)', T_BOOL
                raise self.bad('attribute of the primitive type that is not modelled', e)
            if role == 'obj:bitlen':
                if e.attr == 'bit_length':
                    return 'bit_length', T_Z
                raise self.bad('attribute of the primitive type that is not modelled', e)
            if base == '_CFit' and base not in env and self.members:
                if e.attr in self.members:
                    return e.attr, T_CFIT
                raise self.bad('unknown _CFit member', e)
        if e.attr == 'value':
            a, ta = self.expr(e.value, env, binds)
            if ta == T_CFIT:
                return '(CFit_value %s)' % a, T_Z
        raise self.bad('attribute', e)

    def call(self, e: ast.Call, env, binds) -> typing.Tuple[str, str]:
        if e.keywords:
            raise self.bad('keyword arguments', e)
        f, args = e.func, e.args
        if _is_name(f, 'int') and 'int' not in env and len(args) == 1:
            a, ta = self.expr(args[0], env, binds)
            if ta != T_Z:
                raise self.bad('int() of a non-int', e)
            return a, T_Z                                   # int(x) is x for a Python int
        if _is_name(f, 'isinstance') and 'isinstance' not in env and len(args) == 2 and isinstance(args[0], ast.Name):
            role = env.get(args[0].id, (None, None))[0]
            cls = args[1]
            if role == 'obj:prim' and isinstance(cls, ast.Attribute) and _is_name(cls.value, 'pydsdl') and cls.attr in KINDS:
                return '(prim_kind_eqb (pd_kind t) %s)' % KINDS[cls.attr], T_BOOL
            if role == 'obj:offset' and _is_attr(cls, 'pydsdl', 'BitLengthSet'):
                return 'true', 'guard'                      # only accepted as the test of the type guard (see stmts)
            raise self.bad('isinstance test', e)
        if isinstance(f, ast.Attribute) and isinstance(f.value, ast.Name):
            role = env.get(f.value.id, (None, None))[0]
            if role == 'obj:language' and f.attr == 'get_option' and len(args) == 1:
                if isinstance(args[0], ast.Constant) and args[0].value == 'target_endianness':
                    return 'target_endianness', T_STR
                raise self.bad('language option other than "target_endianness"', e)
            if role == 'obj:offset' and f.attr == 'is_aligned_at_byte' and not args:
                return 'is_aligned_at_byte', T_BOOL
            if self.partial_calls and f.value.id == '_CFit' and '_CFit' not in env and f.attr == 'get_best_fit' and len(args) == 1:
                a, ta = self.expr(args[0], env, binds)
                if ta != T_Z:
                    raise self.bad('get_best_fit of a non-int', e)
                self.fresh += 1
                r = 'r%d' % self.fresh
                binds.append((r, 'CFit_get_best_fit %s' % a))
                return r, T_CFIT
        if isinstance(f, ast.Name) and env.get(f.id, (None, None))[0] == 'obj:cls' and len(args) == 1:
            a, ta = self.expr(args[0], env, binds)
            if ta != T_CFIT:
                raise self.bad('cls(x) where x is not a member (lookup by value is not modelled)', e)
            return a, T_CFIT                                # Enum(member) is member
        raise self.bad('call', e)

    # ---- statements: returns a Coq term of type `option <ret>`
    @staticmethod
    def _wrap(binds: typing.List[typing.Tuple[str, str]], body: str, ind: str) -> str:
        for r, call in reversed(binds):
            body = 'match %s with\n%s| Some %s => %s\n%s| None => None\n%send' % (call, ind, r, body, ind, ind)
        return body

    def stmts(self, ss: typing.List[ast.stmt], env, depth: int = 1) -> str:
        ind = '  ' * depth
        if not ss:
            raise self.bad('control can fall off the end of the function (implicit `return None`)')
        s, rest = ss[0], ss[1:]
        if isinstance(s, ast.Return):
            if s.value is None:
                raise self.bad('bare return', s)
            binds: typing.List[typing.Tuple[str, str]] = []
            a, ta = self.expr(s.value, env, binds)
            if ta != self.ret:
                raise self.bad('return of type %s where %s is expected' % (ta, self.ret), s)
            return self._wrap(binds, 'Some %s' % _par(a), ind)
        if isinstance(s, ast.Raise):
            if s.cause is not None or not (isinstance(s.exc, ast.Call) and isinstance(s.exc.func, ast.Name)
                                           and s.exc.func.id in ('ValueError', 'TypeError', 'RuntimeError')):
                raise self.bad('raise', s)
            return 'None'
        if isinstance(s, ast.Assign):
            if len(s.targets) != 1 or not isinstance(s.targets[0], ast.Name):
                raise self.bad('assignment target', s)
            n = s.targets[0].id
            if n in env and env[n][0].startswith('obj:'):
                raise self.bad('assignment to a parameter', s)
            binds = []
            a, ta = self.expr(s.value, env, binds)
            if ta not in (T_Z, T_BOOL, T_STR, T_CFIT):
                raise self.bad('assigned value', s)
            v = 'v_' + n
            env2 = dict(env)
            env2[n] = (ta, v)
            return self._wrap(binds, 'let %s := %s in\n%s%s' % (v, a, ind, self.stmts(rest, env2, depth)), ind)
        if isinstance(s, ast.Assert):
            t = s.test
            if (s.msg is None and isinstance(t, ast.Call) and _is_name(t.func, 'isinstance') and len(t.args) == 2
                    and not t.keywords and isinstance(t.args[0], ast.Name) and _is_name(t.args[1], 'bool')
                    and env.get(t.args[0].id, (None, None))[0] == T_BOOL):
                return self.stmts(rest, env, depth)         # statically true
            raise self.bad('assert', s)
        if isinstance(s, ast.If):
            binds = []
            c, tc = self.expr(s.test, env, binds)
            if binds:
                raise self.bad('partial call in a condition', s)
            if tc == 'guard':
                # `if isinstance(offset, pydsdl.BitLengthSet): <body> else: raise TypeError(..)`: the argument is a
                # BitLengthSet by assumption; the else branch must be nothing but the raise
                if not (len(s.orelse) == 1 and isinstance(s.orelse[0], ast.Raise) and not rest):
                    raise self.bad('type guard without a lone `raise` in the else branch', s)
                self.stmts(list(s.orelse), env, depth)
                return self.stmts(list(s.body), env, depth)
            if tc != T_BOOL:
                raise self.bad('condition is not a bool (truthiness is not modelled)', s)
            a = self.stmts(list(s.body) + rest, env, depth + 1)
            b = self.stmts(list(s.orelse) + rest, env, depth + 1)
            return 'if %s\n%sthen %s\n%selse %s' % (c, ind, a, ind, b)
        raise self.bad('statement', s)


# ---------------------------------------------------------------------------------------------
def _enum_members(cls: ast.ClassDef) -> typing.List[typing.Tuple[str, int]]:
    if not (len(cls.bases) == 1 and _is_attr(cls.bases[0], 'enum', 'Enum') and not cls.keywords):
        raise Unsupported('_CFit is not a plain enum.Enum')
    if not (len(cls.decorator_list) == 1 and _is_attr(cls.decorator_list[0], 'enum', 'unique')):
        raise Unsupported('_CFit is not decorated with exactly @enum.unique')
    members: typing.List[typing.Tuple[str, int]] = []
    for n in _strip_doc(cls.body):
        if isinstance(n, ast.FunctionDef):
            if n.name in ENUM_FORBIDDEN_METHODS:
                raise Unsupported('_CFit defines %s (changes member construction / lookup)' % n.name)
            continue
        if (isinstance(n, ast.Assign) and len(n.targets) == 1 and isinstance(n.targets[0], ast.Name)
                and isinstance(n.value, ast.Constant) and type(n.value.value) is int
                and n.targets[0].id.isidentifier() and n.targets[0].id.isascii() and not n.targets[0].id.startswith('_')):
            members.append((n.targets[0].id, n.value.value))
            continue
        raise Unsupported('_CFit: unexpected class-body statement `%s`' % ast.unparse(n)[:60])
    names = [m for m, _ in members]
    if not members or len(set(names)) != len(names) or len({v for _, v in members}) != len(members):
        raise Unsupported('_CFit: members are not unique')
    taken = {'KInteger', 'KFloat', 'KBoolean', 'KOther', 'PrimDesc', 'prim_kind', 'None', 'Some', 'true', 'false', 'CFit'}
    if any(m in taken or m.startswith(('CFit_', 'pd_', 'v_', 'filter_')) or m in ('t', 'bit_length') for m in names):
        raise Unsupported('_CFit: member name clashes with the generated vocabulary')
    return members


def _def(name: str, params: str, ret: str, body: str, origin: str) -> str:
    return '(* %s *)\nDefinition %s %s : option %s :=\n  %s.\n' % (origin, name, params, ret, body)


def translate() -> str:
    jj = gen.parse_repo(JINJA_PY)
    cc = gen.parse_repo(C_PY)
    _check_module(jj, JINJA_PY, ['DSDLCodeGenerator', 'pydsdl'])
    _check_module(cc, C_PY, ['_CFit', 'filter_to_standard_bit_length', 'is_zero_cost_primitive', 'pydsdl', 'enum',
                              'template_language_test'])
    parts = [PRELUDE]

    gcls = _find_class(jj, 'DSDLCodeGenerator')
    # 1. filter_bits2bytes_ceil(n_bits: int) -> int
    fn = _find_fn(gcls.body, 'filter_bits2bytes_ceil', 'DSDLCodeGenerator')
    _decorators(fn, 'staticmethod')
    (p,) = _params(fn, 1)
    tr = _Fn('filter_bits2bytes_ceil', {p: (T_Z, 'n_bits')}, T_Z)
    parts.append(_def('filter_bits2bytes_ceil', '(n_bits : Z)', 'Z', tr.stmts(_strip_doc(fn.body), tr.env0),
                      'DSDLCodeGenerator.filter_bits2bytes_ceil(n_bits); None = raise'))

    # 2. filter_alignment_prefix(offset: pydsdl.BitLengthSet) -> str, as a function of offset.is_aligned_at_byte()
    fn = _find_fn(gcls.body, 'filter_alignment_prefix', 'DSDLCodeGenerator')
    _decorators(fn, 'staticmethod')
    (p,) = _params(fn, 1)
    tr = _Fn('filter_alignment_prefix', {p: ('obj:offset', None)}, T_STR)
    parts.append(_def('filter_alignment_prefix', '(is_aligned_at_byte : bool)', 'string', tr.stmts(_strip_doc(fn.body), tr.env0),
                      'DSDLCodeGenerator.filter_alignment_prefix(offset) for a pydsdl.BitLengthSet `offset`, as a function of '
                      'offset.is_aligned_at_byte()'))

    # 3. class _CFit
    ccls = _find_class(cc, '_CFit')
    members = _enum_members(ccls)
    names = [m for m, _ in members]
    parts.append('(* class _CFit(enum.Enum), @enum.unique: members and their values *)\n'
                 'Inductive CFit : Type := %s.\n' % ' | '.join(names)
                 + 'Definition CFit_value (m : CFit) : Z :=\n  match m with\n%s\n  end.\n'
                 % '\n'.join('  | %s => %s' % (m, _zlit(v)) for m, v in members)
                 + 'Definition CFit_members : list CFit := (%s)%%list.\n' % ' :: '.join(names + ['nil']))
    fn = _find_fn(ccls.body, 'get_best_fit', '_CFit')
    _decorators(fn, 'classmethod')
    pc, pb = _params(fn, 2)
    tr = _Fn('_CFit.get_best_fit', {pc: ('obj:cls', None), pb: (T_Z, 'bit_length')}, T_CFIT, members=names)
    parts.append(_def('CFit_get_best_fit', '(bit_length : Z)', 'CFit', tr.stmts(_strip_doc(fn.body), tr.env0),
                      '_CFit.get_best_fit(bit_length); None = raise RuntimeError'))

    # 4. filter_to_standard_bit_length(t) as a function of t.bit_length
    fn = _find_fn(cc.body, 'filter_to_standard_bit_length', C_PY)
    _decorators(fn, '')
    (p,) = _params(fn, 1)
    tr = _Fn('filter_to_standard_bit_length', {p: ('obj:bitlen', None)}, T_Z, members=names, partial_calls=True)
    parts.append(_def('filter_to_standard_bit_length', '(bit_length : Z)', 'Z', tr.stmts(_strip_doc(fn.body), tr.env0),
                      'filter_to_standard_bit_length(t) as a function of t.bit_length'))

    # 5. is_zero_cost_primitive(language, t)
    fn = _find_fn(cc.body, 'is_zero_cost_primitive', C_PY)
    _decorators(fn, 'template_language_test')
    pl, pt = _params(fn, 2)
    tr = _Fn('is_zero_cost_primitive', {pl: ('obj:language', None), pt: ('obj:prim', None)}, T_BOOL)
    parts.append(_def('is_zero_cost_primitive', '(target_endianness : string) (t : PrimDesc)', 'bool',
                      tr.stmts(_strip_doc(fn.body), tr.env0),
                      'is_zero_cost_primitive(language, t) as a function of language.get_option("target_endianness") and '
                      'the abstract view of t; None = raise TypeError'))
    return '\n'.join(parts)


def gen_c01() -> typing.Tuple[bool, str]:
    try:
        body = translate()
    except (Unsupported, SyntaxError, OSError, ValueError) as ex:
        why = str(ex).replace('*)', '* )').replace('(*', '( *')
        gen.write_if_changed(OUT, HEAD + '(* translator failed closed: %s *)\n' % why)
        return False, 'T2 (C01 bit-length helpers) failed closed: %s' % ex
    gen.write_if_changed(OUT, HEAD + body)
    return True, 'ok'


GENERATORS = {'c01': gen_c01}
