"""C11 source tie.

pin_c11tree / pin_c11path: shape pins (see shape_pin.py) on the functions the hand model Gen/Namespace.v describes.
c11_scan: AST scan of the two sites that turn a type into a file path (`Namespace._add_data_type`, include generation in
`IncludeGenerator.generate_include_filepart_list`) and of the identifier type every stropping call of the path mechanism
passes -> Generated/Gen_C11Scan.v.  Properties/C11.v proves from these facts that both sites go through `make_path` and that
every name of a path (namespace components in Namespace.__init__ and in _make_ns_list, the file stem in make_path) is
stropped with the SAME identifier type "path".  Anything outside the expected shape: stub file, (False, reason)."""
from __future__ import annotations

import ast
import os
import typing

from . import gen, shape_pin

NS = 'src/nunavut/_namespace.py'
CM = 'src/nunavut/lang/_common.py'
LG = 'src/nunavut/lang/_language.py'
JJ = 'src/nunavut/jinja/__init__.py'

TREE = [(NS, 'build_namespace_tree'),
        (NS, '_NamespaceFactory.__init__'), (NS, '_NamespaceFactory.get_or_make_namespace'),
        (NS, '_NamespaceFactory.get_root_namesapce'), (NS, '_NamespaceFactory.get_empty_namespace'),
        (NS, 'Namespace.__eq__'), (NS, 'Namespace.__hash__'),
        (NS, 'Namespace._add_data_type'), (NS, 'Namespace._add_nested_namespace'),
        (NS, 'Namespace.get_root_namespace'), (NS, 'Namespace.get_nested_namespaces'), (NS, 'Namespace.get_nested_types'),
        (NS, 'Namespace.get_all_datatypes'), (NS, 'Namespace.get_all_namespaces'), (NS, 'Namespace.get_all_types'),
        (NS, 'Namespace._recursive_data_type_generator'), (NS, 'Namespace._recursive_namespace_generator'),
        (NS, 'Namespace._recursive_data_type_and_namespace_generator'),
        (NS, 'Namespace.find_output_path_for_type'), (NS, 'Namespace._bfs_search_for_output_path')]

PATH = [(NS, 'Namespace.__init__'),
        (CM, 'IncludeGenerator.make_path'), (CM, 'IncludeGenerator._make_ns_list'),
        (LG, 'Language.filter_short_reference_name'),
        (JJ, 'DSDLCodeGenerator.filter_type_to_include_path')]


def pin_c11tree():
    return shape_pin.check_pin('c11tree', TREE)


def pin_c11path():
    return shape_pin.check_pin('c11path', PATH)


# ---- scanner --------------------------------------------------------------------------------------------------------
class Unsupported(Exception):
    pass


def _calls(fn: ast.AST, attr: str) -> typing.List[ast.Call]:
    return [n for n in ast.walk(fn) if isinstance(n, ast.Call) and isinstance(n.func, ast.Attribute) and n.func.attr == attr]


# position of the id_type parameter (after self) in the three stropping entry points
ID_POS = {'filter_id': 1, 'filter_id_for_target': 1, 'filter_short_reference_name': 2}


def _id_types(fn: ast.AST) -> typing.List[str]:
    """identifier type of every stropping call in fn, in source order; the default of all three entry points is "any" """
    out = []
    calls = [n for n in ast.walk(fn) if isinstance(n, ast.Call) and isinstance(n.func, ast.Attribute) and n.func.attr in ID_POS]
    calls.sort(key=lambda n: (n.lineno, n.col_offset))
    for c in calls:
        v: typing.Optional[ast.expr] = None
        for kw in c.keywords:
            if kw.arg == 'id_type':
                v = kw.value
            elif kw.arg is None:
                raise Unsupported('**kwargs in a stropping call')
        if v is None and len(c.args) > ID_POS[c.func.attr]:
            v = c.args[ID_POS[c.func.attr]]
        if any(isinstance(a, ast.Starred) for a in c.args):
            raise Unsupported('*args in a stropping call')
        if v is None:
            out.append('any')
        elif isinstance(v, ast.Constant) and isinstance(v.value, str):
            out.append(v.value)
        else:
            raise Unsupported('identifier type is not a string constant')
    return out


def _coq_str(s: str) -> str:
    return '[' + '; '.join(str(ord(c)) for c in s) + ']'


def c11_scan():
    out = os.path.join(gen.GEN_DIR, 'Gen_C11Scan.v')
    head = gen.HEADER % ('%s (Namespace.__init__, Namespace._add_data_type), %s (IncludeGenerator)' % (NS, CM))
    try:
        ns = gen.parse_repo(NS)
        cm = gen.parse_repo(CM)
        add_dt = shape_pin._find(ns, 'Namespace._add_data_type')
        init = shape_pin._find(ns, 'Namespace.__init__')
        incl = shape_pin._find(cm, 'IncludeGenerator.generate_include_filepart_list')
        mk = shape_pin._find(cm, 'IncludeGenerator.make_path')
        nsl = shape_pin._find(cm, 'IncludeGenerator._make_ns_list')

        # site 1: Namespace._add_data_type stores  Path(base) / IncludeGenerator.make_path(dsdl_type, <language>, extension)
        c1 = [c for c in _calls(add_dt, 'make_path') if isinstance(c.func.value, ast.Name) and c.func.value.id == 'IncludeGenerator']
        site1 = (len(c1) == 1 and len(_calls(add_dt, 'make_path')) == 1 and len(c1[0].args) == 3 and not c1[0].keywords
                 and isinstance(c1[0].args[0], ast.Name) and c1[0].args[0].id == 'dsdl_type')
        # site 2: include generation maps every dependency through self.make_path(dt, self._language, output_extension)
        c2 = [c for c in _calls(incl, 'make_path') if isinstance(c.func.value, ast.Name) and c.func.value.id == 'self']
        site2 = (len(c2) == 1 and len(_calls(incl, 'make_path')) == 1 and len(c2[0].args) == 3 and not c2[0].keywords
                 and isinstance(c2[0].args[1], ast.Attribute) and c2[0].args[1].attr == '_language')
        # neither site strops anything on its own
        own = _id_types(add_dt) + _id_types(incl)
        # make_path -> _make_ns_list is the only way namespace components get into the path
        nsl_calls = _calls(mk, '_make_ns_list')
        via = len(nsl_calls) == 1
        ids = _id_types(init) + _id_types(mk) + _id_types(nsl)
    except (OSError, KeyError, SyntaxError, Unsupported) as ex:
        gen.write_if_changed(out, head + '(* c11_scan failed closed: %r *)\n' % (ex,))
        return False, 'c11_scan failed closed: %r' % (ex,)
    text = head
    text += 'From Verif Require Import Str.\nOpen Scope N_scope.\n\n'
    text += '(* Namespace._add_data_type computes the stored path with exactly one call IncludeGenerator.make_path(dsdl_type, language, extension) *)\n'
    text += 'Definition scan_add_data_type_calls_make_path : bool := %s.\n' % ('true' if site1 else 'false')
    text += '(* generate_include_filepart_list maps the dependencies through exactly one call self.make_path(dt, self._language, output_extension) *)\n'
    text += 'Definition scan_include_gen_calls_make_path : bool := %s.\n' % ('true' if site2 else 'false')
    text += '(* number of stropping calls made by the two sites themselves (outside make_path) *)\n'
    text += 'Definition scan_sites_own_stropping_calls : nat := %d.\n' % len(own)
    text += '(* make_path obtains the namespace components from exactly one call of _make_ns_list *)\n'
    text += 'Definition scan_make_path_uses_make_ns_list : bool := %s.\n' % ('true' if via else 'false')
    text += '(* identifier type of every stropping call in Namespace.__init__, make_path, _make_ns_list (default "any" when omitted) *)\n'
    text += 'Definition scan_path_id_types : list str :=\n  [%s].\n' % ';\n   '.join(_coq_str(s) for s in ids)
    gen.write_if_changed(out, text)
    return True, 'ok (%d stropping calls: %s)' % (len(ids), ','.join(ids))


GENERATORS = {'pin_c11tree': pin_c11tree, 'pin_c11path': pin_c11path, 'c11_scan': c11_scan}
