"""C11 source tie.

pin_c11tree / pin_c11path: shape pins (see shape_pin.py) on the functions the hand model Gen/Namespace.v describes.
c11_scan: AST scan of the two sites that turn a type into a file path (`Namespace._add_data_type`, include generation in
`IncludeGenerator.generate_include_filepart_list`) and of the identifier type every stropping call of the path mechanism
passes -> Generated/Gen_C11Scan.v.  Properties/C11.v proves from these facts that both sites go through `make_path` and that
every name of a path (namespace components in Namespace.__init__ and in _make_ns_list, the file stem in make_path) is
stropped with the SAME identifier type "path".  Anything outside the expected shape: stub file, (False, reason)."""
from __future__ import annotations

import ast
import os
import typing

from . import gen, shape_pin

NS = 'src/nunavut/_namespace.py'
CM = 'src/nunavut/lang/_common.py'
LG = 'src/nunavut/lang/_language.py'
JJ = 'src/nunavut/jinja/__init__.py'

TREE = [(NS, 'build_namespace_tree'),
        (NS, '_NamespaceFactory.__init__'), (NS, '_NamespaceFactory.get_or_make_namespace'),
        (NS, '_NamespaceFactory.get_root_namesapce'), (NS, '_NamespaceFactory.get_empty_namespace'),
        (NS, 'Namespace.__eq__'), (NS, 'Namespace.__hash__'),
        (NS, 'Namespace._add_data_type'), (NS, 'Namespace._add_nested_namespace'),
        (NS, 'Namespace.get_root_namespace'), (NS, 'Namespace.get_nested_namespaces'), (NS, 'Namespace.get_nested_types'),
        (NS, 'Namespace.get_all_datatypes'), (NS, 'Namespace.get_all_namespaces'), (NS, 'Namespace.get_all_types'),
        (NS, 'Namespace._recursive_data_type_generator'), (NS, 'Namespace._recursive_namespace_generator'),
        (NS, 'Namespace._recursive_data_type_and_namespace_generator'),
        (NS, 'Namespace.find_output_path_for_type'), (NS, 'Namespace._bfs_search_for_output_path')]

PATH = [(NS, 'Namespace.__init__'),
        (CM, 'IncludeGenerator.make_path'), (CM, 'IncludeGenerator._make_ns_list'),
        (LG, 'Language.filter_short_reference_name'),
        (JJ, 'DSDLCodeGenerator.filter_type_to_include_path')]


# the collision check of design_notes/C11_stem_collide_fix.patch is in /repo since 39680a3: part of the (single) tree shape
TREE.append((NS, '_NamespaceFactory.check_namespace_files_are_not_type_files'))
# Namespace.__init__ strops the folder through LanguageContext.filter_id_for_target, _make_ns_list through Language.filter_id:
# the model's single `strop` relies on the former delegating to the latter with the id type unchanged
PATH.append(('src/nunavut/lang/__init__.py', 'LanguageContext.filter_id_for_target'))
# the stem validation of design_notes/C11_stem_validate_fix.patch is in /repo since b107faf: part of the (single) path shape; the
# pre-fix shape is no longer accepted (a revert fails closed)
PATH.append((NS, '_checked_namespace_file_stem'))

# support files: where the support namespace is read and joined into paths.  design_notes/C11_support_namespace_fix.patch adds the
# helper _checked_support_namespace; landed in /repo 5a15038: SUPPORT_FIX_LANDED = True, so only the post-fix shape
# (pins/c11support_fixed.txt) is accepted and Properties/C11.v's C11_support_ns_validated_live is a real obligation.
SUPPORT_FIX_LANDED = True
SUPPORT = [(LG, 'Language.support_namespace'), (JJ, 'SupportGenerator.__init__'),
           (CM, 'IncludeGenerator.generate_include_filepart_list')]
SUPPORT_VALIDATE = (LG, '_checked_support_namespace')


def _dump(targets) -> str:
    return '\n'.join('## %s:%s\n%s' % (p, q, shape_pin.normalized_dump(p, q)) for p, q in targets) + '\n'


def _two_shape_pin(name: str, targets, extra, flag_name: str, flag_doc: str, landed: bool):
    """pins/<name>.txt = shape without `extra`, pins/<name>_fixed.txt = shape with the patch that adds `extra`; which one /repo
    has is emitted as the boolean `flag_name` the model is instantiated with, together with `pin_<name>_fix_landed`
    (the obligation `fix_landed -> flag` is stated in Properties/C11.v).  Once landed the pre-fix shape is NOT accepted any more."""
    out = os.path.join(gen.GEN_DIR, 'Gen_Pin_%s.v' % name)
    head = gen.HEADER % ', '.join('%s:%s' % t for t in targets + [extra])
    try:
        fixed = open(os.path.join(shape_pin.PINS, name + '_fixed.txt'), encoding='utf-8').read()
        flag = None
        try:
            if _dump(targets + [extra]) == fixed:
                flag = True
        except KeyError:
            pass
        if flag is None and not landed:
            plain = open(os.path.join(shape_pin.PINS, name + '.txt'), encoding='utf-8').read()
            if _dump(targets) == plain:
                try:
                    shape_pin.normalized_dump(*extra)
                except KeyError:
                    flag = False        # the pre-fix shape, and the helper does not exist
    except (OSError, KeyError, SyntaxError, AssertionError) as ex:
        gen.write_if_changed(out, head + '(* shape pin failed closed: %r *)\n' % (ex,))
        return False, 'shape pin %s failed closed: %r' % (name, ex)
    if flag is None:
        gen.write_if_changed(out, head + '(* shape of the pinned function(s) changed: the hand model is no longer known to describe the code *)\n')
        return False, 'shape pin %s: the code has none of the shapes the hand model was written for' % name
    gen.write_if_changed(out, head + 'Definition pin_%s_ok : bool := true.\n(* %s *)\nDefinition %s : bool := %s.\n'
                         '(* is the fix recorded as landed in /repo (tools/translators/gen_c11.py)? then the flag above must be true *)\n'
                         'Definition pin_%s_fix_landed : bool := %s.\n'
                         % (name, flag_doc, flag_name, 'true' if flag else 'false', name, 'true' if landed else 'false'))
    return True, 'ok (%s = %s)' % (flag_name, flag)


def pin_c11tree():
    out = os.path.join(gen.GEN_DIR, 'Gen_Pin_c11tree.v')
    head = gen.HEADER % ', '.join('%s:%s' % t for t in TREE)
    try:
        same = _dump(TREE) == open(os.path.join(shape_pin.PINS, 'c11tree.txt'), encoding='utf-8').read()
    except (OSError, KeyError, SyntaxError, AssertionError) as ex:
        gen.write_if_changed(out, head + '(* shape pin failed closed: %r *)\n' % (ex,))
        return False, 'shape pin c11tree failed closed: %r' % (ex,)
    if not same:
        gen.write_if_changed(out, head + '(* shape of the pinned function(s) changed: the hand model is no longer known to describe the code *)\n')
        return False, 'shape pin c11tree: the code no longer has the shape the hand model was written for'
    gen.write_if_changed(out, head + 'Definition pin_c11tree_ok : bool := true.\n'
                         '(* part of the pinned shape: build_namespace_tree calls nsf.check_namespace_files_are_not_type_files() (fix 39680a3) *)\n'
                         'Definition pin_c11tree_stem_check : bool := true.\n')
    return True, 'ok'


def pin_c11path():
    ok, msg = shape_pin.check_pin('c11path', PATH)
    if ok:   # the stem validation is part of the single pinned shape
        out = os.path.join(gen.GEN_DIR, 'Gen_Pin_c11path.v')
        head = gen.HEADER % ', '.join('%s:%s' % t for t in PATH)
        gen.write_if_changed(out, head + 'Definition pin_c11path_ok : bool := true.\n'
                             '(* part of the pinned shape: Namespace.__init__ passes the stem through _checked_namespace_file_stem (fix b107faf) *)\n'
                             'Definition pin_c11path_stem_validated : bool := true.\n')
    return ok, msg


def pin_c11support():
    return _two_shape_pin('c11support', SUPPORT, SUPPORT_VALIDATE, 'pin_c11support_ns_validated',
                          'does Language.support_namespace validate its components (design_notes/C11_support_namespace_fix.patch)?',
                          SUPPORT_FIX_LANDED)


# the loop that writes one file per yielded output path (model: Namespace.c11_targets)
GEN = [(JJ, 'DSDLCodeGenerator.generate_all')]


def pin_c11gen():
    return shape_pin.check_pin('c11gen', GEN)


# ---- scanner --------------------------------------------------------------------------------------------------------
class Unsupported(Exception):
    pass


def _calls(fn: ast.AST, attr: str) -> typing.List[ast.Call]:
    return [n for n in ast.walk(fn) if isinstance(n, ast.Call) and isinstance(n.func, ast.Attribute) and n.func.attr == attr]


# position of the id_type parameter (after self) in the three stropping entry points
ID_POS = {'filter_id': 1, 'filter_id_for_target': 1, 'filter_short_reference_name': 2}


def _id_types(fn: ast.AST) -> typing.List[str]:
    """identifier type of every stropping call in fn, in source order; the default of all three entry points is "any" """
    out = []
    calls = [n for n in ast.walk(fn) if isinstance(n, ast.Call) and isinstance(n.func, ast.Attribute) and n.func.attr in ID_POS]
    calls.sort(key=lambda n: (n.lineno, n.col_offset))
    for c in calls:
        v: typing.Optional[ast.expr] = None
        for kw in c.keywords:
            if kw.arg == 'id_type':
                v = kw.value
            elif kw.arg is None:
                raise Unsupported('**kwargs in a stropping call')
        if v is None and len(c.args) > ID_POS[c.func.attr]:
            v = c.args[ID_POS[c.func.attr]]
        if any(isinstance(a, ast.Starred) for a in c.args):
            raise Unsupported('*args in a stropping call')
        if v is None:
            out.append('any')
        elif isinstance(v, ast.Constant) and isinstance(v.value, str):
            out.append(v.value)
        else:
            raise Unsupported('identifier type is not a string constant')
    return out


def _class_const(tree: ast.AST, cls: str, name: str) -> str:
    c = shape_pin._find(tree, cls)
    for st in c.body:
        if isinstance(st, ast.Assign) and len(st.targets) == 1 and isinstance(st.targets[0], ast.Name) and st.targets[0].id == name \
                and isinstance(st.value, ast.Constant) and isinstance(st.value.value, str):
            return st.value.value
    raise Unsupported('%s.%s is not a string constant' % (cls, name))


def _cfg_key_of_call(call: ast.AST, lg: ast.AST, owner: str, key_pos: int) -> str:
    """`<x>.get_config_value(..., <owner>.<CONST>)` with the key at position key_pos and NO default -> the constant's value"""
    if not (isinstance(call, ast.Call) and isinstance(call.func, ast.Attribute) and call.func.attr == 'get_config_value'
            and len(call.args) == key_pos + 1 and not call.keywords):
        raise Unsupported('extension is not read by a plain get_config_value(<key>) call')
    k = call.args[key_pos]
    if not (isinstance(k, ast.Attribute) and isinstance(k.value, ast.Name) and k.value.id == owner):
        raise Unsupported('configuration key is not %s.<CONSTANT>' % owner)
    return _class_const(lg, 'Language', k.attr)


def _forwards_param_as_ext(fn: ast.FunctionDef, call: ast.Call, param: str) -> bool:
    names = [a.arg for a in fn.args.args]
    return (param in names and len(call.args) == 3 and isinstance(call.args[2], ast.Name) and call.args[2].id == param
            and not any(isinstance(n, (ast.Assign, ast.AugAssign, ast.AnnAssign)) and any(
                isinstance(t, ast.Name) and t.id == param for t in (n.targets if isinstance(n, ast.Assign) else [n.target]))
                for n in ast.walk(fn)))


def _id_types_calls_only(fn: ast.AST, names) -> typing.List[str]:
    out = []
    for c in ast.walk(fn):
        if isinstance(c, ast.Call) and isinstance(c.func, ast.Attribute) and c.func.attr in names:
            v = None
            for kw in c.keywords:
                if kw.arg == 'id_type':
                    v = kw.value
            if v is None and len(c.args) > 1:
                v = c.args[1]
            if v is None:
                out.append('any')
            elif isinstance(v, ast.Constant) and isinstance(v.value, str):
                out.append(v.value)
            else:
                raise Unsupported('identifier type is not a string constant')
    return out


def _coq_str(s: str) -> str:
    return '[' + '; '.join(str(ord(c)) for c in s) + ']'


def c11_scan():
    out = os.path.join(gen.GEN_DIR, 'Gen_C11Scan.v')
    head = gen.HEADER % ('%s (Namespace.__init__, Namespace._add_data_type), %s (IncludeGenerator)' % (NS, CM))
    try:
        ns = gen.parse_repo(NS)
        cm = gen.parse_repo(CM)
        add_dt = shape_pin._find(ns, 'Namespace._add_data_type')
        init = shape_pin._find(ns, 'Namespace.__init__')
        incl = shape_pin._find(cm, 'IncludeGenerator.generate_include_filepart_list')
        mk = shape_pin._find(cm, 'IncludeGenerator.make_path')
        nsl = shape_pin._find(cm, 'IncludeGenerator._make_ns_list')

        # site 1: Namespace._add_data_type stores  Path(base) / IncludeGenerator.make_path(dsdl_type, <language>, extension)
        c1 = [c for c in _calls(add_dt, 'make_path') if isinstance(c.func.value, ast.Name) and c.func.value.id == 'IncludeGenerator']
        site1 = (len(c1) == 1 and len(_calls(add_dt, 'make_path')) == 1 and len(c1[0].args) == 3 and not c1[0].keywords
                 and isinstance(c1[0].args[0], ast.Name) and c1[0].args[0].id == 'dsdl_type')
        # site 2: include generation maps every dependency through self.make_path(dt, self._language, output_extension)
        c2 = [c for c in _calls(incl, 'make_path') if isinstance(c.func.value, ast.Name) and c.func.value.id == 'self']
        site2 = (len(c2) == 1 and len(_calls(incl, 'make_path')) == 1 and len(c2[0].args) == 3 and not c2[0].keywords
                 and isinstance(c2[0].args[1], ast.Attribute) and c2[0].args[1].attr == '_language')
        # neither site strops anything on its own
        own = _id_types(add_dt) + _id_types(incl)
        # make_path -> _make_ns_list is the only way namespace components get into the path
        nsl_calls = _calls(mk, '_make_ns_list')
        via = len(nsl_calls) == 1
        ids = _id_types(init) + _id_types(mk) + _id_types(nsl)

        # ---- the extension both chains hand to make_path: which configuration key is it read from? -----------------------
        lg = gen.parse_repo(LG)
        bnt = shape_pin._find(ns, 'build_namespace_tree')
        adds = _calls(bnt, '_add_data_type')
        if len(adds) != 1 or len(adds[0].args) != 2 or adds[0].keywords:
            raise Unsupported('build_namespace_tree does not call _add_data_type(dsdl_type, <extension>) exactly once')
        key_out = _cfg_key_of_call(adds[0].args[1], lg, 'Language', 0)
        # Language.get_config_value(key, default) reads self._config.get_config_value(self._section, key, default)
        gcv = shape_pin._find(lg, 'Language.get_config_value')
        inner = _calls(gcv, 'get_config_value')
        gcv_ok = (len(inner) == 1 and len(inner[0].args) == 3 and isinstance(inner[0].args[0], ast.Attribute)
                  and inner[0].args[0].attr == '_section' and isinstance(inner[0].args[1], ast.Name)
                  and inner[0].args[1].id == gcv.args.args[1].arg)
        # Namespace.__init__ (namespace file): with_suffix(target_language.get_config_value(Language.<K>))
        init_ext = [c for c in _calls(init, 'get_config_value') if len(c.args) == 1 and not c.keywords]
        if len(init_ext) != 1:
            raise Unsupported('Namespace.__init__ does not read the extension with one plain get_config_value(<key>) call')
        key_nsfile = _cfg_key_of_call(init_ext[0], lg, 'Language', 0)
        fwd_out = bool(c1) and _forwards_param_as_ext(add_dt, c1[0], 'extension')
        # include chain: lang/c and lang/cpp filter_includes call generate_include_filepart_list(language.extension, sort);
        # Language.extension reads self._config.get_config_value(self._section, self.<CONSTANT>)
        ext_prop = shape_pin._find(lg, 'Language.extension')
        pcalls = _calls(ext_prop, 'get_config_value')
        if not (len(pcalls) == 1 and len(pcalls[0].args) == 2 and not pcalls[0].keywords
                and isinstance(pcalls[0].args[0], ast.Attribute) and pcalls[0].args[0].attr == '_section'
                and isinstance(pcalls[0].args[1], ast.Attribute) and isinstance(pcalls[0].args[1].value, ast.Name)
                and pcalls[0].args[1].value.id == 'self'):
            raise Unsupported('Language.extension is not self._config.get_config_value(self._section, self.<CONSTANT>)')
        key_prop = _class_const(lg, 'Language', pcalls[0].args[1].attr)
        keys_inc = []
        for rel in ('src/nunavut/lang/c/__init__.py', 'src/nunavut/lang/cpp/__init__.py'):
            fi = shape_pin._find(gen.parse_repo(rel), 'filter_includes')
            gl = _calls(fi, 'generate_include_filepart_list')
            if not (len(gl) == 1 and len(gl[0].args) == 2 and not gl[0].keywords and isinstance(gl[0].args[0], ast.Attribute)
                    and gl[0].args[0].attr == 'extension' and isinstance(gl[0].args[0].value, ast.Name)
                    and gl[0].args[0].value.id == 'language'
                    and isinstance(gl[0].func.value, ast.Call) and isinstance(gl[0].func.value.func, ast.Name)
                    and gl[0].func.value.func.id == 'IncludeGenerator' and gl[0].func.value.args
                    and isinstance(gl[0].func.value.args[0], ast.Name) and gl[0].func.value.args[0].id == 'language'):
                raise Unsupported('%s filter_includes is not IncludeGenerator(language, ...).generate_include_filepart_list(language.extension, sort)' % rel)
            keys_inc.append(key_prop)
        fwd_inc = bool(c2) and _forwards_param_as_ext(incl, c2[0], 'output_extension')
        # Python refers to a type through its package (filter_imports) and module path (filter_full_reference_name): the identifier
        # types these strop the namespace components with (directories are stropped with "path")
        pym = gen.parse_repo('src/nunavut/lang/py/__init__.py')
        py_ids = []
        for fname in ('filter_imports', 'filter_full_reference_name'):
            fn = shape_pin._find(pym, fname)
            got = _id_types_calls_only(fn, ('filter_id',))
            # functools.partial(filter_id, language) applied by map(): the module-level filter_id with its default id type
            for c in ast.walk(fn):
                if isinstance(c, ast.Call) and isinstance(c.func, ast.Attribute) and c.func.attr == 'partial' and c.args \
                        and isinstance(c.args[0], ast.Name) and c.args[0].id == 'filter_id':
                    if len(c.args) > 2 or c.keywords:
                        raise Unsupported('partial(filter_id, ...) with an explicit identifier type')
                    got.append('any')
            if not got:
                raise Unsupported('%s strops nothing' % fname)
            py_ids += got
        # explicit stropping arguments anywhere in the path mechanism (both chains then use Language.enable_stropping)
        strop_over = 0
        for fn in (add_dt, incl, mk, nsl, init):
            for c in ast.walk(fn):
                if isinstance(c, ast.Call) and isinstance(c.func, ast.Attribute) and c.func.attr == 'filter_short_reference_name':
                    strop_over += len(c.args) > 1 or any(kw.arg == 'stropping' for kw in c.keywords)
    except (OSError, KeyError, SyntaxError, Unsupported) as ex:
        gen.write_if_changed(out, head + '(* c11_scan failed closed: %r *)\n' % (ex,))
        return False, 'c11_scan failed closed: %r' % (ex,)
    text = head
    text += 'From Verif Require Import Str.\nOpen Scope N_scope.\n\n'
    text += '(* Namespace._add_data_type computes the stored path with exactly one call IncludeGenerator.make_path(dsdl_type, language, extension) *)\n'
    text += 'Definition scan_add_data_type_calls_make_path : bool := %s.\n' % ('true' if site1 else 'false')
    text += '(* generate_include_filepart_list maps the dependencies through exactly one call self.make_path(dt, self._language, output_extension) *)\n'
    text += 'Definition scan_include_gen_calls_make_path : bool := %s.\n' % ('true' if site2 else 'false')
    text += '(* number of stropping calls made by the two sites themselves (outside make_path) *)\n'
    text += 'Definition scan_sites_own_stropping_calls : nat := %d.\n' % len(own)
    text += '(* make_path obtains the namespace components from exactly one call of _make_ns_list *)\n'
    text += 'Definition scan_make_path_uses_make_ns_list : bool := %s.\n' % ('true' if via else 'false')
    text += '(* identifier type of every stropping call in Namespace.__init__, make_path, _make_ns_list (default "any" when omitted) *)\n'
    text += 'Definition scan_path_id_types : list str :=\n  [%s].\n' % ';\n   '.join(_coq_str(s) for s in ids)
    text += '(* configuration key the OUTPUT chain reads the extension from: build_namespace_tree -> get_config_value(Language.<K>) *)\n'
    text += 'Definition scan_ext_key_output : str := %s.\n' % _coq_str(key_out)
    text += '(* configuration key Namespace.__init__ reads the extension of the namespace file from *)\n'
    text += 'Definition scan_ext_key_namespace_file : str := %s.\n' % _coq_str(key_nsfile)
    text += '(* configuration key the INCLUDE chains (lang/c, lang/cpp filter_includes -> language.extension) read it from *)\n'
    text += 'Definition scan_ext_keys_include : list str := [%s].\n' % '; '.join(_coq_str(k) for k in keys_inc)
    text += '(* Language.get_config_value(key) and Language.extension both read self._config.get_config_value(self._section, key ...);\n'
    text += '   _add_data_type / generate_include_filepart_list forward their (never reassigned) extension parameter to make_path *)\n'
    text += 'Definition scan_ext_read_from_same_section : bool := %s.\n' % ('true' if gcv_ok else 'false')
    text += 'Definition scan_ext_forwarded_output : bool := %s.\n' % ('true' if fwd_out else 'false')
    text += 'Definition scan_ext_forwarded_include : bool := %s.\n' % ('true' if fwd_inc else 'false')
    text += '(* explicit `stropping` arguments in the path mechanism (0: both chains use Language.enable_stropping of the language passed) *)\n'
    text += 'Definition scan_stropping_overrides : nat := %d.\n' % strop_over
    text += '(* identifier types with which lang/py filter_imports / filter_full_reference_name strop the namespace components of a reference *)\n'
    text += 'Definition scan_py_reference_id_types : list str := [%s].\n' % '; '.join(_coq_str(k) for k in py_ids)
    gen.write_if_changed(out, text)
    return True, 'ok (%d stropping calls: %s; extension keys %s / %s)' % (len(ids), ','.join(ids), key_out, ','.join(keys_inc))


GENERATORS = {'pin_c11tree': pin_c11tree, 'pin_c11path': pin_c11path, 'pin_c11gen': pin_c11gen, 'pin_c11support': pin_c11support,
              'c11_scan': c11_scan}
